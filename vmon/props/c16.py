"""C16 - Gell-Mann coordinates are an orthogonal-basis isomorphism.

Monitors: contracts on every function of numqi.gellmann, each compared with the reference basis of vmon/ref/gellmann.py
(built from the definition in the documented order X.., Y.., Z.., I): the basis itself (Hermitian, Tr(GiGj)=2 delta,
tensor_n = Kronecker products), analysis == Tr(G_i A)/2, synthesis == sum v_i G_i, both round trips, Bloch vector real and
round-tripping, |v| == dm_to_gellmann_norm, distance^2 == |v-w|^2, cache integrity of the lru-cached basis.
Every contract judges a call from a snapshot of its array arguments taken at call time, checks that the arguments were not
modified and that non-C-ordered arguments (Fortran order, transposed / strided views, slices) give the result of a C-ordered copy.
A `history` shard replays, in ONE process: edit-the-result-in-place-then-call-again for every function (incl. the lru-cached
basis: the next call must still return the basis), work buffers refilled in place, and the same configurations in several call
orders with the first repeated at the end.
Workloads: d=2..8, complex/Hermitian/real/density/pure/diagonal matrices, batch (),(1,),(k,),(k,l), numpy and torch in
float32 and float64 precision, structured corner inputs (basis elements, unit matrices, non-contiguous views, large and
small magnitudes, requires_grad tensors), and numqi's own callers (manifold SO/SU/Hermitian charts, Choi->Bloch map,
density-matrix plane/boundary helpers, PureBosonicExt with the Gell-Mann distance, ABk pre-image operators).
The `basis` shard also runs the numerical regimes ordinary magnitudes do not reach: weakly polarised states (1e-6..1e-10 from the maximally mixed
state, one exactly mixed item in the batch), nearby states (the squared distance is then also judged RELATIVE to the distance, with the Bloch
vector of the difference as reference), exact objects up to symmetry-breaking rounding noise (1e-9..1e-15), tiny coefficient vectors with one
zero item, and the evaluation modes of the torch path (input requires grad / torch.no_grad() / non-leaf input: same value). Consumers in other
modules (Choi->Bloch map, hf_interpolate_dm, get_density_matrix_plane, the Gell-Mann loss of PureBosonicExt) are judged by value against the
reference Bloch vectors; copies (copy / deepcopy / pickle) of the cached basis belong to the caller.
"""
import contextlib
import importlib.util
import os

import numpy as np

from vmon.ref import gellmann as rg

RULE = ('one case = one monitored call of a numqi.gellmann function, identified by (function, backend, dtype, shape, '
        'content digest of the arguments); inputs are drawn for every d=2..8 x kind (complex, Hermitian, real, density, pure, '
        'diagonal, anti-Hermitian) x batch shape ((),(1,),(k,),(k,l)) x backend (numpy, torch) x precision (float32, float64) '
        'plus hand-listed corner inputs and the arguments numqi\'s own callers produce; a case is non-trivial when the '
        'matrix argument has a non-zero traceless part / the vector argument is non-zero (basis queries: always); inputs also vary in memory '
        'layout (C, Fortran, transposed / strided views, slices of larger arrays) and, on the numpy path, integer dtypes; history cases are '
        '(function, kind of history) replayed in one process')
EXHAUSTIVE = {'quick': True, 'thorough': True}
EXHAUSTIVE_DOMAINS = {
    'quick': ['all (i,j,d) of gellmann_matrix for d=2..8 (203 elements)',
              'all (d, with_I) of all_gellmann_matrix for d=2..8, tensor_n=1 (14) and d=2..4, tensor_n=2 (6)',
              'every basis element G_i and every unit matrix |a><b| of d=2..8 analysed and re-synthesised (2 x 203)'],
    'thorough': ['all (i,j,d) of gellmann_matrix for d=2..8 (203 elements)',
                 'all (d, with_I) of all_gellmann_matrix for d=2..8, tensor_n=1 (14), d=2..6, tensor_n=2 (10), d=2,3 tensor_n=3 (4)',
                 'every basis element G_i and every unit matrix |a><b| of d=2..8 analysed and re-synthesised (2 x 203)'],
}
ASSUMPTIONS = [
    'arrays a function returns belong to the caller: editing them in place must not change what later calls return (a read-only result that '
    'refuses the edit satisfies this)',
    'documented order of the basis: symmetric (a<b row-major), antisymmetric (same pair order), diagonal l=1..d-1, identity '
    'sqrt(2/d)*1 last; gellmann_matrix(i,j,d): i<j X-like, i>j Y-like, i=j=0 identity, i=j>0 Z-like',
    'tolerance 100*eps(input precision)*d relative to the largest entry of the item (eps = 1.2e-7 for float32/complex64 '
    'inputs, 2.2e-16 for float64/complex128)',
    'dm_to_gellmann_norm and get_density_matrix_distance2 are judged as Parseval identities: norm of the d^2-1 non-identity '
    'coefficients; distance only when both arguments have equal trace (always true for density matrices)',
    'the squared distance is additionally judged relative to itself (100*eps*d^2*|v-w|^2 + the identity component of the difference, which is '
    'rounding noise of the inputs): subtracting the given entries is exact up to one rounding of the difference, so nothing in the inputs forces a '
    'larger error; the norm of a weakly polarised state keeps the absolute allowance eps*d*max|entry| (the cancellation against tr/d is forced by the input)',
]
TECHNIQUE = 'contracts on all numqi.gellmann functions against a reference basis built from the definition; relational monitors (round trips, batched==per item, torch==numpy); cache-integrity trace check'
LEVEL_NOTE = ('Basis indices (i,j,d), (d,tensor_n,with_I) enumerated completely for d=2..8; matrices and vectors are sampled. tensor_n=2 bases are '
              'compared up to d=4 (quick) / d=6 (thorough) because of their size (larger ones would be counted inconclusive). dm_to_gellmann_norm is '
              'numpy-only in numqi. get_density_matrix_distance2 is judged only for arguments of equal trace. Trusted base: numpy/torch numerics and '
              'vmon/ref/gellmann.py (self-checked against the printed Pauli and Gell-Mann matrices).')
DECIDING = ['numqi.gellmann.gellmann_matrix', 'numqi.gellmann.all_gellmann_matrix', 'numqi.gellmann.matrix_to_gellmann_basis',
            'numqi.gellmann.gellmann_basis_to_matrix', 'numqi.gellmann.dm_to_gellmann_basis', 'numqi.gellmann.gellmann_basis_to_dm',
            'numqi.gellmann.dm_to_gellmann_norm', 'numqi.gellmann.get_density_matrix_distance2', 'cache-integrity',
            'relation/batched==per-item', 'relation/torch==numpy', 'relation/layout-independent', 'history/edit-result-then-call-again',
            'history/work-buffer', 'history/call-order', 'distance2/relative-to-the-distance', 'relation/evaluation-mode-independent',
            'consumer/value-against-reference']

C_TOL = 100.0
EPS64 = 2.3e-16
EPS32 = 1.2e-7


def shards(tier, seed):
    ret = [{'name': 'basis'}, {'name': 'corner'}, {'name': 'realistic'}, {'name': 'history'}]  # ('basis' also runs the numerical regimes: it is the lightest shard)
    nrep = 1 if tier == 'quick' else 6
    for backend in ('numpy', 'torch'):
        for prec in ('f64', 'f32'):
            for r in range(nrep):
                ret.append({'name': f'random-{backend}-{prec}' + (f'-{r}' if nrep > 1 else ''), 'backend': backend, 'prec': prec, 'rep': r})
    if tier == 'thorough':
        ret.append({'name': 'repo-tests'})
    return ret


# ----------------------------------------------------------------------------------------------- helpers
def is_torch(x):
    return type(x).__module__.startswith('torch')


def npy(x):
    if is_torch(x):
        return x.detach().resolve_conj().resolve_neg().cpu().numpy()
    return np.asarray(x)


def backend_of(x):
    return 'torch' if is_torch(x) else 'numpy'


def layout_of(x):
    """memory layout of an array argument: 'C', 'F' (column-major, not C) or 'strided'"""
    if is_torch(x):
        return 'C' if x.is_contiguous() else 'strided'
    x = np.asarray(x)
    if x.flags.c_contiguous:
        return 'C'
    return 'F' if x.flags.f_contiguous else 'strided'


def snap(x):
    """values of an array argument at call time (own memory, C order)"""
    return np.array(npy(x), order='C', copy=True)


def same_bytes(x, snapshot):
    cur = npy(x)
    return cur.shape == snapshot.shape and cur.dtype == snapshot.dtype and np.ascontiguousarray(cur).tobytes() == snapshot.tobytes()


def in_eps(*xs):
    e = EPS64
    for x in xs:
        name = str(getattr(x, 'dtype', ''))
        if 'float32' in name or 'complex64' in name:
            e = max(e, EPS32)
        elif 'float16' in name or 'complex32' in name:
            e = max(e, 1e-3)
    return e


def vec_block(i, d):
    p = d * (d - 1) // 2
    if i < p:
        return 'sym-block'
    if i < 2 * p:
        return 'antisym-block'
    if i < d * d - 1:
        return 'diag-block'
    return 'identity-component'


def mat_block(r, c):
    return 'upper' if r < c else ('lower' if r > c else 'diagonal')


class Mon:
    def __init__(self, ctx, numqi):
        self.ctx = ctx
        self.numqi = numqi
        self.G = numqi.gellmann
        self.seen_basis = {}      # (d,tensor_n,with_I) -> digest of the first array seen
        self.sampled = set()
        ctx.extra.setdefault('worst_err_over_eps_scale', {})
        ctx.extra.setdefault('backend_calls', {})
        ctx.extra.setdefault('dims_seen', {})

    # one comparison = one monitor-condition evaluation; the failing block names the mechanism
    def compare(self, got, ref, scale, eps, d, key, what, blockfn, wit):
        ctx = self.ctx
        got = npy(got)
        if got.shape != ref.shape:
            return ctx.check(False, key + '/shape', f'{what}: shape {got.shape}, expected {ref.shape}', wit)
        if got.size == 0:
            return ctx.check(True, key, what)
        scale = np.asarray(scale, dtype=np.float64)
        nb = ref.ndim - scale.ndim
        allowed = C_TOL * eps * d * scale.reshape(scale.shape + (1,) * nb)
        with np.errstate(all='ignore'):
            err = np.abs(got.astype(np.complex128) - ref)
        bad = ~(err <= allowed)  # also catches nan
        if bad.any():
            idx = np.unravel_index(int(np.argmax(np.where(bad, np.where(np.isfinite(err), err, np.inf), -1.0))), err.shape)
            blk = blockfn(idx)
            w = {'index': [int(t) for t in idx], 'got': complex(got[idx]), 'expected': complex(ref[idx]), 'abs_err': float(err[idx]) if np.isfinite(err[idx]) else repr(err[idx]),
                 'allowed': float(np.broadcast_to(allowed, err.shape)[idx]), 'n_bad_entries': int(bad.sum())}
            w.update(wit() if callable(wit) else (wit or {}))
            return ctx.check(False, f'{key}/{blk}', f'{what} (first/worst failing part: {blk})', w)
        with np.errstate(all='ignore'):
            rel = float(np.max(err / np.maximum(np.broadcast_to(allowed, err.shape) / C_TOL, 1e-300))) if err.size else 0.0
        wd = ctx.extra['worst_err_over_eps_scale']
        if np.isfinite(rel):
            wd[key] = max(wd.get(key, 0.0), rel)
        return ctx.check(True, key, what)

    def invoke(self, key, f, *a, **k):
        """re-invoke library code from a monitor; an exception there is a violation, not a harness error"""
        try:
            return True, f(*a, **k)
        except Exception as e:  # noqa
            self.ctx.check(False, f'{key}/raises/{type(e).__name__}', f'{key}: re-invocation raised {type(e).__name__}: {str(e)[:150]}',
                           {'exception': repr(e)[:300]})
            return False, None

    def count(self, point, arrs, nontrivial, d, backend, sample=None):
        ctx = self.ctx
        ctx.case(point, backend, [(str(a.dtype), a) for a in arrs], nontrivial=nontrivial)
        bc = ctx.extra['backend_calls']
        bc[f'{point}/{backend}'] = bc.get(f'{point}/{backend}', 0) + 1
        ds = ctx.extra['dims_seen']
        ds[str(d)] = ds.get(str(d), 0) + 1
        if sample is not None and (point, backend) not in self.sampled and d <= 3 and all(a.ndim <= 2 for a in arrs):
            self.sampled.add((point, backend))
            ctx.sample({'point': point, 'backend': backend, **sample()})


def item_scale(a, nlast):
    """largest |entry| of each item (over the last nlast axes)"""
    if a.size == 0:
        return np.zeros(a.shape[:a.ndim - nlast])
    return np.abs(a).max(axis=tuple(range(a.ndim - nlast, a.ndim)))


def traceless_nonzero(a):
    d = a.shape[-1]
    if a.size == 0:
        return False
    t = a - (np.trace(a, axis1=-2, axis2=-1) / d)[..., None, None] * np.eye(d)
    return bool(np.abs(t).max() > 0)


def install(ctx, numqi):
    M = Mon(ctx, numqi)
    G = numqi.gellmann

    # ------------------------------------------------------------------ basis
    def post_gellmann_matrix(c):
        if c.exc is not None:
            return
        i, j, d = c.arg(0, 'i'), c.arg(1, 'j'), c.arg(2, 'd')
        got = np.asarray(c.result)
        ref = rg.element(int(i), int(j), int(d))
        kind = 'X-like' if i < j else ('Y-like' if i > j else ('identity' if i == 0 else 'Z-like'))
        ctx.case('gellmann_matrix', int(i), int(j), int(d))
        ok = got.shape == ref.shape
        ctx.check(ok and np.abs(got - ref).max() <= 1e-14, f'gellmann_matrix/value/{kind}', 'gellmann_matrix(i,j,d) differs from the definition',
                  {'i': i, 'j': j, 'd': d, 'got': got, 'expected': ref})
        if ok:
            ctx.check(np.abs(got - got.conj().T).max() <= 1e-14 and abs(np.trace(got @ got) - 2) <= 1e-13, f'gellmann_matrix/hermitian-norm2/{kind}',
                      'gellmann_matrix(i,j,d) is not Hermitian with Tr(G^2)=2', {'i': i, 'j': j, 'd': d, 'got': got})

    ctx.attach(G, 'gellmann_matrix', post=post_gellmann_matrix, point='numqi.gellmann.gellmann_matrix')

    def check_basis(got, d, tensor_n, with_I, prefix):
        n = d**(2 * tensor_n) - (0 if with_I else 1)
        D = d**tensor_n
        if n * D * D > 2_000_000:
            ctx.inconclusive('all_gellmann_matrix/too-large-for-the-reference')
            return None
        got = np.asarray(got)
        ref = rg.basis(d, tensor_n, with_I)
        wit = {'d': d, 'tensor_n': tensor_n, 'with_I': with_I}
        if got.shape != ref.shape:
            ctx.check(False, f'{prefix}/shape', f'all_gellmann_matrix: shape {got.shape}, expected {ref.shape}', wit)
            return False
        err = np.abs(got - ref)
        ok = bool(np.all(err <= 1e-13))
        if not ok:
            k = int(np.argmax(err.reshape(n, -1).max(axis=1)))
            which = vec_block(k, d) if tensor_n == 1 else 'tensor-product-element'
            ctx.check(False, f'{prefix}/value/{which}', 'all_gellmann_matrix differs from the reference basis in the documented order',
                      {**wit, 'element': k, 'got': got[k], 'expected': ref[k]})
        else:
            ctx.check(True, f'{prefix}/value', '')
        ctx.check(np.abs(got - got.transpose(0, 2, 1).conj()).max() <= 1e-13, f'{prefix}/hermitian', 'a basis element is not Hermitian', wit)
        flat = got.reshape(n, -1)
        gram = flat @ flat.conj().T
        gerr = np.abs(gram - (2**tensor_n) * np.eye(n))
        ctx.check(gerr.max() <= 1e-11, f'{prefix}/orthogonality', 'Tr(G_i G_j) != 2^tensor_n delta_ij',
                  lambda: {**wit, 'pair': [int(t) for t in np.unravel_index(int(np.argmax(gerr)), gerr.shape)], 'max_dev': float(gerr.max())})
        if tensor_n == 2 and n * D * D <= 500_000:
            one = rg.basis(d, 1, True)
            # independent of the reference's own tensor construction: spot check element (a,b) == kron(G_a, G_b)
            idx = [(0, 1), (d * d - 1, 0), (1, d * d - 1), (d * d - 2, d * d - 2)]
            okk = all(np.abs(got[a * d * d + b] - np.kron(one[a], one[b])).max() <= 1e-13 for a, b in idx if a * d * d + b < n)
            ctx.check(okk, f'{prefix}/kronecker', 'tensor_n=2 element (a,b) is not kron(G_a,G_b)', wit)
        return ok

    def post_all(c):
        if c.exc is not None:
            return
        d = int(c.arg(0, 'd'))
        tensor_n = int(c.arg(1, 'tensor_n', 1))
        with_I = bool(c.arg(2, 'with_I', True))
        key = (d, tensor_n, with_I)
        ctx.case('all_gellmann_matrix', d, tensor_n, with_I)
        got = c.result
        if not isinstance(got, np.ndarray):
            ctx.check(False, 'all_gellmann_matrix/type', 'all_gellmann_matrix did not return an ndarray', {'type': str(type(got))})
            return
        check_basis(got, d, tensor_n, with_I, 'all_gellmann_matrix')
        if key not in M.seen_basis and got.size <= 2_000_000:
            M.seen_basis[key] = True

    ctx.attach(G, 'all_gellmann_matrix', post=post_all, point='numqi.gellmann.all_gellmann_matrix')

    # ------------------------------------------------------------------ snapshots of the array arguments at call time
    def pre_snap(*names):
        def pre(c):
            out = []
            for i, nm in enumerate(names):
                x = c.arg(i, nm)
                out.append({'a': snap(x), 'layout': layout_of(x)} if (isinstance(x, np.ndarray) or is_torch(x)) else None)
            return out
        return pre

    def at_call(c, i, live):
        """values of argument i at call time (falls back to the current values)"""
        if c.snap and i < len(c.snap) and c.snap[i] is not None:
            return c.snap[i]['a']
        return npy(live)

    def arg_relations(c, fn, be, lives, recall, tol_abs, wit):
        """(3) the function must not modify its array arguments; (4) the same values in a C-ordered copy give the same result"""
        snaps = c.snap or []
        for live, sp in zip(lives, snaps):
            if sp is not None:
                ctx.check(same_bytes(live, sp['a']), f'{fn}/{be}/mutates-argument', f'{fn} modified an array argument in place', wit)
        if any(sp is not None and sp['layout'] != 'C' for sp in snaps):
            import torch
            fresh = [(torch.from_numpy(sp['a'].copy()) if is_torch(live) else sp['a'].copy()) if sp is not None else live for live, sp in zip(lives, snaps)]
            good, rc = M.invoke(f'{fn}/{be}/layout', recall, *fresh)
            if good:
                lay = ctx.extra.setdefault('non_C_layout_calls', {})
                lay[f'{fn}/{be}'] = lay.get(f'{fn}/{be}', 0) + 1
                rel_close(ctx, c.result, rc, 1.0, tol_abs, f'{fn}/{be}/layout-dependent', f'{fn}: the result depends on the memory layout (Fortran order / transposed view / '
                          'strided slice) of an argument, not only on its values', wit() if callable(wit) else wit, 'relation/layout-independent')

    # ------------------------------------------------------------------ analysis / synthesis
    def post_m2v(c):
        if c.exc is not None:
            return
        A = c.arg(0, 'A')
        a = at_call(c, 0, A)
        if a.ndim < 2 or a.shape[-1] != a.shape[-2] or a.shape[-1] < 1:
            return
        d = a.shape[-1]
        be = backend_of(A)
        eps = in_eps(A)
        M.count('matrix_to_gellmann_basis', [a], traceless_nonzero(a), d, be,
                sample=lambda: {'A': a, 'coefficients': npy(c.result)})
        ctx.check(backend_of(c.result) == be, f'matrix_to_gellmann_basis/{be}/backend', 'result is not of the backend of the input', {'type': str(type(c.result))})
        ref = rg.analyse(a)
        sc = item_scale(a, 2)
        wit = lambda: {'d': d, 'backend': be, 'dtype': str(A.dtype), 'batch': list(a.shape[:-2]), 'A': a}
        ok = M.compare(c.result, ref, sc, eps, d, f'matrix_to_gellmann_basis/{be}', 'coefficients differ from Tr(G_i A)/2',
                       lambda idx: vec_block(idx[-1], d), wit)
        arg_relations(c, 'matrix_to_gellmann_basis', be, [A], G.matrix_to_gellmann_basis, C_TOL * eps * d * float(np.max(sc, initial=0.0)), wit)
        if ok:
            good, back = M.invoke(f'roundtrip/matrix-vector-matrix/{be}', G.gellmann_basis_to_matrix, c.result)
            if good:
                M.compare(back, a.astype(np.complex128), sc, eps, 2 * d, f'roundtrip/matrix-vector-matrix/{be}',
                          'gellmann_basis_to_matrix(matrix_to_gellmann_basis(A)) != A', lambda idx: mat_block(idx[-2], idx[-1]), wit)

    ctx.attach(G, 'matrix_to_gellmann_basis', post=post_m2v, pre=pre_snap('A'), point='numqi.gellmann.matrix_to_gellmann_basis')

    def post_v2m(c):
        if c.exc is not None:
            return
        vec = c.arg(0, 'vec')
        v = at_call(c, 0, vec)
        if v.ndim < 1:
            return
        d = int(round(np.sqrt(v.shape[-1])))
        if d * d != v.shape[-1] or d < 1:
            return
        be = backend_of(vec)
        eps = in_eps(vec)
        M.count('gellmann_basis_to_matrix', [v], bool(v.size and np.abs(v).max() > 0), d, be,
                sample=lambda: {'vec': v, 'matrix': npy(c.result)})
        ctx.check(backend_of(c.result) == be, f'gellmann_basis_to_matrix/{be}/backend', 'result is not of the backend of the input', {'type': str(type(c.result))})
        ref = rg.synthesise(v)
        sc = item_scale(v, 1)
        wit = lambda: {'d': d, 'backend': be, 'dtype': str(vec.dtype), 'batch': list(v.shape[:-1]), 'vec': v}
        ok = M.compare(c.result, ref, sc, eps, d, f'gellmann_basis_to_matrix/{be}', 'matrix differs from sum_i v_i G_i',
                       lambda idx: mat_block(idx[-2], idx[-1]), wit)
        arg_relations(c, 'gellmann_basis_to_matrix', be, [vec], G.gellmann_basis_to_matrix, C_TOL * eps * d * float(np.max(sc, initial=0.0)), wit)
        if ok:
            good, back = M.invoke(f'roundtrip/vector-matrix-vector/{be}', G.matrix_to_gellmann_basis, c.result)
            if good:
                M.compare(back, v.astype(np.complex128), sc, eps, 2 * d, f'roundtrip/vector-matrix-vector/{be}',
                          'matrix_to_gellmann_basis(gellmann_basis_to_matrix(v)) != v', lambda idx: vec_block(idx[-1], d), wit)

    ctx.attach(G, 'gellmann_basis_to_matrix', post=post_v2m, pre=pre_snap('vec'), point='numqi.gellmann.gellmann_basis_to_matrix')

    # ------------------------------------------------------------------ density matrices
    def looks_like_dm(a, eps):
        d = a.shape[-1]
        sc = max(float(np.abs(a).max()), 1e-300)
        herm = np.abs(a - np.swapaxes(a, -1, -2).conj()).max() <= 10 * eps * sc
        tr1 = np.abs(np.trace(a, axis1=-2, axis2=-1) - 1).max() <= 10 * eps * d * max(sc, 1)
        return bool(herm and tr1)

    def post_dm2v(c):
        if c.exc is not None:
            return
        dm = c.arg(0, 'dm')
        with_rho0 = bool(c.arg(1, 'with_rho0', False))
        a = at_call(c, 0, dm)
        if a.ndim < 2 or a.shape[-1] != a.shape[-2]:
            return
        d = a.shape[-1]
        be = backend_of(dm)
        eps = in_eps(dm)
        M.count('dm_to_gellmann_basis', [a, np.array(with_rho0)], traceless_nonzero(a), d, be,
                sample=lambda: {'dm': a, 'with_rho0': with_rho0, 'bloch_vector': npy(c.result)})
        got = npy(c.result)
        ctx.check(not np.iscomplexobj(got), f'dm_to_gellmann_basis/{be}/real', 'the Bloch vector is not of a real dtype', {'dtype': str(got.dtype)})
        ref = rg.analyse(a).real
        if not with_rho0:
            ref = ref[..., :-1]
        sc = item_scale(a, 2)
        wit = lambda: {'d': d, 'backend': be, 'dtype': str(dm.dtype), 'batch': list(a.shape[:-2]), 'with_rho0': with_rho0, 'dm': a}
        ok = M.compare(got, ref.astype(np.complex128), sc, eps, d, f'dm_to_gellmann_basis/{be}/with_rho0={with_rho0}',
                       'Bloch vector differs from Re Tr(G_i rho)/2', lambda idx: vec_block(idx[-1], d), wit)
        arg_relations(c, 'dm_to_gellmann_basis', be, [dm], lambda x: G.dm_to_gellmann_basis(x, with_rho0=with_rho0), C_TOL * eps * d * float(np.max(sc, initial=0.0)), wit)
        if ok and not with_rho0 and a.size and looks_like_dm(a, eps):
            good, back = M.invoke(f'roundtrip/dm-bloch-dm/{be}', G.gellmann_basis_to_dm, c.result)
            if good:
                M.compare(back, a.astype(np.complex128), np.maximum(sc, 1.0 / d), eps, 2 * d, f'roundtrip/dm-bloch-dm/{be}',
                          'gellmann_basis_to_dm(dm_to_gellmann_basis(rho)) != rho', lambda idx: mat_block(idx[-2], idx[-1]), wit)

    ctx.attach(G, 'dm_to_gellmann_basis', post=post_dm2v, pre=pre_snap('dm'), point='numqi.gellmann.dm_to_gellmann_basis')

    def post_v2dm(c):
        if c.exc is not None:
            return
        vec = c.arg(0, 'vec')
        v = at_call(c, 0, vec)
        if v.ndim < 1:
            return
        d = int(round(np.sqrt(v.shape[-1] + 1)))
        if d * d - 1 != v.shape[-1] or d < 2:
            return
        be = backend_of(vec)
        eps = in_eps(vec)
        M.count('gellmann_basis_to_dm', [v], bool(v.size and np.abs(v).max() > 0), d, be,
                sample=lambda: {'bloch_vector': v, 'dm': npy(c.result)})
        ctx.check(backend_of(c.result) == be, f'gellmann_basis_to_dm/{be}/backend', 'result is not of the backend of the input', {'type': str(type(c.result))})
        ref = rg.bloch_to_dm(v)
        sc = np.maximum(item_scale(v, 1), 1.0 / d)
        wit = lambda: {'d': d, 'backend': be, 'dtype': str(vec.dtype), 'batch': list(v.shape[:-1]), 'vec': v}
        ok = M.compare(c.result, ref, sc, eps, d, f'gellmann_basis_to_dm/{be}', 'matrix differs from 1/d + sum_i v_i G_i',
                       lambda idx: mat_block(idx[-2], idx[-1]), wit)
        arg_relations(c, 'gellmann_basis_to_dm', be, [vec], G.gellmann_basis_to_dm, C_TOL * eps * d * float(np.max(sc, initial=0.0)), wit)
        if ok and not np.iscomplexobj(v):
            got = npy(c.result)
            tr = np.trace(got, axis1=-2, axis2=-1)
            ctx.check(np.all(np.abs(tr - 1) <= C_TOL * eps * d * np.maximum(sc, 1)), f'gellmann_basis_to_dm/{be}/unit-trace', 'trace of the result is not 1', wit)
            good, back = M.invoke(f'roundtrip/bloch-dm-bloch/{be}', G.dm_to_gellmann_basis, c.result)
            if good:
                M.compare(back, v.astype(np.complex128), sc, eps, 2 * d, f'roundtrip/bloch-dm-bloch/{be}',
                          'dm_to_gellmann_basis(gellmann_basis_to_dm(v)) != v', lambda idx: vec_block(idx[-1], d), wit)

    ctx.attach(G, 'gellmann_basis_to_dm', post=post_v2dm, pre=pre_snap('vec'), point='numqi.gellmann.gellmann_basis_to_dm')

    def post_norm(c):
        if c.exc is not None:
            return
        dm = c.arg(0, 'dm')
        a = at_call(c, 0, dm)
        if a.ndim < 2 or a.shape[-1] != a.shape[-2]:
            return
        d = a.shape[-1]
        be = backend_of(dm)
        eps = in_eps(dm)
        M.count('dm_to_gellmann_norm', [a], traceless_nonzero(a), d, be, sample=lambda: {'dm': a, 'norm': npy(c.result)})
        coeff = rg.analyse(a)[..., :-1]
        ref = np.sqrt((np.abs(coeff)**2).sum(axis=-1)).astype(np.complex128)
        sc = item_scale(a, 2)
        wit = lambda: {'d': d, 'backend': be, 'dtype': str(dm.dtype), 'batch': list(a.shape[:-2]), 'dm': a}
        M.compare(c.result, ref, sc, eps, d, f'dm_to_gellmann_norm/{be}', 'reported norm differs from the Euclidean norm of the Bloch vector',
                  lambda idx: 'value', wit)
        arg_relations(c, 'dm_to_gellmann_norm', be, [dm], G.dm_to_gellmann_norm, C_TOL * eps * d * float(np.max(sc, initial=0.0)), wit)

    ctx.attach(G, 'dm_to_gellmann_norm', post=post_norm, pre=pre_snap('dm'), point='numqi.gellmann.dm_to_gellmann_norm')

    def post_dist2(c):
        if c.exc is not None:
            return
        rho, sigma = c.arg(0, 'rho'), c.arg(1, 'sigma')
        a, b = at_call(c, 0, rho), at_call(c, 1, sigma)
        if a.ndim != 2 or a.shape != b.shape or a.shape[0] != a.shape[1]:
            return
        d = a.shape[-1]
        be = backend_of(rho)
        eps = in_eps(rho, sigma)
        sc = max(float(np.abs(a).max()), float(np.abs(b).max()))
        if abs(np.trace(a) - np.trace(b)) > 1e3 * eps * d * sc:
            ctx.inconclusive('get_density_matrix_distance2/arguments-of-unequal-trace (outside the statement)')
            return
        M.count('get_density_matrix_distance2', [a, b], bool(np.abs(a - b).max() > 0), d, be,
                sample=lambda: {'rho': a, 'sigma': b, 'distance2': npy(c.result)})
        va, vb = rg.analyse(a)[:-1], rg.analyse(b)[:-1]
        ref = np.asarray((np.abs(va - vb)**2).sum(), dtype=np.complex128)
        wit = lambda: {'d': d, 'backend': be, 'dtype': [str(rho.dtype), str(sigma.dtype)], 'rho': a, 'sigma': b}
        got = npy(c.result)
        ctx.check(not np.iscomplexobj(got), f'get_density_matrix_distance2/{be}/real', 'distance is not of a real dtype', {'dtype': str(got.dtype)})
        ok = M.compare(got.reshape(()), ref, sc * sc, eps, d * d, f'get_density_matrix_distance2/{be}',
                       'reported squared distance differs from |v-w|^2 of the Bloch vectors', lambda idx: 'value', wit)
        if ok and got.size == 1:
            # nearby states (|v-w| << |v|): the error allowed above is absolute in the size of the states. The map (rho,sigma) -> |v-w|^2 is
            # well conditioned RELATIVE to |v-w|^2 (the subtraction of the given entries is exact up to one rounding of the difference), so the
            # distance is also judged relative to the distance itself; reference: Bloch vector of the difference (linearity of the reference
            # analysis), computed in float64 from the snapshots. The identity component of the difference (traces equal only up to the rounding
            # of the inputs) is input noise, not an error of the function: it is added to the allowance.
            cdiff = rg.analyse(a.astype(np.complex128) - b.astype(np.complex128))
            ref_noI = float((np.abs(cdiff[:-1])**2).sum())
            ref_I = float(np.abs(cdiff[-1])**2)
            allowed = C_TOL * eps * d * d * (ref_noI + ref_I) + ref_I + C_TOL * (eps * sc)**2 * d * d
            err = abs(float(np.real(got.reshape(()))) - ref_noI)
            ctx.check(err <= allowed, f'get_density_matrix_distance2/{be}/relative-to-the-distance',
                      'squared distance of two NEARBY states is wrong relative to the distance itself (digits lost beyond what the inputs force)',
                      lambda: {**wit(), 'got': float(np.real(got.reshape(()))), 'expected': ref_noI, 'abs_err': err, 'allowed': allowed},
                      point='distance2/relative-to-the-distance')
            if ref_noI > 0:
                wd = ctx.extra['worst_err_over_eps_scale']
                wd['distance2/relative'] = max(wd.get('distance2/relative', 0.0), err / (eps * d * d * ref_noI + ref_I + 1e-300))
        arg_relations(c, 'get_density_matrix_distance2', be, [rho, sigma], G.get_density_matrix_distance2, C_TOL * eps * d * d * sc * sc, wit)

    ctx.attach(G, 'get_density_matrix_distance2', post=post_dist2, pre=pre_snap('rho', 'sigma'), point='numqi.gellmann.get_density_matrix_distance2')
    return M


def cache_integrity(ctx, M, numqi):
    """the lru-cached arrays handed out during the run still are the basis at the end of the run"""
    keys = sorted(M.seen_basis)
    for (d, tensor_n, with_I) in keys:
        with ctx.quiet():
            try:
                got = numqi.gellmann.all_gellmann_matrix(d, tensor_n=tensor_n, with_I=with_I)
            except Exception as e:  # noqa
                ctx.check(False, f'cache/raises/{type(e).__name__}', 'all_gellmann_matrix raised at the end of the run', {'d': d}, point='cache-integrity')
                continue
        ref = rg.basis(d, tensor_n, with_I)
        ok = isinstance(got, np.ndarray) and got.shape == ref.shape and bool(np.abs(got - ref).max() <= 1e-13)
        ctx.check(ok, 'cache/basis-changed-during-run', 'the cached basis returned at the end of the run is no longer the Gell-Mann basis '
                  '(some caller mutated the shared array)', {'d': d, 'tensor_n': tensor_n, 'with_I': with_I}, point='cache-integrity')
    ctx.extra['cache_keys_checked'] = [list(k) for k in keys]


# ----------------------------------------------------------------------------------------------- generators
KINDS = ['complex', 'hermitian', 'real', 'dm', 'pure', 'diagonal', 'antihermitian']


def rand_matrix(rng, kind, d, batch):
    shape = tuple(batch) + (d, d)
    z = rng.normal(size=shape) + 1j * rng.normal(size=shape)
    if kind == 'complex':
        return z
    if kind == 'hermitian':
        return z + np.swapaxes(z, -1, -2).conj()
    if kind == 'antihermitian':
        return z - np.swapaxes(z, -1, -2).conj()
    if kind == 'real':
        return z.real.copy()
    if kind == 'diagonal':
        return z * np.eye(d)
    if kind == 'dm':
        rank = int(rng.integers(1, d + 1))
        w = z[..., :, :rank]
        m = w @ np.swapaxes(w, -1, -2).conj()
        return m / np.trace(m, axis1=-2, axis2=-1)[..., None, None]
    if kind == 'pure':
        w = z[..., :, :1]
        m = w @ np.swapaxes(w, -1, -2).conj()
        return m / np.trace(m, axis1=-2, axis2=-1)[..., None, None]
    raise ValueError(kind)


def unit_traceless_hermitian(rng, d, batch):
    """traceless Hermitian matrices of Frobenius norm 1 (directions of Bloch vectors)"""
    h = rand_matrix(rng, 'hermitian', d, batch)
    h = h - (np.trace(h, axis1=-2, axis2=-1) / d)[..., None, None] * np.eye(d)
    return h / np.sqrt((np.abs(h)**2).sum(axis=(-2, -1)))[..., None, None]


def cast(x, backend, prec, torch):
    """cast to the requested backend / precision (real arrays stay real)"""
    x = np.asarray(x)
    if np.iscomplexobj(x):
        x = x.astype(np.complex64 if prec == 'f32' else np.complex128)
    else:
        x = x.astype(np.float32 if prec == 'f32' else np.float64)
    if backend == 'torch':
        return torch.from_numpy(np.ascontiguousarray(x).copy())
    return x


def rel_close(ctx, a, b, scale, tol, key, what, wit, point):
    a, b = npy(a), npy(b)
    if a.shape != b.shape:
        return ctx.check(False, key + '/shape', f'{what}: shapes {a.shape} vs {b.shape}', wit, point=point)
    with np.errstate(all='ignore'):
        err = float(np.abs(a.astype(np.complex128) - b.astype(np.complex128)).max()) if a.size else 0.0
    return ctx.check(err <= tol * scale, key, what, lambda: {'max_abs_err': err, 'allowed': tol * scale, **(wit or {})}, point=point)


def drive_matrix(ctx, numqi, torch, x, desc, do_relations=True):
    """call every matrix->* function on x (any backend); contracts do the judging"""
    G = numqi.gellmann
    be = backend_of(x)
    ctx.set_case(desc)
    xn = npy(x)
    d = xn.shape[-1]
    eps = in_eps(x)
    sc = max(float(np.abs(xn).max()), 1e-300) if xn.size else 1.0
    with ctx.guard(f'drive/{be}/matrix'):
        v = G.matrix_to_gellmann_basis(x)
        G.gellmann_basis_to_matrix(v)
        b0 = G.dm_to_gellmann_basis(x)
        G.dm_to_gellmann_basis(x, with_rho0=True)
        G.gellmann_basis_to_dm(b0)
        if be == 'numpy':
            G.dm_to_gellmann_norm(x)
        if do_relations and xn.ndim > 2 and xn.size:
            # batched == per item (relational: numqi with itself)
            idx = tuple(int(ctx.rng.integers(0, s)) for s in xn.shape[:-2])
            vi = G.matrix_to_gellmann_basis(x[idx])
            rel_close(ctx, npy(v)[idx], vi, sc, 10 * eps * d, f'relation/batched!=per-item/matrix_to_gellmann_basis/{be}', 'batched analysis differs from the per-item call',
                      {'d': d, 'batch': list(xn.shape[:-2]), 'item': list(idx)}, 'relation/batched==per-item')
            bi = G.dm_to_gellmann_basis(x[idx])
            rel_close(ctx, npy(b0)[idx], bi, sc, 10 * eps * d, f'relation/batched!=per-item/dm_to_gellmann_basis/{be}', 'batched Bloch vector differs from the per-item call',
                      {'d': d, 'batch': list(xn.shape[:-2]), 'item': list(idx)}, 'relation/batched==per-item')
            mi = G.gellmann_basis_to_matrix(v[idx])
            mb = G.gellmann_basis_to_matrix(v)
            rel_close(ctx, npy(mb)[idx], mi, sc, 10 * eps * d, f'relation/batched!=per-item/gellmann_basis_to_matrix/{be}', 'batched synthesis differs from the per-item call',
                      {'d': d, 'batch': list(xn.shape[:-2]), 'item': list(idx)}, 'relation/batched==per-item')
            di = G.gellmann_basis_to_dm(b0[idx])
            db = G.gellmann_basis_to_dm(b0)
            rel_close(ctx, npy(db)[idx], di, max(sc, 1), 10 * eps * d, f'relation/batched!=per-item/gellmann_basis_to_dm/{be}', 'batched Bloch->dm differs from the per-item call',
                      {'d': d, 'batch': list(xn.shape[:-2]), 'item': list(idx)}, 'relation/batched==per-item')
            if be == 'numpy':
                nb = G.dm_to_gellmann_norm(x)
                ni = G.dm_to_gellmann_norm(x[idx])
                rel_close(ctx, np.asarray(nb)[idx], ni, sc, 10 * eps * d, 'relation/batched!=per-item/dm_to_gellmann_norm/numpy', 'batched norm differs from the per-item call',
                          {'d': d, 'batch': list(xn.shape[:-2]), 'item': list(idx)}, 'relation/batched==per-item')
        if do_relations and xn.dtype.kind in 'fc':  # (integer tensors are outside the stated domain: torch promotes int*float to float32)
            # torch == numpy on the same numbers
            other = torch.from_numpy(np.ascontiguousarray(xn).copy()) if be == 'numpy' else xn
            vo = G.matrix_to_gellmann_basis(other)
            rel_close(ctx, v, vo, sc, C_TOL * eps * d, 'relation/torch!=numpy/matrix_to_gellmann_basis', 'torch and numpy analysis differ on the same input',
                      {'d': d, 'dtype': str(xn.dtype), 'batch': list(xn.shape[:-2])}, 'relation/torch==numpy')
            mo = G.gellmann_basis_to_matrix(vo)
            mm = G.gellmann_basis_to_matrix(v)
            rel_close(ctx, mm, mo, sc, C_TOL * eps * d, 'relation/torch!=numpy/gellmann_basis_to_matrix', 'torch and numpy synthesis differ on the same input',
                      {'d': d, 'dtype': str(xn.dtype), 'batch': list(xn.shape[:-2])}, 'relation/torch==numpy')


def drive_vector(ctx, numqi, torch, v, desc):
    G = numqi.gellmann
    be = backend_of(v)
    ctx.set_case(desc)
    with ctx.guard(f'drive/{be}/vector'):
        G.gellmann_basis_to_matrix(v)
        vn = npy(v)
        if not np.iscomplexobj(vn):
            G.gellmann_basis_to_dm(v[..., :-1])


def drive_pair(ctx, numqi, rho, sigma, desc):
    ctx.set_case(desc)
    with ctx.guard(f'drive/{backend_of(rho)}/pair'):
        numqi.gellmann.get_density_matrix_distance2(rho, sigma)


def drive_torch_modes(ctx, numqi, torch, x, desc):
    """torch path, evaluation modes: the VALUE of every function must be the same for an input that does / does not require grad, with
    autograd recording and under torch.no_grad() (relational: numqi with itself; the plain call is judged by the contracts)."""
    G = numqi.gellmann
    ctx.set_case(desc)
    xn = npy(x)
    d = xn.shape[-1]
    eps = in_eps(x)
    sc = max(float(np.abs(xn).max()), 1e-300)
    herm = bool(np.abs(xn - np.swapaxes(xn, -1, -2).conj()).max() <= 10 * eps * sc)
    fns = [('matrix_to_gellmann_basis', G.matrix_to_gellmann_basis, lambda t: t),
           ('gellmann_basis_to_matrix', G.gellmann_basis_to_matrix, lambda t: G.matrix_to_gellmann_basis(t)),
           ('dm_to_gellmann_basis', G.dm_to_gellmann_basis, lambda t: t),
           ('dm_to_gellmann_basis(with_rho0)', lambda t: G.dm_to_gellmann_basis(t, with_rho0=True), lambda t: t),
           ('gellmann_basis_to_dm', G.gellmann_basis_to_dm, lambda t: G.dm_to_gellmann_basis(t))]
    if xn.ndim == 2 and herm:
        other = torch.from_numpy(np.ascontiguousarray(np.eye(d) / d).astype(xn.dtype))
        fns.append(('get_density_matrix_distance2', lambda t: G.get_density_matrix_distance2(t, other), lambda t: t))
        fns.append(('get_density_matrix_distance2(second-argument)', lambda t: G.get_density_matrix_distance2(other, t), lambda t: t))
    with ctx.guard('drive/torch/evaluation-modes'):
        for name, f, prep in fns:
            with torch.no_grad():
                with ctx.quiet():
                    arg = prep(x.detach().clone())
            arg = arg.detach().clone()
            plain = f(arg.clone())
            outs = {}
            g1 = arg.clone().requires_grad_(True)
            r1 = f(g1)
            outs['input-requires-grad'] = r1
            with torch.no_grad():
                outs['no_grad'] = f(arg.clone())
                outs['no_grad+input-requires-grad'] = f(arg.clone().requires_grad_(True))
            with torch.enable_grad():
                outs['non-leaf-input-of-a-graph'] = f(arg.clone().requires_grad_(True) * 1.0)
            tol = 10 * eps * d * (sc * sc if name.startswith('get_density') else max(sc, 1.0 if name == 'gellmann_basis_to_dm' else sc))
            for mode, r in outs.items():
                rel_close(ctx, r, plain, 1.0, tol, f'relation/evaluation-mode-changes-value/{name}/{mode}',
                          f'{name}: the value differs between a plain tensor input and the mode "{mode}"', {'d': d, 'dtype': str(xn.dtype), 'batch': list(xn.shape[:-2])},
                          'relation/evaluation-mode-independent')
            # (the statement does not speak about gradients: only that backward() through the call does not raise inside numqi.gellmann)
            if getattr(r1, 'requires_grad', False):
                try:
                    (r1.real if r1.is_complex() else r1).sum().backward()
                except RuntimeError as e:
                    ctx.check(False, f'relation/evaluation-mode/{name}/backward-raises', f'{name}: backward() through the call raised: {str(e)[:150]}',
                              {'d': d, 'dtype': str(xn.dtype)}, point='relation/evaluation-mode-independent')


BATCHES = [(), (1,), (3,), (2, 3)]


def run_random(ctx, numqi, torch, backend, prec):
    rng = ctx.rng
    ctx.workload('random')
    nrep = 1 if ctx.tier == 'quick' else 2
    for rep in range(nrep):
        for d in range(2, 9):
            for kind in KINDS:
                for batch in BATCHES:
                    if batch and rep:
                        batch = tuple(int(t) for t in rng.integers(1, 5, size=len(batch)))
                    scale = 1.0 if rng.random() < 0.6 else float(10.0**rng.uniform(-4, 4))
                    x = rand_matrix(rng, kind, d, batch)
                    if kind not in ('dm', 'pure'):
                        x = x * scale
                    xx = cast(x, backend, prec, torch)
                    desc = {'d': d, 'kind': kind, 'batch': list(batch), 'backend': backend, 'prec': prec, 'scale': scale}
                    drive_matrix(ctx, numqi, torch, xx, desc)
                    # arbitrary coefficient vectors (complex and real), same batch shape
                    vc = (rng.normal(size=batch + (d * d,)) + 1j * rng.normal(size=batch + (d * d,))) * scale
                    drive_vector(ctx, numqi, torch, cast(vc, backend, prec, torch), {**desc, 'kind': 'complex-vector'})
                    drive_vector(ctx, numqi, torch, cast(vc.real.copy(), backend, prec, torch), {**desc, 'kind': 'real-vector'})
                    if kind in ('dm', 'pure', 'hermitian') and not batch:
                        y = rand_matrix(rng, 'dm', d, ())
                        x0 = x if kind != 'hermitian' else (x - np.eye(d) * (np.trace(x) - 1) / d)
                        drive_pair(ctx, numqi, cast(x0, backend, prec, torch), cast(y, backend, prec, torch), {**desc, 'op': 'distance2'})


def run_basis(ctx, numqi, torch):
    G = numqi.gellmann
    ctx.workload('exhaustive')
    for d in range(2, 9):
        for i in range(d):
            for j in range(d):
                ctx.set_case({'op': 'gellmann_matrix', 'i': i, 'j': j, 'd': d})
                with ctx.guard('gellmann_matrix'):
                    G.gellmann_matrix(i, j, d)
    n2max = 4 if ctx.tier == 'quick' else 6
    combos = [(d, 1) for d in range(2, 9)] + [(d, 2) for d in range(2, n2max + 1)]
    if ctx.tier == 'thorough':
        combos += [(2, 3), (3, 3)]
    for d, tn in combos:
        for with_I in (True, False):
            ctx.set_case({'op': 'all_gellmann_matrix', 'd': d, 'tensor_n': tn, 'with_I': with_I})
            with ctx.guard('all_gellmann_matrix'):
                G.all_gellmann_matrix(d, tensor_n=tn, with_I=with_I)
                if tn == 1:
                    G.all_gellmann_matrix(d, with_I=with_I) if with_I else G.all_gellmann_matrix(d, 1, with_I)
    # with_I=False is the with_I=True basis without its last element, tensor_n=2 elements expand coefficient-wise
    ctx.sample({'op': 'all_gellmann_matrix', 'note': 'every (d, tensor_n, with_I) above compared element-wise with the reference basis and its Gram matrix'})


def run_corner(ctx, numqi, torch):
    G = numqi.gellmann
    rng = ctx.rng
    ctx.workload('exhaustive')
    for d in range(2, 9):
        ref = rg.basis(d)
        # every basis element analysed (coefficient vector must be the unit vector e_i) and every unit matrix |a><b|
        units = np.zeros((d, d, d, d))
        for a in range(d):
            for b in range(d):
                units[a, b, a, b] = 1
        for backend in ('numpy', 'torch'):
            for prec in ('f64', 'f32'):
                x = cast(np.array(ref), backend, prec, torch)
                ctx.set_case({'op': 'analyse-basis-elements', 'd': d, 'backend': backend, 'prec': prec})
                with ctx.guard(f'corner/{backend}/basis-elements'):
                    v = G.matrix_to_gellmann_basis(x)
                    rel_close(ctx, v, np.eye(d * d), 1.0, C_TOL * in_eps(x) * d, f'analysis-of-basis-element!=unit-vector/{backend}',
                              'matrix_to_gellmann_basis(G_i) is not the i-th unit vector', {'d': d, 'prec': prec}, None)
                    e = cast(np.eye(d * d), backend, prec, torch)
                    m = G.gellmann_basis_to_matrix(e)
                    rel_close(ctx, m, ref, 1.0, C_TOL * in_eps(e) * d, f'synthesis-of-unit-vector!=basis-element/{backend}',
                              'gellmann_basis_to_matrix(e_i) is not G_i', {'d': d, 'prec': prec}, None)
                drive_matrix(ctx, numqi, torch, cast(units, backend, prec, torch), {'op': 'unit-matrices', 'd': d, 'backend': backend, 'prec': prec}, do_relations=False)
    ctx.workload('corner')
    for d in range(2, 9):
        for backend in ('numpy', 'torch'):
            for prec in ('f64', 'f32'):
                specials = {
                    'zero': np.zeros((d, d)), 'identity': np.eye(d), 'maximally-mixed': np.eye(d) / d, 'ones': np.ones((d, d)),
                    'basis-state-0': np.diag([1.0] + [0.0] * (d - 1)), 'basis-state-last': np.diag([0.0] * (d - 1) + [1.0]),
                    'imag-unit': 1j * np.eye(d), 'tiny': rand_matrix(rng, 'complex', d, ()) * 1e-12, 'huge': rand_matrix(rng, 'hermitian', d, ()) * 1e9,
                    'mixed-magnitudes-batch': rand_matrix(rng, 'complex', d, (3,)) * np.array([1e-6, 1.0, 1e6]).reshape(3, 1, 1),
                    'upper-triangular': np.triu(rand_matrix(rng, 'complex', d, ())), 'lower-triangular': np.tril(rand_matrix(rng, 'complex', d, ()), -1),
                }
                for name, x in specials.items():
                    drive_matrix(ctx, numqi, torch, cast(x, backend, prec, torch), {'op': 'special', 'name': name, 'd': d, 'backend': backend, 'prec': prec})
                # non-contiguous / strided inputs and tensors that require grad
                big = rand_matrix(rng, 'complex', d, (2, 2))
                xb = cast(big, backend, prec, torch)
                views = {'transposed-view': xb.swapaxes(-1, -2) if backend == 'numpy' else xb.transpose(-1, -2),
                         'batch-transposed-view': xb.swapaxes(0, 1) if backend == 'numpy' else xb.transpose(0, 1),
                         'strided-slice': xb[:, ::2], 'conj-view': xb.conj()}
                if backend == 'numpy':
                    views['fortran-order'] = np.asfortranarray(xb[0, 0])
                    views['readonly'] = xb[0, 1].copy()
                    views['readonly'].setflags(write=False)
                else:
                    g = xb[0, 0].clone().requires_grad_(True)
                    views['requires-grad'] = g
                for name, x in views.items():
                    drive_matrix(ctx, numqi, torch, x, {'op': 'view', 'name': name, 'd': d, 'backend': backend, 'prec': prec}, do_relations=(name != 'requires-grad'))
                if backend == 'numpy' and prec == 'f64':
                    # integer-dtype matrices and coefficient vectors (accepted by the numpy path), sliced views
                    drive_matrix(ctx, numqi, torch, rng.integers(-5, 6, size=(d, d)), {'op': 'int64-matrix', 'd': d})
                    drive_matrix(ctx, numqi, torch, rng.integers(-5, 6, size=(2, d, d)).astype(np.int32), {'op': 'int32-matrix-batch', 'd': d})
                    # integer entries around 2^53 (the sums the closed forms take stay inside int64; the float64 conversion is the only rounding)
                    drive_matrix(ctx, numqi, torch, rng.integers(2**53 - 5, 2**53 + 6, size=(d, d)), {'op': 'int64-matrix-near-2^53', 'd': d})
                    drive_vector(ctx, numqi, torch, rng.integers(2**53 - 5, 2**53 + 6, size=(d * d,)), {'op': 'int64-vector-near-2^53', 'd': d})
                    drive_vector(ctx, numqi, torch, rng.integers(-5, 6, size=(d * d,)), {'op': 'int64-vector', 'd': d})
                    wide = np.zeros((d + 2, d + 3), dtype=np.complex128)
                    wide[1:-1, 2:-1] = rand_matrix(rng, 'complex', d, ())
                    drive_matrix(ctx, numqi, torch, wide[1:-1, 2:-1], {'op': 'view', 'name': 'sliced-out-of-a-larger-array', 'd': d})
                    drive_matrix(ctx, numqi, torch, np.asfortranarray(rand_matrix(rng, 'complex', d, (3,))), {'op': 'view', 'name': 'fortran-order-batch', 'd': d})
                    drive_matrix(ctx, numqi, torch, np.ascontiguousarray(rand_matrix(rng, 'real', d, ()).T).T, {'op': 'view', 'name': 'real-transposed-view', 'd': d})
                vv = cast(rng.normal(size=(3, 2, d * d)), backend, prec, torch)
                vt = vv.swapaxes(0, 1) if backend == 'numpy' else vv.transpose(0, 1)
                drive_vector(ctx, numqi, torch, vt, {'op': 'vector-view', 'd': d, 'backend': backend, 'prec': prec})
                # distances: identical states, orthogonal pure states (|v-w|^2 = 1), state vs maximally mixed
                p0, p1, mm = np.diag([1.0] + [0.0] * (d - 1)), np.diag([0.0] * (d - 1) + [1.0]), np.eye(d) / d
                for name, (r, s, expect) in {'same': (p0, p0, 0.0), 'orthogonal-pure': (p0, p1, 1.0), 'pure-vs-mixed': (p0, mm, (1 - 1 / d) / 2)}.items():
                    rr, ss = cast(r.astype(np.complex128), backend, prec, torch), cast(s.astype(np.complex128), backend, prec, torch)
                    ctx.set_case({'op': 'distance-corner', 'name': name, 'd': d, 'backend': backend, 'prec': prec})
                    with ctx.guard(f'corner/{backend}/distance'):
                        got = G.get_density_matrix_distance2(rr, ss)
                        ctx.check(abs(float(npy(got)) - expect) <= C_TOL * in_eps(rr) * d, f'get_density_matrix_distance2/{backend}/closed-form',
                                  'squared distance of two hand-picked states differs from its closed form', {'name': name, 'd': d, 'got': float(npy(got)), 'expected': expect})
    # mixed precision: float64 Bloch vector of a float32 state etc. and python-float scalars
    ctx.workload('corner')
    for d in (2, 3, 5):
        dm = rand_matrix(rng, 'dm', d, ())
        drive_pair(ctx, numqi, torch.from_numpy(dm.astype(np.complex64)), torch.from_numpy(rand_matrix(rng, 'dm', d, ())), {'op': 'mixed-precision-distance', 'd': d})
        drive_pair(ctx, numqi, dm.astype(np.complex64), rand_matrix(rng, 'dm', d, ()), {'op': 'mixed-precision-distance-numpy', 'd': d})


def run_regimes(ctx, numqi, torch):
    """numerical regimes the ordinary magnitudes do not reach, and the evaluation modes of the torch path"""
    rng = ctx.rng
    ctx.workload('corner')
    for d in range(2, 9):
        for backend in ('numpy', 'torch'):
            for prec in ('f64', 'f32'):
                # numerical regimes: weakly polarised states (distance 1e-6..1e-10 from the maximally mixed state, ONE exactly mixed item in the
                # batch), exact objects up to rounding noise that does not respect their symmetry (1e-9..1e-15), a batch with one zero item,
                # magnitudes 1e-9 / 1e-15
                mmx = np.eye(d) / d
                h3 = unit_traceless_hermitian(rng, d, (3,))
                herm = rand_matrix(rng, 'hermitian', d, ())
                dm0 = rand_matrix(rng, 'dm', d, ())
                noise = lambda lvl: lvl * rand_matrix(rng, 'complex', d, ())
                one_zero = rand_matrix(rng, 'complex', d, (3,))
                one_zero[1] = 0
                specials = {
                    'near-maximally-mixed-batch(1e-6,exact,1e-10)': mmx + np.array([1e-6, 0.0, 1e-10]).reshape(3, 1, 1) * h3,
                    'near-maximally-mixed-1e-8': mmx + 1e-8 * h3[0],
                    'hermitian+noise-1e-9': herm + noise(1e-9), 'hermitian+noise-1e-12': herm + noise(1e-12), 'hermitian+noise-1e-15': herm + noise(1e-15),
                    'dm+noise-1e-12': dm0 + noise(1e-12), 'identity+noise-1e-12': np.eye(d) + noise(1e-12),
                    'basis-element+noise-1e-12': np.array(rg.basis(d)[int(rng.integers(d * d))]) + noise(1e-12),
                    'diagonal+noise-1e-12': rand_matrix(rng, 'diagonal', d, ()) + noise(1e-12),
                    'batch-with-one-zero-item': one_zero,
                    'tiny-1e-9': rand_matrix(rng, 'complex', d, ()) * 1e-9, 'tiny-1e-15-hermitian': rand_matrix(rng, 'hermitian', d, ()) * 1e-15,
                }
                for name, x in specials.items():
                    drive_matrix(ctx, numqi, torch, cast(x, backend, prec, torch), {'op': 'regime', 'name': name, 'd': d, 'backend': backend, 'prec': prec})
                # Bloch / coefficient vectors of tiny length (1e-6..1e-12) with ONE zero item in the batch, and a batch of mixed magnitudes
                tv = rng.normal(size=(4, d * d)) * np.array([1e-6, 0.0, 1e-9, 1e-12]).reshape(4, 1)
                drive_vector(ctx, numqi, torch, cast(tv, backend, prec, torch), {'op': 'tiny-vector-batch-with-one-zero-item', 'd': d, 'backend': backend, 'prec': prec})
                tvc = (rng.normal(size=(3, d * d)) + 1j * rng.normal(size=(3, d * d))) * np.array([1e-9, 1.0, 1e6]).reshape(3, 1)
                drive_vector(ctx, numqi, torch, cast(tvc, backend, prec, torch), {'op': 'mixed-magnitude-complex-vector-batch', 'd': d, 'backend': backend, 'prec': prec})
                # nearby states: both at distance e from the maximally mixed state (|v-w|^2 ~ e^2), and such a state against the mixed state itself
                for e in (1e-6, 1e-8, 1e-10):
                    hh = unit_traceless_hermitian(rng, d, (2,))
                    r1, r2 = cast(mmx + e * hh[0], backend, prec, torch), cast(mmx + e * hh[1], backend, prec, torch)
                    drive_pair(ctx, numqi, r1, r2, {'op': 'distance-nearby-states', 'd': d, 'backend': backend, 'prec': prec, 'distance_from_mixed': e})
                    drive_pair(ctx, numqi, r1, cast(mmx.astype(np.complex128), backend, prec, torch),
                               {'op': 'distance-to-the-mixed-state', 'd': d, 'backend': backend, 'prec': prec, 'distance_from_mixed': e})
                    dmr = rand_matrix(rng, 'dm', d, ())
                    hp = dmr + e * hh[0]
                    drive_pair(ctx, numqi, cast(dmr, backend, prec, torch), cast(hp, backend, prec, torch),
                               {'op': 'distance-state-vs-perturbed-state', 'd': d, 'backend': backend, 'prec': prec, 'perturbation': e})
                if backend == 'torch':
                    drive_torch_modes(ctx, numqi, torch, cast(rand_matrix(rng, 'complex', d, (2,)), backend, prec, torch),
                                      {'op': 'evaluation-modes', 'kind': 'complex-batch', 'd': d, 'prec': prec})
                    drive_torch_modes(ctx, numqi, torch, cast(rand_matrix(rng, 'dm', d, ()), backend, prec, torch),
                                      {'op': 'evaluation-modes', 'kind': 'dm', 'd': d, 'prec': prec})


@contextlib.contextmanager
def seeded_default_rng(ctx):
    """library code that asks for an unseeded np.random.default_rng() gets one derived from the shard's generator"""
    orig = np.random.default_rng

    def patched(seed=None):
        if seed is None:
            seed = int(ctx.rng.integers(0, 2**63 - 1))
        return orig(seed)

    np.random.default_rng = patched
    try:
        yield
    finally:
        np.random.default_rng = orig


ANCHOR_FILES = ('numqi/gellmann.py',)


@contextlib.contextmanager
def driver(ctx, name):
    """run one of numqi's own higher-level callers: an exception born inside numqi/gellmann.py is a violation, an
    exception elsewhere in the caller (optimizer, linear algebra not converging, ...) is not about this property: inconclusive."""
    import traceback
    try:
        yield
    except Exception as e:  # noqa
        frames = [fs.f_code.co_filename.replace(os.sep, '/') for fs, _ in traceback.walk_tb(e.__traceback__)]
        last_numqi = [f for f in frames if '/numqi/' in f]
        if last_numqi and last_numqi[-1].endswith(ANCHOR_FILES):
            ctx.check(False, f'{name}/raises/{type(e).__name__}', f'{name}: {type(e).__name__} raised inside numqi/gellmann.py: {str(e)[:150]}',
                      {'exception': repr(e)[:300], 'frame': last_numqi[-1]})
        elif last_numqi:
            ctx.inconclusive(f'driver-failed-outside-the-monitored-code:{name}:{type(e).__name__}')
        else:
            ctx.harness_error('driver:' + name)


def run_realistic(ctx, numqi, torch):
    rng = ctx.rng
    ctx.workload('realistic')
    big = ctx.tier == 'thorough'
    with seeded_default_rng(ctx):
        # manifold charts: special unitary / orthogonal via exp and Cayley, Hermitian / symmetric traceless matrices
        for d in range(2, 7 if not big else 9):
            for backend in ('numpy', 'torch'):
                for prec in ('f64', 'f32'):
                    for batch in [(), (3,)] + ([(2, 2)] if big else []):
                        for nparam, fn, kw in [(d * d - 1, 'to_special_orthogonal_exp', {}), (d * (d - 1) // 2, 'to_special_orthogonal_exp', {}),
                                               (d * d - 1, 'to_special_orthogonal_cayley', {}), (d * (d - 1) // 2, 'to_special_orthogonal_cayley', {}),
                                               (d * d - 1, 'to_symmetric_matrix', {'is_trace0': True}),
                                               (d * (d + 1) // 2 - 1, 'to_symmetric_matrix', {'is_trace0': True, 'is_norm1': True})]:
                            if nparam == 0:
                                continue
                            theta = cast(rng.normal(size=batch + (nparam,)), backend, prec, torch)
                            ctx.set_case({'op': fn, 'd': d, 'backend': backend, 'prec': prec, 'batch': list(batch), 'nparam': nparam, **kw})
                            with driver(ctx, f'realistic/manifold/{fn}'):
                                getattr(numqi.manifold, fn)(theta, d, **kw)
        # torch modules with parameters that require grad (as the optimizers use them)
        for d in (2, 3, 4):
            for cls, kw in [('SpecialOrthogonal', {'method': 'exp'}), ('SpecialOrthogonal', {'method': 'cayley'}), ('SymmetricMatrix', {'is_trace0': True})]:
                ctx.set_case({'op': 'manifold-module', 'cls': cls, 'd': d, **kw})
                with driver(ctx, f'realistic/manifold/{cls}'):
                    mod = getattr(numqi.manifold, cls)(d, **kw)
                    out = mod()
                    (out.real.sum() if out.is_complex() else out.sum()).backward()
        # Choi operator -> Bloch map (batched analysis of d*d slices, transposed views)
        for din, dout in [(2, 2), (2, 3), (3, 2), (3, 3)] + ([(4, 2), (2, 5), (4, 4)] if big else []):
            ctx.set_case({'op': 'choi_op_to_bloch_map', 'din': din, 'dout': dout})
            with driver(ctx, 'realistic/choi_op_to_bloch_map'):
                kop = numqi.random.rand_kraus_op(3, din, dout, seed=int(rng.integers(2**31)))
                choi = numqi.channel.kraus_op_to_choi_op(kop)
                numqi.channel.choi_op_to_bloch_map(choi.reshape(din, dout, din, dout))
        # consumers of the coordinates in other modules, judged by VALUE against the reference Bloch vectors (relational: what the consumer
        # documents about Bloch vectors must hold with the reference analysis / synthesis)
        for din, dout in [(2, 2), (2, 3), (3, 2), (3, 3), (4, 2)] + ([(2, 5), (4, 4), (5, 3)] if big else []):
            ctx.set_case({'op': 'choi_op_to_bloch_map/value', 'din': din, 'dout': dout})
            with driver(ctx, 'consumer/choi_op_to_bloch_map'):
                nk = int(rng.integers(2, 4))  # (nk*dout >= din: a trace-preserving map exists)
                K = rng.normal(size=(nk, dout, din)) + 1j * rng.normal(size=(nk, dout, din))
                gram = np.einsum('kai,kaj->ij', K.conj(), K)  # sum_k K^dagger K: made the identity below (trace preserving)
                w, V = np.linalg.eigh(gram)
                K = K @ (V / np.sqrt(w)) @ V.conj().T
                choi = np.einsum('kai,kbj->iajb', K, K.conj())  # op[i,a,j,b] = channel(|i><j|)[a,b]
                matA, vecb = numqi.channel.choi_op_to_bloch_map(choi)
                ok = np.shape(matA) == (dout * dout - 1, din * din - 1) and np.shape(vecb) == (dout * dout - 1,)
                ctx.check(ok, 'consumer/choi_op_to_bloch_map/shape', 'Bloch map (A,b) of a channel has the wrong shapes', {'A': np.shape(matA), 'b': np.shape(vecb)},
                          point='consumer/value-against-reference')
                if ok:
                    worst = 0.0
                    for _ in range(3):
                        rho = rand_matrix(rng, 'dm', din, ())
                        out = np.einsum('kai,ij,kbj->ab', K, rho, K.conj())
                        worst = max(worst, float(np.abs(matA @ rg.bloch(rho) + vecb - rg.bloch(out)).max()))
                    ctx.check(worst <= 1e-12, 'consumer/choi_op_to_bloch_map/bloch-vector-of-the-output-state',
                              'A v + b (Bloch map from the Choi operator) is not the reference Bloch vector of the channel output for the state with reference Bloch vector v',
                              {'din': din, 'dout': dout, 'max_abs_err': worst}, point='consumer/value-against-reference')
        for d in (2, 3, 4, 5) + ((6, 8) if big else ()):
            ctx.set_case({'op': 'dm-plane-and-interpolation/value', 'd': d})
            with driver(ctx, 'consumer/dm-helpers'):
                rho, sig = rand_matrix(rng, 'dm', d, ()), rand_matrix(rng, 'dm', d, ())
                v0, v1 = rg.bloch(rho), rg.bloch(sig)
                e0 = v0 / np.linalg.norm(v0)
                e1 = v1 - (e0 @ v1) * e0
                e1 = e1 / np.linalg.norm(e1)
                for beta in (0.05, 1e-7, float(np.linalg.norm(v0))):
                    got = np.asarray(numqi.entangle.hf_interpolate_dm(rho, beta=beta))
                    ctx.check(got.shape == (d, d) and float(np.abs(got - rg.bloch_to_dm(beta * e0)).max()) <= 1e-13 * max(1.0, beta / np.linalg.norm(v0)),
                              'consumer/hf_interpolate_dm/bloch-vector-length', 'hf_interpolate_dm(rho, beta) is not the state whose reference Bloch vector is beta*unit(v(rho))',
                              {'d': d, 'beta': beta}, point='consumer/value-against-reference')
                theta1, hf0 = numqi.entangle.get_density_matrix_plane(rho, sig)
                ctx.check(abs(float(theta1) - float(np.arccos(np.clip(v0 @ v1 / (np.linalg.norm(v0) * np.linalg.norm(v1)), -1, 1)))) <= 1e-7,
                          'consumer/get_density_matrix_plane/angle', 'theta1 is not the angle between the reference Bloch vectors', {'d': d}, point='consumer/value-against-reference')
                worst = 0.0
                for t in (0.0, 0.3, float(theta1), 2.5, -1.0, 7.0):
                    for nrm in (0.05, 1e-8):
                        got = np.asarray(hf0(float(t), nrm))
                        if got.shape != (d, d):
                            worst = np.inf
                            continue
                        # (entries of size 1/d carry an absolute rounding error: allowance 1e-14 absolute + 1e-12 relative to the length)
                        worst = max(worst, float(np.abs(got - rg.bloch_to_dm(nrm * (np.cos(t) * e0 + np.sin(t) * e1))).max()) / (1e-14 + 1e-12 * nrm))
                ctx.check(worst <= 1.0, 'consumer/get_density_matrix_plane/state-on-the-plane', 'hf0(theta, norm) is not I/d + norm*(cos(theta) e0 + sin(theta) e1) . G with e0, e1 the '
                          'orthonormalised reference Bloch vectors of the two operators', {'d': d, 'max_err_over_allowance': worst}, point='consumer/value-against-reference')
        for dimA, dimB, k in [(2, 2, 2), (2, 3, 2)]:
            ctx.set_case({'op': 'PureBosonicExt/gellmann-loss-value', 'dimA': dimA, 'dimB': dimB, 'kext': k})
            with driver(ctx, 'consumer/PureBosonicExt'):
                model = numqi.entangle.PureBosonicExt(dimA, dimB, kext=k, distance_kind='gellmann')
                rho = rand_matrix(rng, 'dm', dimA * dimB, ())
                model.set_dm_target(rho)
                for mode in ('grad', 'no_grad'):
                    with (torch.no_grad() if mode == 'no_grad' else contextlib.nullcontext()):
                        loss = float(model())
                    want = float(((rg.bloch(rho) - rg.bloch(npy(model.dm_torch)))**2).sum())
                    ctx.check(abs(loss - want) <= 1e-12, f'consumer/PureBosonicExt/gellmann-loss!=bloch-distance/{mode}',
                              'the loss of PureBosonicExt(distance_kind=gellmann) is not |v(target)-v(rho_AB)|^2 of the reference Bloch vectors',
                              {'dimA': dimA, 'dimB': dimB, 'kext': k, 'loss': loss, 'expected': want}, point='consumer/value-against-reference')
        # density matrix helpers
        for d in (2, 3, 4, 6) + ((5, 8) if big else ()):
            ctx.set_case({'op': 'dm-helpers', 'd': d})
            with driver(ctx, 'realistic/dm-helpers'):
                rho = numqi.random.rand_density_matrix(d, seed=int(rng.integers(2**31)))
                sig = numqi.random.rand_density_matrix(d, seed=int(rng.integers(2**31)))
                numqi.entangle.get_density_matrix_boundary(rho)
                numqi.entangle.get_density_matrix_boundary(np.stack([rho, sig, (rho + sig) / 2]))
                numqi.entangle.hf_interpolate_dm(rho, beta=0.1)
                theta1, hf0 = numqi.entangle.get_density_matrix_plane(rho, sig)
                for t in np.linspace(0, 2 * np.pi, 5):
                    hf0(float(t), 0.05)
                numqi.gellmann.get_density_matrix_distance2(rho, sig)
                numqi.gellmann.dm_to_gellmann_norm(rho)
        # PureBosonicExt with the Gell-Mann distance: forward/backward as the optimizer drives it
        for dimA, dimB, k in [(2, 2, 2), (2, 3, 2)] + ([(3, 3, 3), (2, 2, 5)] if big else []):
            ctx.set_case({'op': 'PureBosonicExt', 'dimA': dimA, 'dimB': dimB, 'kext': k})
            with driver(ctx, 'realistic/PureBosonicExt'):
                model = numqi.entangle.PureBosonicExt(dimA, dimB, kext=k, distance_kind='gellmann')
                rho = numqi.random.rand_density_matrix(dimA * dimB, seed=int(rng.integers(2**31)))
                model.set_dm_target(rho)
                numqi.optimize.minimize(model, theta0='uniform', num_repeat=1, tol=1e-6, print_every_round=0, seed=int(rng.integers(2**31)),
                                        maxiter=20 if not big else 60)
        # ABk pre-image operators use the cached basis (reshape + einsum): cache integrity afterwards
        for dimA, dimB, k in [(2, 2, 2), (2, 3, 2)] + ([(3, 2, 3)] if big else []):
            for kind in ('boson', 'symmetric'):
                ctx.set_case({'op': 'get_ABk_gellmann_preimage_op', 'dimA': dimA, 'dimB': dimB, 'kext': k, 'kind': kind})
                with driver(ctx, 'realistic/get_ABk_gellmann_preimage_op'):
                    numqi.maximum_entropy.get_ABk_gellmann_preimage_op(dimA, dimB, k, kind=kind)


# ----------------------------------------------------------------------------------------------- histories
def result_arrays(obj):
    """numpy views sharing memory with every array inside a (nested) result"""
    out = []

    def walk(o):
        if isinstance(o, np.ndarray):
            out.append(o)
        elif is_torch(o):
            try:
                out.append(o.detach().numpy())
            except Exception:
                pass
        elif isinstance(o, (list, tuple)):
            for x in o:
                walk(x)
    walk(obj)
    return out


def freeze(obj):
    """deep value snapshot of a (nested) result"""
    if isinstance(obj, np.ndarray) or is_torch(obj):
        return ('arr', np.array(npy(obj), copy=True))
    if isinstance(obj, (list, tuple)):
        return (type(obj).__name__, [freeze(x) for x in obj])
    return ('val', obj)


def frozen_close(a, b, path='result'):
    """(ok, where) : same structure and values (1e-12 relative)"""
    if a[0] != b[0]:
        return False, f'{path}: {a[0]} vs {b[0]}'
    if a[0] == 'arr':
        x, y = a[1], b[1]
        if x.shape != y.shape:
            return False, f'{path}: shape {x.shape} vs {y.shape}'
        if x.size == 0:
            return True, ''
        with np.errstate(all='ignore'):
            err = float(np.abs(x.astype(np.complex128) - y.astype(np.complex128)).max())
        sc = float(np.abs(y.astype(np.complex128)).max())
        return (bool(err <= 1e-12 * (1 + sc)), f'{path}: max abs difference {err:.3e}')
    if a[0] == 'val':
        return (a[1] == b[1], f'{path}: {a[1]!r} vs {b[1]!r}')
    if len(a[1]) != len(b[1]):
        return False, f'{path}: length {len(a[1])} vs {len(b[1])}'
    for i, (x, y) in enumerate(zip(a[1], b[1])):
        ok, where = frozen_close(x, y, f'{path}[{i}]')
        if not ok:
            return False, where
    return True, ''


def edit_in_place(arrs):
    n = 0
    for a in arrs:
        if a.flags.writeable and a.size:
            if a.dtype.kind in 'fc':
                np.multiply(a, 3, out=a)
                a += 1
            elif a.dtype.kind in 'iu':
                a += 1
            elif a.dtype.kind == 'b':
                np.logical_not(a, out=a)
            else:
                continue
            n += 1
    return n


def edit_result_then_call_again(ctx, name, call, between=None):
    """history: r1 = f(x); the caller edits r1 in place (its own result); f(equal x) must still be right.
    `call` builds fresh, equal arguments every time. The first and the last call are monitored by the contracts."""
    ctx.set_case({'op': 'history/edit-result-then-call-again', 'fn': name})
    with ctx.guard(f'history/{name}'):
        r1 = call()
        before = freeze(r1)
        arrs = result_arrays(r1)
        backups = [a.copy() for a in arrs]
        n = edit_in_place(arrs)
        rev = isinstance(r1, list) and len(r1) > 1
        if rev:
            r1.reverse()
        st = ctx.extra.setdefault('edit_result_histories', {})
        st[name] = st.get(name, 0) + 1
        if n == 0 and not rev:
            ro = ctx.extra.setdefault('results_not_editable (read-only or scalar)', {})
            ro[name] = ro.get(name, 0) + 1
        try:
            with ctx.quiet():
                r2 = call()
            ok, where = frozen_close(freeze(r2), before)
            aliased = any(np.shares_memory(x, y) for x in result_arrays(r2) for y in arrs)
            ctx.check(ok, f'{name}/stale-after-inplace-update',
                      f'{name}: after the caller edited, in place, the arrays an earlier call returned, a new call with equal arguments no longer returns the same (correct) values: results are shared mutable state',
                      {'where': where, 'result_aliases_earlier_call': aliased}, point='history/edit-result-then-call-again')
            if ok and between is not None:
                between()  # numqi's own callers of f, monitored, while the earlier result is still edited
        finally:
            if rev:
                r1.reverse()
            for a, b in zip(arrs, backups):
                if a.flags.writeable:
                    a[...] = b
        call()


def work_buffer(ctx, name, call, buf, fills, clone):
    """history: one argument object reused as a work buffer: fill, call, refill in place, call again ... every call must be
    right for the CURRENT contents (contracts judge it; the relational check names the mechanism)."""
    ctx.set_case({'op': 'history/work-buffer', 'fn': name})
    with ctx.guard(f'history/{name}'):
        for fill in fills:
            fill(buf)
            r = call(buf)
            with ctx.quiet():
                rf = call(clone(buf))
            ok, where = frozen_close(freeze(r), freeze(rf))
            ctx.check(ok, f'{name}/stale-after-argument-update', f'{name}: called again with the same argument object after its contents were updated in place, '
                      'the result differs from the result for a fresh copy of the current contents', {'where': where}, point='history/work-buffer')
        st = ctx.extra.setdefault('work_buffer_histories', {})
        st[name] = st.get(name, 0) + len(fills)



def run_history(ctx, numqi, torch):
    G = numqi.gellmann
    rng = ctx.rng
    ctx.workload('history')
    big = ctx.tier == 'thorough'
    randc = lambda *sh: rng.normal(size=sh) + 1j * rng.normal(size=sh)

    def users_of_the_basis():
        # numqi's own users of all_gellmann_matrix, monitored
        with driver(ctx, 'history/get_ABk_gellmann_preimage_op'):
            numqi.maximum_entropy.get_ABk_gellmann_preimage_op(2, 2, 2, kind='boson')
            numqi.maximum_entropy.get_ABk_gellmann_preimage_op(2, 2, 2, kind='symmetric')

    # ---------------- (1a) edit the result in place, call again with equal arguments
    for d in range(2, 6 if not big else 9):
        for with_I in (True, False):
            edit_result_then_call_again(ctx, 'all_gellmann_matrix', lambda: G.all_gellmann_matrix(d, with_I=with_I), between=users_of_the_basis if d == 4 else None)
        if d <= 3:
            edit_result_then_call_again(ctx, 'all_gellmann_matrix', lambda: G.all_gellmann_matrix(d, tensor_n=2))
        i, j = int(rng.integers(d)), int(rng.integers(d))
        edit_result_then_call_again(ctx, 'gellmann_matrix', lambda: G.gellmann_matrix(i, j, d))
        A, Ab, v, vb = randc(d, d), randc(3, d, d), randc(d * d), rng.normal(size=(2, d * d - 1))
        dm = rand_matrix(rng, 'dm', d, ())
        dmb = rand_matrix(rng, 'dm', d, (3,))
        for be in ('numpy', 'torch'):
            cv = (lambda x: torch.from_numpy(np.array(x))) if be == 'torch' else (lambda x: np.array(x))
            edit_result_then_call_again(ctx, 'matrix_to_gellmann_basis', lambda: G.matrix_to_gellmann_basis(cv(A)))
            edit_result_then_call_again(ctx, 'matrix_to_gellmann_basis', lambda: G.matrix_to_gellmann_basis(cv(Ab)))
            edit_result_then_call_again(ctx, 'gellmann_basis_to_matrix', lambda: G.gellmann_basis_to_matrix(cv(v)))
            edit_result_then_call_again(ctx, 'dm_to_gellmann_basis', lambda: G.dm_to_gellmann_basis(cv(dm)))
            edit_result_then_call_again(ctx, 'dm_to_gellmann_basis', lambda: G.dm_to_gellmann_basis(cv(dmb), with_rho0=True))
            edit_result_then_call_again(ctx, 'gellmann_basis_to_dm', lambda: G.gellmann_basis_to_dm(cv(vb)))
            edit_result_then_call_again(ctx, 'get_density_matrix_distance2', lambda: G.get_density_matrix_distance2(cv(dm), cv(dmb[0])))
        edit_result_then_call_again(ctx, 'dm_to_gellmann_norm', lambda: G.dm_to_gellmann_norm(np.array(dmb)))

    # ---------------- (1a') object lifecycle of the cached basis: a copy.copy / copy.deepcopy / pickle round trip of the returned array belongs to the
    # caller (editable, no memory shared with the cache); the original is still the basis after the copy was edited (contract on the next call)
    import copy
    import pickle
    for d in (2, 3, 5):
        for how, mk in [('copy.deepcopy', copy.deepcopy), ('copy.copy', copy.copy), ('pickle', lambda x: pickle.loads(pickle.dumps(x)))]:
            ctx.set_case({'op': 'history/copy-of-the-cached-basis', 'd': d, 'how': how})
            with ctx.guard('history/all_gellmann_matrix/copy'):
                b0 = G.all_gellmann_matrix(d)
                cp = mk(b0)
                shares = bool(np.shares_memory(cp, b0))
                if cp.flags.writeable and not shares:
                    cp *= 3
                    cp += 1
                b1 = G.all_gellmann_matrix(d)  # judged by the contract
                ctx.check(isinstance(b1, np.ndarray) and b1.shape == rg.basis(d).shape and float(np.abs(b1 - rg.basis(d)).max()) <= 1e-13 and not (shares and cp.flags.writeable),
                          f'all_gellmann_matrix/stale-after-editing-a-{how}', f'after a {how} of the returned basis was edited in place, the next call no longer returns the basis '
                          '(or the copy is a writable alias of the cache)', {'d': d, 'shares_memory': shares}, point='history/edit-result-then-call-again')

    # ---------------- (1b) work buffers: one argument object refilled in place between calls
    for d in (2, 3, 5):
        mfill = [lambda b: b.__setitem__(Ellipsis, randc(*b.shape)) for _ in range(3)] + [lambda b: b.__imul__(2)]
        tfill = [lambda b: b.copy_(torch.from_numpy(randc(*b.shape))) for _ in range(3)] + [lambda b: b.mul_(2)]
        rfill = [lambda b: b.__setitem__(Ellipsis, rng.normal(size=b.shape)) for _ in range(3)] + [lambda b: b.__imul__(0.5)]
        for order in ('C', 'F'):
            work_buffer(ctx, 'matrix_to_gellmann_basis', G.matrix_to_gellmann_basis, np.zeros((d, d), dtype=np.complex128, order=order), mfill, lambda b: np.array(b, order='K'))
            work_buffer(ctx, 'dm_to_gellmann_basis', G.dm_to_gellmann_basis, np.zeros((2, d, d), dtype=np.complex128, order=order), mfill, lambda b: np.array(b, order='K'))
            work_buffer(ctx, 'dm_to_gellmann_norm', G.dm_to_gellmann_norm, np.zeros((2, d, d), dtype=np.complex128, order=order), mfill, lambda b: np.array(b, order='K'))
        work_buffer(ctx, 'matrix_to_gellmann_basis', G.matrix_to_gellmann_basis, torch.zeros(2, d, d, dtype=torch.complex128), tfill, lambda b: b.clone())
        work_buffer(ctx, 'gellmann_basis_to_matrix', G.gellmann_basis_to_matrix, np.zeros((2, d * d), dtype=np.complex128), mfill, lambda b: b.copy())
        work_buffer(ctx, 'gellmann_basis_to_matrix', G.gellmann_basis_to_matrix, torch.zeros(d * d, dtype=torch.complex128), tfill, lambda b: b.clone())
        work_buffer(ctx, 'gellmann_basis_to_dm', G.gellmann_basis_to_dm, np.zeros(d * d - 1), rfill, lambda b: b.copy())
        work_buffer(ctx, 'gellmann_basis_to_dm', G.gellmann_basis_to_dm, torch.zeros(2, d * d - 1, dtype=torch.float64),
                    [lambda b: b.copy_(torch.from_numpy(rng.normal(size=tuple(b.shape)))) for _ in range(3)], lambda b: b.clone())
        sigma = rand_matrix(rng, 'dm', d, ())
        dfill = [lambda b: b.__setitem__(Ellipsis, rand_matrix(rng, 'dm', d, ())) for _ in range(3)]
        work_buffer(ctx, 'get_density_matrix_distance2', lambda b: G.get_density_matrix_distance2(b, sigma), np.zeros((d, d), dtype=np.complex128), dfill, lambda b: b.copy())

    # ---------------- (2) call order: the same configurations in different orders inside this process, first one repeated at the end
    confs = []
    for d in range(2, 7):
        A, v, dm, bl = randc(2, d, d), randc(d * d), rand_matrix(rng, 'dm', d, ()), rng.normal(size=d * d - 1)
        for with_I in (False, True):
            confs.append(lambda d=d, with_I=with_I: G.all_gellmann_matrix(d, with_I=with_I))
        if d <= 3:
            confs.append(lambda d=d: G.all_gellmann_matrix(d, tensor_n=2, with_I=False))
            confs.append(lambda d=d: G.all_gellmann_matrix(d, tensor_n=2))
        confs.append(lambda d=d: [G.gellmann_matrix(d - 1, 0, d), G.gellmann_matrix(0, 0, d), G.gellmann_matrix(d - 1, d - 1, d)])
        for be in ('numpy', 'torch'):
            cv = (lambda x: torch.from_numpy(np.array(x))) if be == 'torch' else (lambda x: np.array(x))
            confs.append(lambda A=A, cv=cv: G.gellmann_basis_to_matrix(G.matrix_to_gellmann_basis(cv(A))))
            confs.append(lambda v=v, cv=cv: G.gellmann_basis_to_matrix(cv(v)))
            confs.append(lambda dm=dm, cv=cv: G.gellmann_basis_to_dm(G.dm_to_gellmann_basis(cv(dm))))
            confs.append(lambda bl=bl, dm=dm, cv=cv: G.get_density_matrix_distance2(G.gellmann_basis_to_dm(cv(bl)), cv(dm)))
        confs.append(lambda dm=dm: G.dm_to_gellmann_norm(dm.copy()))

        def manifold_conf(d=d):
            with driver(ctx, 'history/manifold'):
                numqi.manifold.to_special_orthogonal_exp(rng.normal(size=(2, d * d - 1)), d)
                numqi.manifold.to_symmetric_matrix(torch.from_numpy(rng.normal(size=d * d - 1)), d, is_trace0=True)
        confs.append(manifold_conf)
    confs.append(users_of_the_basis)
    orders = [list(range(len(confs))), list(range(len(confs)))[::-1], [int(t) for t in rng.permutation(len(confs))]]
    if big:
        orders += [[int(t) for t in rng.permutation(len(confs))] for _ in range(3)]
    for oi, order in enumerate(orders):
        for ci in order + [order[0]]:
            ctx.set_case({'op': 'history/call-order', 'order': oi, 'configuration': ci})
            with ctx.guard('history/call-order'):
                confs[ci]()
                ctx.hit('history/call-order')
    ctx.extra['call_order'] = {'configurations': len(confs), 'orders': len(orders)}


def run_repo_tests(ctx, numqi, torch):
    """the repository's own tests/test_gellmann.py executed with the contracts attached"""
    ctx.workload('repo-tests')
    path = os.path.join(os.path.dirname(os.path.realpath(os.environ.get('NUMQI_SRC', '/repo/python'))), 'tests', 'test_gellmann.py')
    if not os.path.exists(path):
        path = '/repo/tests/test_gellmann.py'
    spec = importlib.util.spec_from_file_location('vmon_repo_test_gellmann', path)
    mod = importlib.util.module_from_spec(spec)
    with seeded_default_rng(ctx):
        spec.loader.exec_module(mod)
        names = sorted(n for n in dir(mod) if n.startswith('test_') and callable(getattr(mod, n)))
        for rep in range(5):
            for n in names:
                ctx.set_case({'op': 'repo-test', 'name': n, 'rep': rep})
                with ctx.guard(f'repo-test/{n}'):
                    try:
                        getattr(mod, n)()
                        ctx.check(True, f'repo-test/{n}', '')
                    except AssertionError as e:
                        ctx.check(False, f'repo-test/{n}/assertion', f'the repository test {n} failed under monitoring: {str(e)[:100]}', None)
    ctx.extra['repo_tests_run'] = names


def run(ctx, shard):
    import numqi
    import torch
    M = install(ctx, numqi)
    name = shard['name']
    if name == 'basis':
        run_basis(ctx, numqi, torch)
        run_regimes(ctx, numqi, torch)
    elif name == 'corner':
        run_corner(ctx, numqi, torch)
    elif name == 'realistic':
        run_realistic(ctx, numqi, torch)
    elif name == 'repo-tests':
        run_repo_tests(ctx, numqi, torch)
    elif name == 'history':
        run_history(ctx, numqi, torch)
    elif name.startswith('random-'):
        run_random(ctx, numqi, torch, shard['backend'], shard['prec'])
    # cache integrity: touch the bases the callers of this shard used (plus d=2..8) and compare at the end of the run
    for d in range(2, 9):
        for with_I in (True, False):
            M.seen_basis.setdefault((d, 1, with_I), True)
    cache_integrity(ctx, M, numqi)


# thorough tier: every random shard is run this many times with independent random streams (see vmon/runner.py get_shards)
THOROUGH_REPEAT = 8
