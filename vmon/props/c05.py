"""C05 - entanglement criteria never flag a separable state.

Monitors: postconditions on the real `is_ppt`, `is_generalized_ppt`, `check_reduction_witness`, `check_swap_witness`,
`get_negativity`, `get_concurrence_2qubit`, `get_eof_2qubit`, `get_gme_2qubit`, `is_ABk_symmetric_ext` (use_ppt x use_boson)
and `get_ppt_boundary`, plus the less prominent consumers `get_generalized_ppt_boundary`, `get_concurrence_pure` / `get_eof_pure` (product
vectors), `is_ABk_symmetric_ext_naive`, `get_linear_entropy_entanglement_ppt`, `get_ppt_ree`, `get_ABk_symmetric_extension_ree`. Every contract is conditional on a ghost label "certified separable for this dim tuple" kept in a
content-digest registry. Labels are issued by the *producers* only after the reference (vmon/ref/sepcert.py) has re-verified
the certificate: the explicit decomposition (weights on the simplex, unit product vectors, entry-wise equality with the
state). Producers: the harness' own mixtures (random / structured / hostile), numqi's `rand_separable_dm` (local factors
recorded through attaches on `rand_haar_state` / `rand_density_matrix`, weights recovered by NNLS),
`SeparableDensityMatrix.forward` (read back from the model's own coordinates), `AutodiffCHAREE`, `CHABoundaryBagging.solve`
feasible points and the named families inside their separable range.
"""
import hashlib
import itertools
import math
import warnings

import numpy as np

from vmon.core import to_numpy
from vmon.ref import sepcert as R
from vmon.ref import twoqubit as T2

RULE = ('cases = (dim tuple, separable state): convex mixtures of 1..2D product vectors (complex / real, random, computational '
        'basis, repeated terms, nearly parallel vectors at angle 1e-3..1e-8, weights 1e-12, pure product states, maximally '
        'mixed) in dims (2,2),(2,3),(3,2),(3,3),(2,4),(2,2,2),(2,3,2),(2,2,2,2) and every grouping of adjacent parties; '
        'outputs of rand_separable_dm / SeparableDensityMatrix / AutodiffCHAREE / CHABoundaryBagging; Werner, isotropic, '
        'Horodecki and Antoine families inside their separable range. A case counts only after the reference re-verified its '
        'certificate; it is non-trivial when the state is not diagonal in the computational basis (largest off-diagonal '
        'modulus > 1e-6; this excludes the maximally mixed state). Distinct by digest of (dim tuple, matrix bytes). States are '
        'handed over as complex128 and (real mixtures) float64 arrays, C-contiguous, Fortran-ordered and as strided views; the '
        'criteria are called in a different order for every state; work-buffer histories refill / update ONE array in place '
        '(separable -> entangled -> separable -> mixed in place) and edit earlier results before calling again; every shard runs '
        'its dim tuples / SDP configurations a second time in another order. Every third state is also asked through every '
        'documented calling form (defaults passed explicitly, all positional in docstring order, dim as list / ndarray / numpy '
        'ints, flags as 0/1 / numpy booleans); rank-deficient mixtures of 1..D-1 generic product vectors are a state kind of '
        'their own. Shard regime*: the other party orders (4,2),(3,2,2),(2,2,3); states at distance 1e-4..1e-10 from I/D, weights graded '
        'over 15 decades, a dominant pure product term plus terms of weight 1e-6..1e-15; certified states handed over with complex '
        'non-Hermitian rounding noise 1e-14..1e-16 per entry (tolerance of the concurrence derived from that amplitude); batches with one '
        'degenerate item and batches of one (batched == per item); product vectors (tall / wide / a party of dimension 1) through '
        'get_concurrence_pure / get_eof_pure; every state also through get_generalized_ppt_boundary (>= its own norm - 3e-5), and a few '
        'through is_ABk_symmetric_ext_naive, get_linear_entropy_entanglement_ppt, get_ppt_ree, get_ABk_symmetric_extension_ree (= 0 up '
        'to 1e-4 when the solver says optimal). SeparableDensityMatrix is also evaluated at parameter scales 1e-4 / 1e-8, with autograd '
        'recording / frozen parameters (same value) and as a deepcopy with new parameters (independent of the original).')
EXHAUSTIVE = {'quick': False, 'thorough': False}
EXHAUSTIVE_DOMAINS = {'quick': [], 'thorough': []}
ASSUMPTIONS = [
    'party 1 is the left-most Kronecker factor; a product vector across dims is a product vector across every grouping of '
    'adjacent parties',
    'labels of kind "analytic" (Werner 0<alpha<=1/d, isotropic alpha<0, Horodecki 2x4 b=1, Antoine q in [0,1/2]) rest on the '
    'separable ranges published with the families, every other label on an explicit decomposition re-verified entry-wise '
    '(1e-12) by vmon/ref/sepcert.py',
    'criteria are judged at their default thresholds (eps=-1e-7, zero_eps=1e-10); "zero" for a measure means finite and '
    '|v|<=1e-7',
    'a symmetric-extension answer "no" only counts when the solver reported a definite "infeasible"; SolverError, a None '
    'value or an "inaccurate" status is inconclusive',
]
TECHNIQUE = ('runtime contracts (postconditions) on the real criteria, conditional on ghost labels issued by producers whose '
             'certificate (explicit product decomposition) is re-verified by an independent reference')
LEVEL_TEXT = 'held on the monitored executions (sampled separable states; completeness of the criteria is not claimed)'
LEVEL_NOTE = ('CHABoundaryBagging.solve often raises cvxpy.SolverError in this sandbox (CLARABEL instead of ECOS): those attempts are '
              'inconclusive. Rank-deficient states make CLARABEL fail over to SCS (1e5 iterations, "optimal_inaccurate"): such answers '
              'are counted separately (accepted-with-status-*), and hostile states are driven through the SDP criteria mainly in (2,2).')
DECIDING = ['is_ppt', 'is_generalized_ppt', 'check_reduction_witness', 'check_swap_witness', 'get_negativity',
            'get_concurrence_2qubit', 'get_eof_2qubit', 'get_gme_2qubit', 'is_ABk_symmetric_ext', 'get_ppt_boundary',
            'labelled/is_ppt', 'labelled/is_generalized_ppt', 'labelled/check_reduction_witness', 'labelled/check_swap_witness',
            'labelled/get_negativity', 'labelled/get_concurrence_2qubit', 'labelled/get_eof_2qubit', 'labelled/get_gme_2qubit',
            'labelled/is_ABk_symmetric_ext', 'labelled/get_ppt_boundary',
            'producer/rand_separable_dm', 'producer/SeparableDensityMatrix.forward', 'producer/harness-mixture',
            'producer/named-family', 'argument-unchanged', 'history/work-buffer', 'history/result-edited', 'input/float64',
            'input/complex128/not-c-contiguous', 'order/second-pass-reversed', 'order/first-config-again', 'api-surface',
            # lesson 3: regimes, shapes, less prominent consumers, lifecycle (all reached in both tiers: shards regime*, producers*)
            'labelled/get_generalized_ppt_boundary', 'labelled/get_concurrence_pure', 'labelled/get_eof_pure',
            'labelled/is_ABk_symmetric_ext_naive', 'labelled/get_linear_entropy_entanglement_ppt', 'labelled/get_ppt_ree',
            'labelled/get_ABk_symmetric_extension_ree', 'regime/near-max-mixed', 'regime/graded-weights', 'regime/dominant-term',
            'regime/rounding-noise', 'shape/party-order-variants', 'batch/one-degenerate-item', 'lifecycle/SeparableDensityMatrix']

ZERO = 1e-7
BIP = [(2, 2), (2, 3), (3, 2), (3, 3), (2, 4)]
MULTI = [(2, 2, 2), (2, 3, 2), (2, 2, 2, 2)]
REGIME_KINDS = ['near-max-mixed', 'graded-weights', 'dominant-term']
EXTRA_DIMS = [(4, 2), (3, 2, 2), (2, 2, 3)]
KINDS = ['random', 'random', 'rank-deficient', 'random-real', 'few-terms', 'basis', 'repeated', 'near-parallel', 'near-parallel-pair',
         'pure-product', 'tiny-weights', 'max-mixed', 'full-rank', 'rank-deficient']


# =============================================================================== shards
def shards(tier, seed):
    q = tier == 'quick'
    ret = []
    # SDP shards first (the runner starts shards in list order)
    if q:
        ret += [
            {'name': 'sdp-33-a', 'dims': [3, 3], 'configs': [[2, 1, 0], [1, 1, 0]], 'nstate': 3, 'hostile': 0, 'budget_s': 50},
            {'name': 'sdp-33-b', 'dims': [3, 3], 'configs': [[2, 0, 0], [2, 0, 1], [2, 1, 1]], 'nstate': 3, 'hostile': 0, 'budget_s': 50},
            {'name': 'sdp-23', 'dims': [2, 3], 'configs': [[2, 1, 0], [2, 0, 0], [2, 0, 1], [2, 1, 1], [1, 1, 0]], 'nstate': 3,
             'hostile': 0, 'budget_s': 50},
            {'name': 'sdp-32', 'dims': [3, 2], 'configs': [[2, 1, 0], [2, 0, 0], [2, 0, 1], [2, 1, 1], [1, 1, 0], [3, 0, 1]], 'nstate': 3,
             'hostile': 0, 'budget_s': 50},
            {'name': 'sdp-23-hostile', 'dims': [2, 3], 'configs': [[2, 0, 0], [2, 1, 1]], 'nstate': 4, 'hostile': 1, 'budget_s': 40},
            {'name': 'sdp-32-hostile', 'dims': [3, 2], 'configs': [[2, 1, 0], [2, 0, 1]], 'nstate': 4, 'hostile': 1, 'budget_s': 40},
            {'name': 'sdp-22-a', 'dims': [2, 2], 'configs': [[1, 1, 0], [2, 0, 0], [2, 0, 1], [2, 1, 0], [2, 1, 1]], 'nstate': 7,
             'hostile': 1, 'budget_s': 50},
            {'name': 'sdp-22-b', 'dims': [2, 2], 'configs': [[3, 0, 0], [3, 0, 1], [3, 1, 0], [3, 1, 1]], 'nstate': 6, 'hostile': 1,
             'budget_s': 50},
        ]
        ret += [{'name': 'closed-22', 'dims_list': [[2, 2]], 'n': 400},
                {'name': 'closed-bip', 'dims_list': [[2, 3], [3, 2], [3, 3], [2, 4]], 'n': 100},
                {'name': 'closed-multi', 'dims_list': [[2, 2, 2], [2, 3, 2], [2, 2, 2, 2]], 'n': 100},
                {'name': 'producers', 'n': 12},
                {'name': 'regime', 'n': 28, 'reps': 3, 'nsdp': 4, 'sdp_dims': [[3, 2], [2, 3], [2, 2]], 'budget_s': 150}]
    else:
        B = 420
        for dims, cfgs in [((3, 3), [[2, 1, 0]]), ((3, 3), [[2, 0, 0], [1, 1, 0]]), ((3, 3), [[2, 0, 1], [2, 1, 1]]),
                           ((2, 3), [[3, 1, 0]]), ((2, 3), [[3, 0, 0]]), ((2, 3), [[3, 0, 1], [3, 1, 1]]),
                           ((2, 3), [[2, 1, 0], [2, 0, 0]]), ((2, 3), [[2, 0, 1], [2, 1, 1], [1, 1, 0]]),
                           ((3, 2), [[3, 1, 0], [3, 0, 0]]), ((3, 2), [[3, 0, 1], [3, 1, 1]]),
                           ((3, 2), [[2, 1, 0], [2, 0, 0], [2, 0, 1], [2, 1, 1], [1, 1, 0]])]:
            i = sum(1 for s in ret if s['name'].startswith(f'sdp-{dims[0]}{dims[1]}'))
            ret.append({'name': f'sdp-{dims[0]}{dims[1]}-{i}', 'dims': list(dims), 'configs': cfgs, 'nstate': 12,
                        'hostile': 1 if cfgs[0][0] <= 2 and dims != (3, 3) else 0, 'budget_s': B})
        ret.append({'name': 'sdp-33-hostile', 'dims': [3, 3], 'configs': [[2, 0, 1], [1, 1, 0]], 'nstate': 6, 'hostile': 1, 'budget_s': B})
        for i, cfgs in enumerate([[[1, 1, 0], [2, 0, 0], [2, 0, 1], [2, 1, 0], [2, 1, 1]], [[3, 0, 0], [3, 0, 1], [3, 1, 0], [3, 1, 1]],
                                  [[4, 0, 0], [4, 0, 1]], [[4, 1, 0], [4, 1, 1]]]):
            ret.append({'name': f'sdp-22-{i}', 'dims': [2, 2], 'configs': cfgs, 'nstate': 40, 'hostile': 1, 'budget_s': B})
        for i in range(4):
            ret.append({'name': f'closed-22-{i}', 'dims_list': [[2, 2]], 'n': 2000})
        for i, d in enumerate([[2, 3], [3, 2], [3, 3], [2, 4]]):
            ret.append({'name': f'closed-bip-{i}', 'dims_list': [d], 'n': 2000})
        for i, d in enumerate([[2, 2, 2], [2, 3, 2], [2, 2, 2, 2]]):
            ret.append({'name': f'closed-multi-{i}', 'dims_list': [d], 'n': 1500})
        ret += [{'name': f'producers-{i}', 'n': 60} for i in range(2)]
        ret += [{'name': f'regime-{i}', 'n': 300, 'reps': 30, 'nsdp': 12, 'sdp_dims': [[2, 2], [2, 3], [3, 2]], 'budget_s': B} for i in range(2)]
    return ret


# =============================================================================== ghost registry
def state_digest(rho):
    a = np.ascontiguousarray(to_numpy(rho).astype(np.complex128))
    return hashlib.sha1(a.tobytes()).hexdigest()


class Registry:
    """content digest of the matrix + dim tuple -> description of the verified certificate."""

    def __init__(self, ctx):
        self.ctx = ctx
        self.labels = {}
        self.issued = {}
        self.rejected = 0
        self.min_pt_eig = 0.0

    def issue(self, rho, cert, producer, extra=None):
        """verify the certificate with the reference; on success label rho for cert.dims and (for decompositions) for every
        grouping of adjacent parties. Returns True when the label was issued."""
        rho = to_numpy(rho)
        D = int(np.prod(cert.dims))
        rho2 = rho.reshape(D, D)
        ok, reason = R.verify(cert, rho2)
        if not ok:
            self.rejected += 1
            self.ctx.inconclusive(f'certificate-rejected/{producer}')
            self.ctx.extra.setdefault('certificate_rejections', [])
            if len(self.ctx.extra['certificate_rejections']) < 5:
                self.ctx.extra['certificate_rejections'].append({'producer': producer, 'reason': reason, **cert.describe()})
            return False
        # sanity of the reference itself: a verified mixture of products must be PPT for every party (rounding only)
        m = T2.pt_min_eig_all(rho2, cert.dims)
        self.min_pt_eig = min(self.min_pt_eig, m)
        if m < -1e-12:
            raise RuntimeError(f'reference inconsistency: verified separable state has PT eigenvalue {m}')
        dg = state_digest(rho2)
        desc = dict(cert.describe(), producer=producer, **(extra or {}))
        self.labels[(dg, cert.dims)] = desc
        if cert.kind == 'decomposition' and len(cert.dims) > 2:
            for cd, blocks in R.coarsenings(cert.dims):
                if cd != cert.dims:
                    self.labels[(dg, cd)] = dict(desc, coarsened_from=list(cert.dims))
        self.issued[producer] = self.issued.get(producer, 0) + 1
        self.ctx.hit(f'producer/{producer}')
        return True

    def lookup(self, rho, dims):
        try:
            dims = tuple(int(x) for x in dims)
            a = to_numpy(rho)
            D = int(np.prod(dims))
            if a.ndim != 2 or a.shape != (D, D):
                return None
            return self.labels.get((state_digest(a), dims))
        except Exception:
            return None


# =============================================================================== solver log (harness-level, not numqi)
def solver_log():
    import cvxpy
    cur = cvxpy.Problem.solve
    log = getattr(cur, '__vmon_log__', None)
    if log is not None:
        return log
    log = []

    def solve(self, *a, **k):
        try:
            r = cur(self, *a, **k)
        except Exception as e:
            log.append({'status': 'exception:' + type(e).__name__, 'value': None})
            raise
        st = getattr(self, 'solver_stats', None)
        log.append({'status': self.status, 'value': self.value, 'solver': getattr(st, 'solver_name', None)})
        return r

    solve.__vmon_log__ = log
    cvxpy.Problem.solve = solve
    return log


# =============================================================================== contracts
def install(ctx, numqi, reg):
    E = numqi.entangle
    worst = ctx.extra.setdefault('worst_abs_value_on_separable', {})
    slog = solver_log()

    def note_worst(name, v):
        try:
            v = abs(float(v))
        except Exception:
            return
        if v == v:
            worst[name] = max(worst.get(name, 0.0), v)

    def snapshot(argname):
        def pre(c):
            return np.array(to_numpy(c.arg(0, argname)), copy=True)
        return pre

    def unchanged(c, name, argname):
        """the array argument must come back unmodified. Returns the snapshot taken at call time: the ghost label is looked up
        (and the contract judged) on what the function was GIVEN, not on what it left behind."""
        now = to_numpy(c.arg(0, argname))
        snap = c.snap['arg'] if isinstance(c.snap, dict) else c.snap
        if snap is None:
            return now
        same = now.shape == snap.shape and now.dtype == snap.dtype and bool(np.array_equal(now, snap, equal_nan=True))
        ctx.check(same, f'{name}/mutates-argument', f'{name} modified its array argument in place',
                  lambda: {'dtype': str(snap.dtype), 'c_contiguous': bool(now.flags.c_contiguous), 'before': snap, 'after': now},
                  point='argument-unchanged')
        return snap

    def boolean_contract(name, get_dims, eps_index):
        def post(c):
            if c.exc is not None:
                return
            rho = unchanged(c, name, 'rho')
            dims = get_dims(c, rho)
            if dims is None:
                return
            lab = reg.lookup(rho, dims)
            if lab is None:
                ctx.hit('unlabelled/' + name)
                return
            if eps_index is not None:
                eps = c.arg(eps_index[0], eps_index[1], eps_index[2])
                if not (eps_index[3](eps)):
                    ctx.hit('non-default-threshold/' + name)
                    return
            res = c.result
            info = None
            if isinstance(res, tuple):  # is_generalized_ppt(return_info=True)
                res, info = res[0], res[1]
            ok = isinstance(res, (bool, np.bool_)) and bool(res)
            ctx.check(ok, f'{name}/rejects-separable', f'{name} answered "entangled" ({res!r}) for a certified separable state',
                      lambda: {'dims': list(dims), 'label': lab, 'rho': to_numpy(rho),
                               'info_max_norm': None if info is None else max(float(x[2]) for x in info)},
                      point='labelled/' + name)
            if info is not None:
                worst['generalized_ppt_max_norm_minus_1'] = max(worst.get('generalized_ppt_max_norm_minus_1', -1.0),
                                                                 max(float(x[2]) for x in info) - 1)
        return post

    def dims_arg(c, rho):
        d = c.arg(1, 'dim')
        try:
            return tuple(int(x) for x in d)
        except Exception:
            return None

    def dims_square(c, rho):
        n = to_numpy(rho).shape[0]
        d = int(round(math.sqrt(n)))
        return (d, d) if d * d == n else None

    ctx.attach(E.ppt, 'is_ppt', pre=snapshot('rho'), post=boolean_contract('is_ppt', dims_arg, (2, 'eps', -1e-7, lambda e: e <= -1e-9)), point='is_ppt')
    ctx.attach(E.ppt, 'is_generalized_ppt', point='is_generalized_ppt', pre=snapshot('rho'),
               post=boolean_contract('is_generalized_ppt', dims_arg, (3, 'zero_eps', 1e-10, lambda e: e >= 1e-12)))
    ctx.attach(E._misc, 'check_reduction_witness', point='check_reduction_witness', pre=snapshot('rho'),
               post=boolean_contract('check_reduction_witness', dims_arg, (2, 'eps', -1e-7, lambda e: e <= -1e-9)))
    ctx.attach(E._misc, 'check_swap_witness', point='check_swap_witness', pre=snapshot('rho'),
               post=boolean_contract('check_swap_witness', dims_square, (1, 'eps', -1e-7, lambda e: e <= -1e-9)))

    def measure_contract(name, get_dims):
        def post(c):
            if c.exc is not None:
                return
            rho = unchanged(c, name, 'rho')
            dims = get_dims(c, rho)
            if dims is None:
                return
            lab = reg.lookup(rho, dims)
            if lab is None:
                ctx.hit('unlabelled/' + name)
                return
            try:
                v = np.asarray(c.result, dtype=np.float64)
                scalar = v.ndim == 0
            except Exception:
                scalar = False
            if not scalar:
                ctx.check(False, f'{name}/not-a-real-scalar', f'{name} did not return a real scalar', {'got': repr(c.result)[:200]},
                          point='labelled/' + name)
                return
            v = float(v)
            wit = lambda: {'dims': list(dims), 'label': lab, 'value': repr(v), 'rho': to_numpy(rho)}
            fin = ctx.check(math.isfinite(v), f'{name}/not-finite', f'{name} is not finite on a certified separable state', wit,
                            point='labelled/' + name)
            if fin:
                # a state handed over with entry-wise rounding noise of amplitude a (label 'input_noise') sits at distance a from
                # the boundary state it approximates; the concurrence is a square root there: tolerance from the INPUT, 4*sqrt(a)
                tol = max(ZERO, 4 * math.sqrt(float(lab.get('input_noise', 0.0)))) if name == 'get_concurrence_2qubit' else ZERO
                if 'input_noise' not in lab:
                    note_worst(name, v)
                ctx.check(abs(v) <= tol, f'{name}/nonzero-on-separable',
                          f'{name} is not zero (|v|>1e-7) on a certified separable state', wit)
        return post

    two_qubit = lambda c, rho: (2, 2) if to_numpy(rho).shape == (4, 4) else None
    ctx.attach(E.eof, 'get_concurrence_2qubit', pre=snapshot('rho'), post=measure_contract('get_concurrence_2qubit', two_qubit), point='get_concurrence_2qubit')
    ctx.attach(E.eof, 'get_eof_2qubit', pre=snapshot('rho'), post=measure_contract('get_eof_2qubit', two_qubit), point='get_eof_2qubit')
    ctx.attach(E.measure, 'get_gme_2qubit', pre=snapshot('rho'), post=measure_contract('get_gme_2qubit', two_qubit), point='get_gme_2qubit')
    ctx.attach(E._misc, 'get_negativity', pre=snapshot('rho'), post=measure_contract('get_negativity', dims_arg), point='get_negativity')

    # ---------------- PPT boundary: the separable state itself (beta = its Gell-Mann norm) lies inside [beta_l, beta_u]
    def post_ppt_boundary(c):
        if c.exc is not None:
            return
        dm = unchanged(c, 'get_ppt_boundary', 'dm')
        dims = dims_arg(c, None)
        if dims is None or len(dims) != 2 or dm.ndim < 2:
            return
        D = dims[0] * dims[1]
        items = dm.reshape(-1, D, D)
        single = dm.ndim == 2
        dm_norm = c.arg(2, 'dm_norm', None)
        try:
            bl = np.asarray(c.result[0], dtype=np.float64).reshape(-1)
            bu = np.asarray(c.result[1], dtype=np.float64).reshape(-1)
        except Exception:
            bl = bu = np.zeros(0)
        for i, rho in enumerate(items):
            lab = reg.lookup(rho, dims)
            if lab is None:
                ctx.hit('unlabelled/get_ppt_boundary')
                continue
            nrm = R.gellmann_norm(rho)
            if nrm < 1e-9:
                ctx.inconclusive('get_ppt_boundary/direction-undefined (maximally mixed)')
                continue
            used = nrm if dm_norm is None else float(np.asarray(dm_norm, dtype=np.float64).reshape(-1)[0 if np.size(dm_norm) == 1 else i])
            if bl.shape[0] != items.shape[0] or bu.shape[0] != items.shape[0]:
                ctx.check(False, 'get_ppt_boundary/shape', 'get_ppt_boundary: result does not have one (beta_l, beta_u) per state',
                          {'in': dm.shape, 'single': single}, point='labelled/get_ppt_boundary')
                return
            wit = lambda: {'dims': list(dims), 'label': lab, 'beta_l': float(bl[i]), 'beta_u': float(bu[i]), 'norm': used, 'rho': rho}
            ok = math.isfinite(bu[i]) and math.isfinite(bl[i])
            ctx.check(ok, 'get_ppt_boundary/not-finite', 'get_ppt_boundary not finite on a certified separable state', wit,
                      point='labelled/get_ppt_boundary')
            if ok:
                m = (bu[i] - used) / used
                worst['ppt_boundary_min_rel_margin'] = min(worst.get('ppt_boundary_min_rel_margin', float('inf')), float(m))
                ctx.check(bu[i] >= used * (1 - 1e-9) and bl[i] <= 1e-12, 'get_ppt_boundary/separable-state-outside',
                          'a certified separable state lies outside the PPT segment [beta_l, beta_u] of its own ray', wit)

    ctx.attach(E.ppt, 'get_ppt_boundary', pre=snapshot('dm'), post=post_ppt_boundary, point='get_ppt_boundary')

    # ---------------- symmetric / bosonic extension (SDP)
    def pre_symext(c):
        return {'n': len(slog), 'arg': np.array(to_numpy(c.arg(0, 'rho')), copy=True)}

    def post_symext(c):
        if c.exc is not None:
            return
        rho = unchanged(c, 'is_ABk_symmetric_ext', 'rho')
        dims = dims_arg(c, None)
        if dims is None or len(dims) != 2 or rho.ndim not in (2, 3):
            return
        kext = c.arg(2, 'kext')
        use_ppt = bool(c.arg(3, 'use_ppt', False))
        use_boson = bool(c.arg(4, 'use_boson', False))
        return_info = bool(c.arg(6, 'return_info', False))
        items = rho.reshape(-1, rho.shape[-2], rho.shape[-1])
        res = c.result
        try:
            if return_info:
                flags = [res[0]] if rho.ndim == 2 else [x[0] for x in res]
            else:
                flags = list(np.asarray(res).reshape(-1))
        except Exception:
            flags = []
        entries = slog[c.snap['n']:] if c.snap is not None else []
        cfg = f'ppt={int(use_ppt)},boson={int(use_boson)}'
        for i, r in enumerate(items):
            lab = reg.lookup(r, dims)
            if lab is None:
                ctx.hit('unlabelled/is_ABk_symmetric_ext')
                continue
            if len(flags) != items.shape[0]:
                ctx.check(False, 'is_ABk_symmetric_ext/shape', 'is_ABk_symmetric_ext: not one answer per state', {'in': rho.shape},
                          point='labelled/is_ABk_symmetric_ext')
                return
            ent = entries[i] if len(entries) == items.shape[0] else None
            status = None if ent is None else ent['status']
            ctx.extra.setdefault('sdp_status', {})
            ctx.extra['sdp_status'][str(status)] = ctx.extra['sdp_status'].get(str(status), 0) + 1
            ans = flags[i]
            if isinstance(ans, (bool, np.bool_)) and bool(ans):
                if status in ('optimal', None):
                    ctx.check(True, f'is_ABk_symmetric_ext/rejects-separable/{cfg}', '', point='labelled/is_ABk_symmetric_ext')
                else:  # "yes" on the strength of an inaccurate solve: consistent with the property, but not a clean observation
                    ctx.check(True, f'is_ABk_symmetric_ext/rejects-separable/{cfg}', '', point='labelled/is_ABk_symmetric_ext')
                    ctx.hit('labelled/is_ABk_symmetric_ext/accepted-with-status-' + str(status))
                continue
            if status is not None and status != 'infeasible':
                ctx.inconclusive(f'sdp-status:{status}')
                continue
            ctx.check(False, f'is_ABk_symmetric_ext/rejects-separable/{cfg}',
                      f'is_ABk_symmetric_ext({cfg}) answered "no extension" ({ans!r}, solver status {status}) for a certified separable state',
                      {'dims': list(dims), 'kext': kext, 'use_ppt': use_ppt, 'use_boson': use_boson, 'label': lab, 'status': status,
                       'rho': r}, point='labelled/is_ABk_symmetric_ext')

    ctx.attach(E.symext, 'is_ABk_symmetric_ext', pre=pre_symext, post=post_symext, point='is_ABk_symmetric_ext')

    # ---------------- less prominent consumers of the same machinery (lesson 3d)
    # (i) get_generalized_ppt_boundary: the generalized-PPT set is convex and contains I/D, so the boundary on the ray through a
    # certified separable state lies at or beyond that state (root finder: xtol=1e-5, observed shortfall 3.2e-6)
    def post_gppt_boundary(c):
        if c.exc is not None:
            return
        dm = unchanged(c, 'get_generalized_ppt_boundary', 'dm')
        dims = dims_arg(c, None)
        if dims is None or dm.ndim != 2:
            return
        lab = reg.lookup(dm, dims)
        if lab is None:
            ctx.hit('unlabelled/get_generalized_ppt_boundary')
            return
        thr, xtol = c.arg(2, 'threshold', 1e-10), c.arg(3, 'xtol', 1e-5)
        if not (thr >= 1e-12 and xtol <= 1e-5):
            ctx.hit('non-default-threshold/get_generalized_ppt_boundary')
            return
        nrm = R.gellmann_norm(dm)
        if nrm < 1e-9:
            ctx.inconclusive('get_generalized_ppt_boundary/direction-undefined (maximally mixed)')
            return
        try:
            v = float(np.asarray(c.result, dtype=np.float64).reshape(()))
        except Exception:
            ctx.check(False, 'get_generalized_ppt_boundary/not-a-real-scalar', 'get_generalized_ppt_boundary did not return a real scalar',
                      {'got': repr(c.result)[:200]}, point='labelled/get_generalized_ppt_boundary')
            return
        wit = lambda: {'dims': list(dims), 'label': lab, 'beta': v, 'norm_of_state': nrm, 'rho': dm}
        if ctx.check(math.isfinite(v), 'get_generalized_ppt_boundary/not-finite', 'get_generalized_ppt_boundary not finite on a certified separable state',
                     wit, point='labelled/get_generalized_ppt_boundary'):
            worst['generalized_ppt_boundary_max_shortfall'] = max(worst.get('generalized_ppt_boundary_max_shortfall', -1.0), nrm - v)
            ctx.check(v >= nrm - 3e-5, 'get_generalized_ppt_boundary/separable-state-outside',
                      'a certified separable state lies beyond the generalized-PPT boundary of its own ray', wit)

    ctx.attach(E.ppt, 'get_generalized_ppt_boundary', pre=snapshot('dm'), post=post_gppt_boundary, point='get_generalized_ppt_boundary')

    # (ii) pure-state measures on PRODUCT vectors (label: the reference's own SVD finds Schmidt rank one). get_concurrence_pure is
    # sqrt(2(1-purity)): a purity error of k ulp shows as sqrt(2k eps); the tolerance is derived from the input's normalisation
    def pure_contract(name):
        def post(c):
            if c.exc is not None:
                return
            psi = unchanged(c, name, 'psi')
            if psi.ndim != 2 or psi.size == 0 or not np.all(np.isfinite(psi)):
                return
            sv = np.linalg.svd(psi.astype(np.complex128), compute_uv=False)
            dev = abs(1.0 - float((sv**2).sum())**2)
            if dev > 4e-15 or (sv.shape[0] > 1 and sv[1] > 1e-13):
                ctx.hit('unlabelled/' + name)
                return
            if name == 'get_eof_pure' and not (1e-12 <= c.arg(1, 'eps', 1e-10) <= 1e-8):
                ctx.hit('non-default-threshold/' + name)
                return
            tol = math.sqrt(2 * (dev + 32 * 2.220446049250313e-16)) if name == 'get_concurrence_pure' else ZERO
            try:
                v = float(np.asarray(c.result, dtype=np.float64).reshape(()))
            except Exception:
                ctx.check(False, f'{name}/not-a-real-scalar', f'{name} did not return a real scalar', {'got': repr(c.result)[:200]},
                          point='labelled/' + name)
                return
            wit = lambda: {'shape': list(psi.shape), 'dtype': str(psi.dtype), 'value': repr(v), 'tolerance': tol, 'psi': psi}
            if ctx.check(math.isfinite(v), f'{name}/not-finite', f'{name} is not finite on a product vector', wit, point='labelled/' + name):
                note_worst(name, v)
                ctx.check(abs(v) <= tol, f'{name}/nonzero-on-product-vector', f'{name} is not zero on a product vector', wit)
        return post

    ctx.attach(E.eof, 'get_concurrence_pure', pre=snapshot('psi'), post=pure_contract('get_concurrence_pure'), point='get_concurrence_pure')
    ctx.attach(E.eof, 'get_eof_pure', pre=snapshot('psi'), post=pure_contract('get_eof_pure'), point='get_eof_pure')

    # (iii) the naive (full-space) symmetric-extension SDP
    def post_naive(c):
        if c.exc is not None:
            return
        rho = unchanged(c, 'is_ABk_symmetric_ext_naive', 'rho')
        dims = dims_arg(c, None)
        if dims is None or len(dims) != 2 or rho.ndim != 2:
            return
        lab = reg.lookup(rho, dims)
        if lab is None:
            ctx.hit('unlabelled/is_ABk_symmetric_ext_naive')
            return
        entries = slog[c.snap['n']:]
        status = entries[-1]['status'] if entries else None
        res = c.result
        ans = res[0] if isinstance(res, tuple) and len(res) else res
        if isinstance(ans, (bool, np.bool_)) and bool(ans):
            ctx.check(True, 'is_ABk_symmetric_ext_naive/rejects-separable', '', point='labelled/is_ABk_symmetric_ext_naive')
            return
        if status is not None and status != 'infeasible':
            ctx.inconclusive(f'sdp-status:{status}')
            return
        ctx.check(False, 'is_ABk_symmetric_ext_naive/rejects-separable',
                  f'is_ABk_symmetric_ext_naive answered "no extension" ({ans!r}, solver status {status}) for a certified separable state',
                  {'dims': list(dims), 'kext': c.arg(2, 'kext'), 'index_kind': c.arg(3, 'index_kind', '2d'), 'label': lab, 'rho': rho},
                  point='labelled/is_ABk_symmetric_ext_naive')

    ctx.attach(E.symext, 'is_ABk_symmetric_ext_naive', pre=pre_symext, post=post_naive, point='is_ABk_symmetric_ext_naive')

    # (iv) SDP measures that vanish on the PPT set / on the k-extendible set, hence on separable states (solver slack 1e-4, DESIGN 3)
    def sdp_measure_contract(name, get_dims, defaults_ok):
        def post(c):
            if c.exc is not None:
                return
            rho = unchanged(c, name, 'rho')
            dims = get_dims(c)
            if dims is None or rho.ndim not in (2, 3) or not defaults_ok(c):
                return
            D = dims[0] * dims[1]
            if rho.shape[-2:] != (D, D):
                return
            items = rho.reshape(-1, D, D)
            try:
                vals = np.asarray(c.result, dtype=np.float64).reshape(-1)
            except Exception:
                vals = np.zeros(0)
            entries = slog[c.snap['n']:]
            for i, r in enumerate(items):
                lab = reg.lookup(r, dims)
                if lab is None:
                    ctx.hit('unlabelled/' + name)
                    continue
                if vals.shape[0] != items.shape[0]:
                    ctx.check(False, f'{name}/shape', f'{name}: not one value per state', {'in': rho.shape}, point='labelled/' + name)
                    return
                status = entries[i]['status'] if len(entries) == items.shape[0] else None
                v = float(vals[i])
                if status != 'optimal' or v != v:
                    ctx.inconclusive(f'sdp-status:{status}')
                    continue
                note_worst(name, v)
                ctx.check(math.isfinite(v) and abs(v) <= 1e-4, f'{name}/nonzero-on-separable',
                          f'{name} is not zero (|v|>1e-4, solver status optimal) on a certified separable state',
                          lambda: {'dims': list(dims), 'label': lab, 'value': repr(v), 'rho': r}, point='labelled/' + name)
        return post

    def dims_two(c):
        d = dims_arg(c, None)
        return d if d is not None and len(d) == 2 else None

    def dims_ab(c):
        try:
            return (int(c.arg(1, 'dimA')), int(c.arg(2, 'dimB')))
        except Exception:
            return None

    no_info = lambda i: (lambda c: not bool(c.arg(i, 'return_info', False)))
    ctx.attach(E.measure, 'get_linear_entropy_entanglement_ppt', pre=pre_symext, point='get_linear_entropy_entanglement_ppt',
               post=sdp_measure_contract('get_linear_entropy_entanglement_ppt', dims_two, no_info(3)))
    ctx.attach(E.ppt, 'get_ppt_ree', pre=pre_symext, point='get_ppt_ree',
               post=sdp_measure_contract('get_ppt_ree', dims_ab, lambda c: not bool(c.arg(3, 'return_info', False))
                                         and c.arg(4, 'sqrt_order', 3) == 3 and c.arg(5, 'pade_order', 3) == 3))
    ctx.attach(E.symext, 'get_ABk_symmetric_extension_ree', pre=pre_symext, point='get_ABk_symmetric_extension_ree',
               post=sdp_measure_contract('get_ABk_symmetric_extension_ree', dims_two, lambda c: not bool(c.arg(5, 'return_info', False))
                                         and c.arg(6, 'sqrt_order', 3) == 3 and c.arg(7, 'pade_order', 3) == 3))

    # ---------------- producers inside numqi
    rec = {'on': False, 'haar': [], 'dm': []}

    def post_haar(c):
        if rec['on'] and c.exc is None:
            rec['haar'].append(np.array(c.result, dtype=np.complex128))

    def post_dm(c):
        if rec['on'] and c.exc is None:
            rec['dm'].append(np.array(c.result, dtype=np.complex128))

    RI = numqi.random._internal
    ctx.attach(RI, 'rand_haar_state', post=post_haar, point='rand_haar_state')
    ctx.attach(RI, 'rand_density_matrix', post=post_dm, point='rand_density_matrix')

    def pre_randsep(c):
        rec['on'] = True
        rec['haar'] = []
        rec['dm'] = []

    def post_randsep(c):
        rec['on'] = False
        if c.exc is not None:
            return
        import scipy.optimize
        dimA = c.arg(0, 'dimA')
        dimB = c.arg(1, 'dimB', None)
        dimB = dimA if dimB is None else dimB
        pure = bool(c.arg(4, 'pure_term', False))
        rho = np.asarray(c.result, dtype=np.complex128)
        facs = rec['haar'] if pure else rec['dm']
        if len(facs) == 0 or len(facs) % 2:
            ctx.inconclusive('certificate-rejected/rand_separable_dm (local factors not observed)')
            return
        pairs = [(facs[2 * i], facs[2 * i + 1]) for i in range(len(facs) // 2)]
        if pure:
            pairs = [(np.outer(a, a.conj()), np.outer(b, b.conj())) for a, b in pairs]
        terms = [np.kron(a, b) for a, b in pairs]
        A = np.stack([np.concatenate([t.real.reshape(-1), t.imag.reshape(-1)]) for t in terms], axis=1)
        y = np.concatenate([rho.real.reshape(-1), rho.imag.reshape(-1)])
        w, _ = scipy.optimize.nnls(A, y)
        try:
            cert = R.expand_local_mixture((dimA, dimB), w, [list(p) for p in pairs])
        except ValueError:
            ctx.inconclusive('certificate-rejected/rand_separable_dm (local factor not PSD)')
            return
        reg.issue(rho, cert, 'rand_separable_dm')

    ctx.attach(RI, 'rand_separable_dm', pre=pre_randsep, post=post_randsep, point='rand_separable_dm')

    def post_sepdm(c):
        if c.exc is not None:
            return
        import torch
        mod = c.args[0]
        out = to_numpy(c.result)
        if out.dtype != np.complex128:
            return  # single precision outputs are not labelled (1e-12 certificate tolerance)
        with torch.no_grad():
            p = to_numpy(mod.manifold_p())
            a = to_numpy(mod.manifold_psiA())
            b = to_numpy(mod.manifold_psiB())
        dA, dB, n = mod.dimA, mod.dimB, mod.num_cha
        if mod.batch_size is None:
            p, a, b, out = p[None], a[None], b[None], out[None]
        else:
            a = a.reshape(mod.batch_size, n, dA)
            b = b.reshape(mod.batch_size, n, dB)
        for pi, ai, bi, oi in zip(p, a, b, out):
            cert = R.cert_from_terms((dA, dB), pi, [[x, y] for x, y in zip(ai, bi)])
            reg.issue(oi.reshape(dA * dB, dA * dB), cert, 'SeparableDensityMatrix.forward')

    ctx.attach(numqi.manifold.SeparableDensityMatrix, 'forward', post=post_sepdm, point='SeparableDensityMatrix.forward')
    return slog


# =============================================================================== harness producers
def gen_cert(rng, dims, kind):
    """a decomposition certificate of the requested kind (the state is *defined* as its rebuilt mixture)."""
    D = int(np.prod(dims))
    real = kind in ('random-real', 'full-rank-real')
    rv = lambda: [R.random_unit(rng, d, real) for d in dims]
    if kind in ('random', 'random-real'):
        n = int(rng.integers(1, 2 * D + 1))
        return R.cert_from_terms(dims, rng.dirichlet(np.ones(n) * rng.choice([0.3, 1.0, 5.0])), [rv() for _ in range(n)])
    if kind == 'rank-deficient':  # 1..D-1 GENERIC product vectors: on the boundary of the state space, singular partial transposes
        n = int(rng.integers(1, D))
        return R.cert_from_terms(dims, rng.dirichlet(np.ones(n)), [rv() for _ in range(n)])
    if kind == 'few-terms':
        n = int(rng.integers(1, 4))
        return R.cert_from_terms(dims, rng.dirichlet(np.ones(n)), [rv() for _ in range(n)])
    if kind in ('full-rank', 'full-rank-real'):
        n = D + int(rng.integers(2, D + 1))
        return R.cert_from_terms(dims, rng.dirichlet(np.ones(n) * 5), [rv() for _ in range(n)])
    if kind == 'basis':
        idx = list(itertools.product(*[range(d) for d in dims]))
        n = int(rng.integers(1, len(idx) + 1))
        sel = [idx[i] for i in rng.choice(len(idx), size=n, replace=False)]
        return R.cert_from_terms(dims, rng.dirichlet(np.ones(n)), [[R.basis_vector(d, i) for d, i in zip(dims, t)] for t in sel])
    if kind == 'repeated':
        base = [rv() for _ in range(int(rng.integers(1, 4)))]
        n = int(rng.integers(2, 2 * D + 1))
        return R.cert_from_terms(dims, rng.dirichlet(np.ones(n)), [base[int(rng.integers(len(base)))] for _ in range(n)])
    if kind == 'near-parallel':
        v0 = rv()
        n = int(rng.integers(2, D + 2))
        ang = 10.0**(-rng.uniform(3, 8))
        terms = [v0] + [[R.nearby_unit(rng, v, ang * rng.uniform(0.3, 1)) for v in v0] for _ in range(n - 1)]
        return R.cert_from_terms(dims, rng.dirichlet(np.ones(n)), terms)
    if kind == 'near-parallel-pair':  # generic mixture in which two terms are nearly parallel on one party only
        n = int(rng.integers(2, 2 * D + 1))
        terms = [rv() for _ in range(n)]
        p = int(rng.integers(len(dims)))
        terms[1] = list(terms[0])
        terms[1][p] = R.nearby_unit(rng, terms[0][p], 10.0**(-rng.uniform(3, 8)))
        return R.cert_from_terms(dims, rng.dirichlet(np.ones(n)), terms)
    if kind == 'pure-product':
        return R.cert_from_terms(dims, [1.0], [rv()])
    if kind == 'tiny-weights':
        n = int(rng.integers(2, 2 * D + 1))
        w = rng.dirichlet(np.ones(n))
        m = rng.random(n) < 0.5
        m[0] = False
        w[m] = 1e-12 * rng.uniform(0.1, 10, size=int(m.sum()))
        return R.cert_from_terms(dims, w, [rv() for _ in range(n)])
    if kind == 'max-mixed':
        return R.product_basis_cert(dims)
    if kind == 'near-max-mixed':  # at Gell-Mann distance ~1e-4..1e-10 from I/D (cancellation in every norm of rho - I/D)
        base = gen_cert(rng, dims, ['random', 'pure-product', 'rank-deficient', 'basis'][int(rng.integers(4))])
        t = 10.0**(-rng.uniform(4, 10))
        basis = R.product_basis_cert(dims)
        return R.Certificate(dims, np.concatenate([t * base.weights, (1 - t) * basis.weights]),
                             [np.concatenate([a, b]) for a, b in zip(base.vectors, basis.vectors)])
    if kind == 'graded-weights':  # NEARLY rank-deficient: weights spread over 15 decades
        n = int(rng.integers(2, 2 * D + 1))
        w = 10.0**(-rng.uniform(0, 15, size=n))
        w[0] = 1.0
        return R.cert_from_terms(dims, w, [rv() for _ in range(n)])
    if kind == 'dominant-term':  # (1-x)|ab><ab| + x|cd><cd| (+ y|ef><ef|), x,y in 1e-6..1e-15: within rounding distance of a pure product state
        n = int(rng.integers(2, 4))
        w = np.concatenate([[1.0], 10.0**(-rng.uniform(6, 15, size=n - 1))])
        return R.cert_from_terms(dims, w, [rv() for _ in range(n)])
    raise ValueError(kind)


def run(ctx, shard):
    import numqi
    warnings.filterwarnings('ignore')
    reg = Registry(ctx)
    slog = install(ctx, numqi, reg)
    E = numqi.entangle
    rng = ctx.rng
    name = shard['name']
    nsample = [0]
    regime_shard = name.startswith('regime')

    def register(rho, dims, producer, kind, cert=None, extra=None):
        """count the case. With a certificate: ask the registry to verify it and issue the label first; without: the state
        must already carry a label issued by a contract on a numqi producer. Returns the (D,D) numpy matrix or None."""
        dims = tuple(dims)
        D = int(np.prod(dims))
        rho = to_numpy(rho).reshape(D, D)
        if cert is not None and not reg.issue(rho, cert, producer, extra):
            return None
        lab = reg.lookup(rho, dims)
        if lab is None:
            ctx.inconclusive(f'state-not-labelled/{producer}')
            return None
        off = R.offdiag_max(rho)
        desc = dict(lab, state_kind=kind, offdiag_max=off)
        ctx.set_case(desc)
        smp = None
        if nsample[0] < 8 and rng.random() < 0.05:
            nsample[0] += 1
            ev = np.linalg.eigvalsh(T2.herm(rho))
            smp = dict(desc, rank=int((ev > 1e-10).sum()), purity=float(np.vdot(rho, rho).real))
        ctx.case('state', list(dims), rho.astype(np.complex128), nontrivial=off > 1e-6, sample=smp)
        return rho

    def layout_variant(rho, real_input):
        """the same VALUES as another dtype / memory layout: (argument, tag)"""
        if real_input:
            return rho.real.copy(), 'float64'
        u = rng.random()
        if u < 0.12:
            return np.asfortranarray(rho), 'fortran-ordered copy'
        if u < 0.24:
            big = np.zeros((2 * rho.shape[0], 2 * rho.shape[1]), dtype=rho.dtype)
            big[::2, ::2] = rho
            return big[::2, ::2], 'non-contiguous strided view'
        return rho, str(rho.dtype)

    def suite_calls(arg, rho, dims):
        """(guard name, thunk) for every closed-form criterion applicable to this dim tuple"""
        calls = [('is_ppt', lambda: E.is_ppt(arg, dims)),
                 ('is_generalized_ppt', (lambda: E.is_generalized_ppt(arg, dims, return_info=True)) if rng.random() < 0.3
                  else (lambda: E.is_generalized_ppt(arg, dims))),
                 ('check_reduction_witness', lambda: E.check_reduction_witness(arg, dims))]
        if len(dims) == 2:
            if dims[0] == dims[1]:
                calls.append(('check_swap_witness', lambda: E.check_swap_witness(arg)))
            calls.append(('get_negativity', lambda: E.get_negativity(arg, dims)))
            if R.gellmann_norm(rho) > 1e-9:
                calls.append(('get_ppt_boundary', lambda: E.get_ppt_boundary(arg, dims)))
            if tuple(dims) == (2, 2):
                calls += [('get_concurrence_2qubit', lambda: E.get_concurrence_2qubit(arg)), ('get_eof_2qubit', lambda: E.get_eof_2qubit(arg)),
                          ('get_gme_2qubit', lambda: E.get_gme_2qubit(arg))]
        # the root-finding consumer of is_generalized_ppt: always in the regime shard, for every tenth state elsewhere
        if len(dims) <= 3 and (regime_shard or rng.random() < 0.1) and R.gellmann_norm(rho) > 1e-9:
            calls.append(('get_generalized_ppt_boundary', lambda: E.get_generalized_ppt_boundary(arg, dims)))
        return calls

    def closed_suite(rho, dims, real_input=False, arg=None):
        """every closed-form criterion applicable to this dim tuple, each under its own guard, in an order that changes from state
        to state; the argument is handed over in varying dtype / memory layout (or is the caller's work buffer `arg`)."""
        if arg is None:
            arg, tag = layout_variant(rho, real_input)
            ctx.hit('input/' + ('float64' if not np.iscomplexobj(arg) else 'complex128') + ('' if arg.flags.c_contiguous else '/not-c-contiguous'))
        calls = suite_calls(arg, rho, dims)
        out = {}
        for i in rng.permutation(len(calls)):
            gname, thunk = calls[i]
            with ctx.guard(gname):
                out[gname] = thunk()
        return out

    def as_plain(x):
        """a criterion's answer as something comparable"""
        if isinstance(x, tuple) and len(x) == 2 and isinstance(x[1], (list, tuple)) and isinstance(x[0], (bool, np.bool_)):
            return ('bool', bool(x[0]))  # is_generalized_ppt(return_info=True)
        if isinstance(x, tuple):
            return ('arr', np.array([np.asarray(t, dtype=np.float64) for t in x]))
        if isinstance(x, (bool, np.bool_)):
            return ('bool', bool(x))
        return ('arr', np.asarray(x, dtype=np.float64))

    def same_answer(a, b):
        a, b = as_plain(a), as_plain(b)
        if a[0] != b[0]:
            return False
        if a[0] == 'bool':
            return a[1] == b[1]
        return a[1].shape == b[1].shape and bool(np.all((np.abs(a[1] - b[1]) <= 1e-7 * (1 + np.abs(b[1]))) | (np.isnan(a[1]) & np.isnan(b[1]))))

    def dim_forms(dims):
        dims = tuple(int(x) for x in dims)
        return [('list', list(dims)), ('ndarray', np.array(dims)), ('tuple of numpy ints', tuple(np.int64(x) for x in dims))]

    def api_surface(rho, dims):
        """the same question asked through every documented way of calling: defaults passed explicitly, everything positional in
        docstring order, dim as list / ndarray / numpy ints. Every call is observed by the contracts (a labelled state must pass in
        every form); in addition all forms must agree with the plain call."""
        dims = tuple(int(x) for x in dims)
        forms = dim_forms(dims)
        dalt = forms[int(rng.integers(len(forms)))][1]
        groups = [('is_ppt', lambda: E.is_ppt(rho, dims),
                   [('explicit-default-differs', lambda: E.is_ppt(rho, dims, eps=-1e-7)),
                    ('positional-call-differs-from-keyword-call', lambda: E.is_ppt(rho, dims, -1e-7)),
                    ('explicit-default-differs', lambda: E.is_ppt(rho=rho, dim=dalt, eps=np.float64(-1e-7)))]),
                  ('is_generalized_ppt', lambda: E.is_generalized_ppt(rho, dims),
                   [('explicit-default-differs', lambda: E.is_generalized_ppt(rho, dims, return_info=False, zero_eps=1e-10)),
                    ('positional-call-differs-from-keyword-call', lambda: E.is_generalized_ppt(rho, dalt, False, 1e-10)),
                    ('explicit-default-differs', lambda: E.is_generalized_ppt(rho, dims, return_info=np.False_, zero_eps=np.float64(1e-10))),
                    ('explicit-default-differs', lambda: E.is_generalized_ppt(rho, dims, return_info=1, zero_eps=1e-10))]),
                  ('check_reduction_witness', lambda: E.check_reduction_witness(rho, dims),
                   [('explicit-default-differs', lambda: E.check_reduction_witness(rho, dims, eps=-1e-7)),
                    ('positional-call-differs-from-keyword-call', lambda: E.check_reduction_witness(rho, dalt, -1e-7))])]
        if len(dims) == 2:
            if dims[0] == dims[1]:
                groups.append(('check_swap_witness', lambda: E.check_swap_witness(rho),
                               [('explicit-default-differs', lambda: E.check_swap_witness(rho, eps=-1e-7)),
                                ('positional-call-differs-from-keyword-call', lambda: E.check_swap_witness(rho, -1e-7))]))
            groups.append(('get_negativity', lambda: E.get_negativity(rho, dims),
                           [('positional-call-differs-from-keyword-call', lambda: E.get_negativity(rho=rho, dim=dalt))]))
            if R.gellmann_norm(rho) > 1e-6:
                nrm = R.gellmann_norm(rho)
                groups.append(('get_ppt_boundary', lambda: E.get_ppt_boundary(rho, dims),
                               [('explicit-default-differs', lambda: E.get_ppt_boundary(rho, dims, dm_norm=None, within_dm=True)),
                                ('positional-call-differs-from-keyword-call', lambda: E.get_ppt_boundary(rho, dalt, None, True)),
                                ('explicit-default-differs', lambda: E.get_ppt_boundary(rho, dims, dm_norm=nrm, within_dm=np.True_))]))
        for fn, base, variants in groups:
            out = [None]
            with ctx.guard(fn):
                out[0] = base()
            if out[0] is None:
                continue
            for key, thunk in variants:
                got = [None]
                with ctx.guard(fn):
                    got[0] = thunk()
                if got[0] is None:
                    continue
                ctx.check(same_answer(out[0], got[0]), f'{fn}/{key}',
                          f'{fn}: the same question asked through another documented calling form gets another answer',
                          lambda: {'dims': list(dims), 'plain_call': repr(out[0])[:200], 'other_form': repr(got[0])[:200], 'rho': rho},
                          point='api-surface')

    def history(dims):
        """work-buffer history on ONE array object: separable content -> entangled content -> other separable content -> in-place
        mixing with the maximally mixed state. Contracts see the CURRENT content (snapshot + digest at call time); in addition every
        answer on the buffer is compared with the answer on a fresh copy of the same values."""
        dims = tuple(dims)
        D = int(np.prod(dims))
        real = bool(rng.integers(2))
        buf = np.empty((D, D), dtype=np.float64 if real else np.complex128)
        psi = np.zeros(D)
        psi[0] = psi[-1] = 1 / math.sqrt(2)
        ent = 0.9 * np.outer(psi, psi) + 0.1 * np.eye(D) / D
        kinds = ['random-real', 'basis', 'random-real'] if real else ['random', 'pure-product', 'full-rank']
        steps = []
        for kk in kinds[:2]:
            steps.append(('separable ' + kk, kk))
            steps.append(('entangled (unlabelled)', None))
        steps.append(('separable ' + kinds[2], kinds[2]))
        steps.append(('in-place mixing of the previous separable content with the maximally mixed state', 'mix'))
        last_cert = None
        for step, (desc, kk) in enumerate(steps):
            if kk is None:
                buf[:] = ent
                cur = None
            elif kk == 'mix':
                buf *= 0.5
                buf += 0.5 * np.eye(D) / D
                basis = R.product_basis_cert(dims)
                cert = R.Certificate(dims, np.concatenate([0.5 * last_cert.weights, 0.5 * basis.weights]),
                                     [np.concatenate([a, b]) for a, b in zip(last_cert.vectors, basis.vectors)])
                cur = register(buf.copy(), dims, 'harness-mixture', desc, cert)
            else:
                last_cert = gen_cert(rng, dims, kk)
                rho = R.rebuild(last_cert)
                buf[:] = rho.real if real else rho
                cur = register(buf.copy(), dims, 'harness-mixture', desc, last_cert)
            ctx.set_case({'history': 'work buffer', 'step': step, 'content': desc, 'dims': list(dims), 'dtype': str(buf.dtype)})
            ctx.workload('realistic')
            content = buf.copy()
            on_buffer = closed_suite(content, dims, arg=buf)
            if cur is None:
                continue
            fresh = closed_suite(content, dims, arg=content.copy())
            for gname, ans in on_buffer.items():
                if gname in fresh:
                    ctx.check(same_answer(ans, fresh[gname]), f'{gname}/stale-after-inplace-update',
                              f'{gname} answers differently on a work buffer that was updated in place than on a fresh copy of the same values',
                              lambda: {'on_buffer': repr(ans)[:200], 'on_fresh_copy': repr(fresh[gname])[:200], 'content': desc, 'rho': content},
                              point='history/work-buffer')

    def result_edit_history(rho, dims):
        """edit the RESULT of a call in place, call again with the same argument: the second answer must not be the edited object"""
        if len(dims) == 2 and R.gellmann_norm(rho) > 1e-6:
            batch = np.stack([rho, rho])
            with ctx.guard('get_ppt_boundary'):
                r1 = E.get_ppt_boundary(batch, dims)
                keep = [np.array(t, copy=True) for t in r1]
                for t in r1:
                    if isinstance(t, np.ndarray) and t.flags.writeable:
                        t[...] = 123.0
                r2 = E.get_ppt_boundary(batch, dims)
                ok = all(np.allclose(np.asarray(a), b, rtol=1e-9, atol=1e-12) for a, b in zip(r2, keep))
                ctx.check(ok, 'get_ppt_boundary/result-aliases-earlier-call', 'get_ppt_boundary: editing an earlier result changes the next answer',
                          {'dims': list(dims), 'second': [np.asarray(a) for a in r2], 'first': keep}, point='history/result-edited')
        with ctx.guard('is_generalized_ppt'):
            t1 = E.is_generalized_ppt(rho, dims, return_info=True)
            norms = [float(x[2]) for x in t1[1]]
            if isinstance(t1[1], list):
                t1[1].clear()
            t2 = E.is_generalized_ppt(rho, dims, return_info=True)
            ok = bool(t2[0]) == bool(t1[0]) and [float(x[2]) for x in t2[1]] == norms
            ctx.check(ok, 'is_generalized_ppt/result-aliases-earlier-call', 'is_generalized_ppt: editing an earlier info list changes the next answer',
                      {'dims': list(dims), 'first': norms[:8], 'second_len': len(t2[1])}, point='history/result-edited')

    def drive_closed(rho, cert, real_input=False):
        closed_suite(rho, cert.dims, real_input)
        if cert.kind == 'decomposition' and len(cert.dims) > 2:
            for cd, _ in R.coarsenings(cert.dims):
                if cd != cert.dims:
                    closed_suite(rho, cd, real_input)

    def harness_state(dims, kind):
        cert = gen_cert(rng, tuple(dims), kind)
        rho = R.rebuild(cert)
        return register(rho, dims, 'harness-mixture', kind, cert), cert

    def call_symext(rho, dims, k, **kw):
        n0 = len(slog)
        with ctx.guard('is_ABk_symmetric_ext'):
            try:
                E.is_ABk_symmetric_ext(rho, dims, k, **kw)
            except TypeError:
                if len(slog) > n0 and slog[-1]['value'] is None:  # np.isinf(None): the solver returned no value
                    ctx.inconclusive('sdp-status:value-none')
                    return
                raise

    # ------------------------------------------------------------------ closed-form shards
    if name.startswith('closed'):
        for dims in shard['dims_list']:
            dims = tuple(dims)
            for it in range(shard['n']):
                kind = KINDS[it % len(KINDS)]
                ctx.workload('random' if kind.startswith(('random', 'few', 'full')) else 'corner')
                rho, cert = harness_state(dims, kind)
                if rho is None:
                    continue
                real_in = kind in ('random-real', 'basis', 'max-mixed') and rng.random() < 0.5
                drive_closed(rho, cert, real_in)
                if it % 3 == 0:
                    ctx.set_case(dict(reg.lookup(rho, dims) or {}, state_kind=kind, calling='api-surface variants'))
                    api_surface(rho, dims)
                if it % 40 == 3:
                    history(dims if len(dims) == 2 or it % 80 else R.coarsenings(dims)[0][0])
                if it % 50 == 9:
                    result_edit_history(rho, dims)
                if len(dims) == 2 and it % 25 == 0:  # batched boundary call on labelled states
                    others = [harness_state(dims, 'random')[0] for _ in range(2)]
                    batch = np.stack([rho] + [o for o in others if o is not None])
                    if all(R.gellmann_norm(b) > 1e-6 for b in batch):
                        with ctx.guard('get_ppt_boundary'):
                            E.get_ppt_boundary(batch, dims)
            # controls: entangled (hence unlabelled) states go through the same functions; nothing is asserted about them
            if len(dims) == 2:
                psi = np.zeros(int(np.prod(dims)), dtype=np.complex128)
                psi[0] = psi[-1] = 1 / math.sqrt(2)
                ent = np.outer(psi, psi.conj())
                ctx.set_case({'control': 'entangled pure state', 'dims': list(dims)})
                closed_suite(ent, dims)
        # call order: the dim tuples of this shard once more in the opposite order (fewer states), then the first one again
        order2 = [tuple(d) for d in reversed(shard['dims_list'])] + [tuple(shard['dims_list'][0])]
        for dims in order2:
            for it in range(max(6, shard['n'] // 12)):
                kind = KINDS[(3 * it + 1) % len(KINDS)]
                ctx.workload('random' if kind.startswith(('random', 'few', 'full')) else 'corner')
                rho, cert = harness_state(dims, kind)
                if rho is not None:
                    drive_closed(rho, cert, kind in ('random-real', 'basis') and it % 2 == 0)
            history(dims if len(dims) == 2 else R.coarsenings(dims)[-2][0])
            ctx.hit('order/second-pass-reversed')

    # ------------------------------------------------------------------ SDP shards
    elif name.startswith('sdp'):
        dims = tuple(shard['dims'])
        D = dims[0] * dims[1]
        hostile = ['pure-product', 'near-parallel', 'basis', 'few-terms', 'tiny-weights', 'repeated', 'max-mixed', 'near-parallel-pair']
        skipped = []
        for ci, (k, use_ppt, use_boson) in enumerate(shard['configs']):
            if ctx.time_left() < 8:
                skipped.append([k, use_ppt, use_boson])
                continue
            states = []
            kinds = []
            for j in range(shard['nstate']):
                if shard['hostile'] and j % 2 == 1:
                    kind = hostile[(j // 2 + ci) % len(hostile)]
                    ctx.workload('corner')
                else:
                    kind = ['full-rank', 'random', 'random-real'][(j // 2) % 3] if shard['hostile'] else 'full-rank'
                    ctx.workload('random')
                rho, cert = harness_state(dims, kind)
                if rho is not None:
                    states.append(rho)
                    kinds.append(kind)
            # one library-produced state per configuration
            ctx.workload('realistic')
            with ctx.guard('rand_separable_dm'):
                r2 = numqi.random.rand_separable_dm(dims[0], dims[1], k=2 * D, seed=int(rng.integers(2**31)), pure_term=bool(ci % 2))
                if reg.lookup(r2, dims) is not None:
                    ctx.case('state', list(dims), np.asarray(r2, dtype=np.complex128), nontrivial=True)
                    states.append(np.asarray(r2))
                    kinds.append('rand_separable_dm')
            ctx.set_case({'dims': list(dims), 'kext': k, 'use_ppt': bool(use_ppt), 'use_boson': bool(use_boson), 'state_kinds': kinds})
            batch = np.stack(states)
            kw = dict(use_ppt=bool(use_ppt), use_boson=bool(use_boson))
            if len(states) > 2 and ci % 2 == 0:
                call_symext(batch[:-1], dims, k, **kw)
                # a single state: as a 2-d array, or as a batch of ONE (3-d) whose answer must come back as a list of one
                call_symext(batch[-1] if ci % 4 else batch[-1:], dims, k, return_info=True, **kw)
            else:
                call_symext(batch, dims, k, **kw)
            # the closed-form criteria see the same states
            for r in states:
                closed_suite(r, dims)
        # API surface: the last configuration again, everything positional in docstring order (rho, dim, kext, use_ppt, use_boson,
        # use_tqdm, return_info), flags as 0/1 and numpy booleans, kext as a numpy integer, dim as list / ndarray
        if ctx.time_left() >= 8:
            k, use_ppt, use_boson = shard['configs'][-1]
            st = harness_state(dims, 'full-rank')[0]
            if st is not None:
                ctx.set_case({'dims': list(dims), 'kext': k, 'use_ppt': bool(use_ppt), 'use_boson': bool(use_boson), 'calling': 'positional / flag types'})
                res = []
                for args, kw in [((st, dims, k), dict(use_ppt=bool(use_ppt), use_boson=bool(use_boson))),
                                 ((st, list(dims), np.int64(k), int(use_ppt), int(use_boson), False, False), {}),
                                 ((st, np.array(dims), k), dict(use_ppt=np.bool_(use_ppt), use_boson=np.bool_(use_boson), use_tqdm=False, return_info=False))]:
                    n0 = len(slog)
                    got = [None]
                    with ctx.guard('is_ABk_symmetric_ext'):
                        got[0] = E.is_ABk_symmetric_ext(*args, **kw)
                    res.append((got[0], [e['status'] for e in slog[n0:]]))
                clean = all(r[0] is not None and r[1] == ['optimal'] for r in res)
                if clean:
                    ctx.check(bool(res[0][0]) == bool(res[1][0]), 'is_ABk_symmetric_ext/positional-call-differs-from-keyword-call',
                              'is_ABk_symmetric_ext: positional call (docstring order) answers differently', {'answers': [repr(r[0]) for r in res]},
                              point='api-surface')
                    ctx.check(bool(res[0][0]) == bool(res[2][0]), 'is_ABk_symmetric_ext/explicit-default-differs',
                              'is_ABk_symmetric_ext: numpy flag types / explicit defaults answer differently', {'answers': [repr(r[0]) for r in res]},
                              point='api-surface')
                else:
                    ctx.inconclusive('sdp-status: api-surface comparison not clean')
        # positional order of the two flags, on an (unlabelled) control where they matter: the two-qubit isotropic state p=1/2 has a
        # bosonic 2-extension but no PPT 2-extension, so swapping use_ppt / use_boson in the signature changes the positional answers
        if dims == (2, 2) and ctx.time_left() >= 8:
            ctrl = T2.isotropic2(0.5)
            ctx.set_case({'control': 'isotropic p=1/2, kext=2', 'calling': 'positional flags vs keyword flags'})
            for fl in [(True, False), (False, True)]:
                n0 = len(slog)
                got = [None, None]
                with ctx.guard('is_ABk_symmetric_ext'):
                    got[0] = E.is_ABk_symmetric_ext(ctrl, dims, 2, use_ppt=fl[0], use_boson=fl[1])
                    got[1] = E.is_ABk_symmetric_ext(ctrl, dims, 2, fl[0], fl[1])
                if got[1] is not None and all(e['status'] in ('optimal', 'infeasible') for e in slog[n0:]):
                    ctx.check(bool(got[0]) == bool(got[1]), 'is_ABk_symmetric_ext/positional-call-differs-from-keyword-call',
                              'is_ABk_symmetric_ext: use_ppt / use_boson given positionally (docstring order) answer differently from keywords',
                              {'use_ppt': fl[0], 'use_boson': fl[1], 'keyword': repr(got[0]), 'positional': repr(got[1])}, point='api-surface')
        # call order: the first configuration once more at the end of the process (after the other configurations were built)
        if ctx.time_left() >= 8 and len(shard['configs']) > 1:
            k, use_ppt, use_boson = shard['configs'][0]
            again = [x for x in (harness_state(dims, 'full-rank')[0], harness_state(dims, 'full-rank-real')[0]) if x is not None]
            ctx.set_case({'dims': list(dims), 'kext': k, 'use_ppt': bool(use_ppt), 'use_boson': bool(use_boson), 'pass': 'first configuration again'})
            if again:
                # the second state as a float64 array (real separable mixture)
                call_symext(again[0], dims, k, use_ppt=bool(use_ppt), use_boson=bool(use_boson))
                if len(again) > 1:
                    call_symext(again[1].real.copy(), dims, k, use_ppt=bool(use_ppt), use_boson=bool(use_boson))
                ctx.hit('order/first-config-again')
        ctx.extra['configs_skipped_for_time'] = skipped
        if skipped:
            ctx.inconclusive('sdp-config-skipped-for-time', len(skipped))

    # ------------------------------------------------------------------ library producers and named families
    elif name.startswith('producers'):
        import torch
        n = shard['n']
        # (1) named families
        ctx.workload('corner')
        fam = []
        for d in (2, 3):
            th = 1 / d
            for a in [-1.0, -0.5, 0.0, th / 2, th - 1e-3, th - 1e-6, th - 1e-9, th - 1e-12, th, 1e-9, -1e-9] + list(rng.uniform(-1, th, size=n // 3)):
                fam.append((f'Werner({d},{a})', numqi.state.Werner(d, a), R.werner_cert(d, a)))
            th = 1 / (d + 1)
            lo = -1 / (d * d - 1)
            for a in [lo, lo / 2, 0.0, th / 2, th - 1e-3, th - 1e-6, th - 1e-9, th - 1e-12, th, 1e-9, -1e-9, lo + 1e-9] + list(rng.uniform(lo, th, size=n // 3)):
                fam.append((f'Isotropic({d},{a})', numqi.state.Isotropic(d, a), R.isotropic_cert(d, a)))
        for a in (0, 1):
            fam.append((f'bes3x3_Horodecki1997({a})', numqi.state.get_bes3x3_Horodecki1997(a), R.horodecki3x3_cert(a)))
            fam.append((f'bes2x4_Horodecki1997({a})', numqi.state.get_bes2x4_Horodecki1997(a), R.horodecki2x4_cert(a)))
        for qv in [0.0, 1e-9, 0.25, 0.5 - 1e-6, 0.5 - 1e-9, 0.5 - 1e-12, 0.5] + list(rng.uniform(0, 0.5, size=n // 3)):
            fam.append((f'2qutrit_Antoine2022({qv})', numqi.state.get_2qutrit_Antoine2022(qv), R.antoine_cert(qv)))
        for label, rho, cert in fam:
            r = register(np.asarray(rho), cert.dims, 'named-family', label, cert)
            if r is not None:
                closed_suite(np.asarray(rho), cert.dims)  # numqi's own array (float64 for these families)
        # (2) rand_separable_dm
        ctx.workload('realistic')
        for it in range(4 * n):
            dims = BIP[it % len(BIP)]
            k = int(rng.integers(1, 2 * dims[0] * dims[1] + 1)) if it % 3 else int(rng.integers(1, 4))
            pure = bool((it // len(BIP)) % 2)
            ctx.set_case({'producer': 'rand_separable_dm', 'dims': list(dims), 'k': k, 'pure_term': pure})
            rho = None
            with ctx.guard('rand_separable_dm'):
                rho = numqi.random.rand_separable_dm(dims[0], dims[1], k=k, seed=int(rng.integers(2**31)), pure_term=pure)
            if rho is None:
                continue
            r = register(rho, dims, 'rand_separable_dm', f'rand_separable_dm k={k} pure_term={pure}')
            if r is not None:
                closed_suite(r, dims)
        # (3) SeparableDensityMatrix at random parameters of several scales, single and batched
        for it in range(2 * n):
            dims = BIP[it % len(BIP)]
            scale = [0.1, 1.0, 10.0, 1e-4, 1e-8][it % 5]  # tiny parameters: every coordinate map normalises its argument
            batch = None if it % 4 else 3
            ncha = [None, 2, 3][it % 3]  # num_cha=1 is not admissible (DiscreteProbability needs >=2 entries)
            ctx.set_case({'producer': 'SeparableDensityMatrix', 'dims': list(dims), 'scale': scale, 'batch': batch, 'num_cha': ncha})
            out = None
            with ctx.guard('SeparableDensityMatrix'):
                mod = numqi.manifold.SeparableDensityMatrix(dims[0], dims[1], num_cha=ncha, batch_size=batch)
                with torch.no_grad():
                    for p in mod.parameters():
                        p.copy_(torch.tensor(rng.normal(size=tuple(p.shape)) * scale, dtype=p.dtype))
                    out = to_numpy(mod())
            if out is None:
                continue
            D = dims[0] * dims[1]
            for o in out.reshape(-1, D, D):
                r = register(o, dims, 'SeparableDensityMatrix.forward', f'SeparableDensityMatrix scale={scale} num_cha={ncha}')
                if r is not None:
                    closed_suite(r, dims)
            # evaluation modes and lifecycle (every forward below is seen by the producer contract: its output is labelled from the
            # coordinates of the module that was CALLED). Same value with autograd recording / frozen parameters; a deepcopy with
            # new parameters is a function of ITS parameters and leaves the original alone
            if it % 2 == 0:
                import copy
                got = {}
                with ctx.guard('SeparableDensityMatrix'):
                    got['grad'] = to_numpy(mod().detach())
                    for p in mod.parameters():
                        p.requires_grad_(False)
                    got['frozen'] = to_numpy(mod())
                    for p in mod.parameters():
                        p.requires_grad_(True)
                    twin = copy.deepcopy(mod)
                    with torch.no_grad():
                        for p in twin.parameters():
                            p.copy_(torch.tensor(rng.normal(size=tuple(p.shape)) * scale, dtype=p.dtype))
                        got['twin'] = to_numpy(twin())
                        got['again'] = to_numpy(mod())
                if len(got) == 4:
                    same = all(got[k].shape == out.shape and bool(np.array_equal(got[k], out)) for k in ('grad', 'frozen'))
                    ctx.check(same, 'SeparableDensityMatrix/value-depends-on-evaluation-mode',
                              'SeparableDensityMatrix(): autograd recording / frozen parameters / no_grad give different values',
                              lambda: {'dims': list(dims), 'scale': scale, 'no_grad': out, 'grad': got['grad'], 'frozen': got['frozen']},
                              point='lifecycle/SeparableDensityMatrix')
                    ctx.check(bool(np.array_equal(got['again'], out)) and not np.allclose(got['twin'], out, rtol=0, atol=1e-12),
                              'SeparableDensityMatrix/deepcopy-shares-state',
                              'SeparableDensityMatrix: a deepcopy with new parameters changed the original or still returns the original state',
                              lambda: {'dims': list(dims), 'scale': scale, 'original_before': out, 'original_after': got['again'], 'copy': got['twin']},
                              point='lifecycle/SeparableDensityMatrix')
                    for o in got['twin'].reshape(-1, D, D):
                        r = register(o, dims, 'SeparableDensityMatrix.forward', f'deepcopy of SeparableDensityMatrix, new parameters scale={scale}')
                        if r is not None:
                            closed_suite(r, dims)
        # (4) AutodiffCHAREE: random parameters and a few L-BFGS steps towards an entangled target
        for it in range(max(2, n // 3)):
            dims = BIP[it % len(BIP)]
            D = dims[0] * dims[1]
            ctx.set_case({'producer': 'AutodiffCHAREE', 'dims': list(dims)})
            with ctx.guard('AutodiffCHAREE'):
                model = E.AutodiffCHAREE(dims, distance_kind='gellmann')
                psi = np.zeros(D, dtype=np.complex128)
                psi[0] = psi[-1] = 1 / math.sqrt(2)
                model.set_dm_target(0.6 * np.outer(psi, psi.conj()) + 0.4 * np.eye(D) / D)
                numqi.optimize.minimize(model, theta0=('normal', 0, [0.1, 1.0, 10.0][it % 3]), num_repeat=1, tol=1e-10, maxiter=5,
                                        print_every_round=0, seed=int(rng.integers(2**31)))
                model()
                r = register(to_numpy(model.dm_torch), dims, 'SeparableDensityMatrix.forward', 'AutodiffCHAREE.dm_torch after <=5 L-BFGS steps')
                if r is not None:
                    closed_suite(r, dims)
        # (5) CHABoundaryBagging feasible points (LP through cvxpy: failures are inconclusive)
        for it in range(max(2, n // 4)):
            dims = [(2, 2), (2, 3)][it % 2]
            D = dims[0] * dims[1]
            ctx.set_case({'producer': 'CHABoundaryBagging.solve', 'dims': list(dims)})
            target = R.rebuild(gen_cert(rng, dims, 'random')) * 0.5 + 0.5 * numqi.random.rand_density_matrix(D, seed=int(rng.integers(2**31)))
            try:
                cha = E.CHABoundaryBagging(dims)
                beta, (ketA, ketB, lam, _) = cha.solve(target, maxiter=int(it % 3), return_info=True, seed=int(rng.integers(2**31)))
            except Exception as e:
                ctx.inconclusive(f'cha-solver-failed:{type(e).__name__}')
                continue
            lam = np.asarray(lam, dtype=np.float64)
            if lam.size == 0 or abs(lam.sum() - 1) > 1e-4:
                ctx.inconclusive('cha-weights-off-simplex')
                continue
            cert = R.cert_from_terms(dims, lam, [[a, b] for a, b in zip(ketA, ketB)])
            r = register(R.rebuild(cert), dims, 'CHABoundaryBagging.solve', 'cha-feasible-point', cert)
            if r is not None:
                closed_suite(r, dims)
    # ------------------------------------------------------------------ numerical / shape regimes and less prominent entry points
    elif regime_shard:
        n, reps = shard['n'], shard['reps']
        all_dims = BIP + [EXTRA_DIMS[0]] + MULTI + EXTRA_DIMS[1:]
        # (1) dim tuples in the other order of parties: (4,2) next to (2,4), (3,2,2) / (2,2,3) next to (2,3,2); standard kinds
        for dims in EXTRA_DIMS:
            for it in range(n):
                kind = KINDS[it % len(KINDS)]
                ctx.workload('random' if kind.startswith(('random', 'few', 'full')) else 'corner')
                rho, cert = harness_state(dims, kind)
                if rho is not None:
                    drive_closed(rho, cert, kind in ('random-real', 'basis', 'max-mixed') and it % 2 == 0)
                    if it % 9 == 0:
                        api_surface(rho, dims)
            ctx.hit('shape/party-order-variants')
        # (2) numerical regime: next to I/D, nearly rank-deficient, within rounding distance of a pure product state; every dim tuple
        ctx.workload('corner')
        for dims in all_dims:
            for kind in REGIME_KINDS:
                for _ in range(reps):
                    rho, cert = harness_state(dims, kind)
                    if rho is not None:
                        drive_closed(rho, cert)
                        ctx.hit('regime/' + kind)
        # (3) a dense matrix that equals a certified separable state only up to rounding noise (1e-14..1e-16 per entry, complex, NOT
        # Hermitian): the kind of array every floating-point pipeline hands over. The certificate is verified on the noisy array
        # (1e-12); the label records the noise amplitude (the tolerance of the square-root-type measure is derived from it)
        for dims in all_dims:
            D = int(np.prod(dims))
            for j in range(2 * reps):
                kind = (KINDS + REGIME_KINDS)[(3 * j + len(dims)) % (len(KINDS) + len(REGIME_KINDS))]
                cert = gen_cert(rng, dims, kind)
                amp = 10.0**(-rng.uniform(14, 16))
                noisy = R.rebuild(cert) + (rng.uniform(-1, 1, size=(D, D)) + 1j * rng.uniform(-1, 1, size=(D, D))) * (amp / 2)
                r = register(noisy, dims, 'harness-mixture', kind + ' + non-Hermitian rounding noise', cert, extra={'input_noise': amp})
                if r is not None:
                    closed_suite(r, dims)
                    ctx.hit('regime/rounding-noise')
        # (4) batches with ONE degenerate item (a pure product state = boundary of the state space, a state next to I/D) between generic
        # ones: the contracts judge every item; in addition batched == per item == batch of one
        ctx.workload('realistic')
        for dims in BIP + [EXTRA_DIMS[0]]:
            for _ in range(max(1, reps // 2)):
                sts = [harness_state(dims, k)[0] for k in ('random', 'pure-product', 'random', 'near-max-mixed', 'full-rank')]
                sts = [x for x in sts if x is not None and R.gellmann_norm(x) > 1e-9]
                if len(sts) < 3:
                    continue
                ctx.set_case({'batch': 'one degenerate item between generic ones', 'dims': list(dims), 'items': len(sts)})
                with ctx.guard('get_ppt_boundary'):
                    bl, bu = E.get_ppt_boundary(np.stack(sts), dims)
                    bl, bu = np.asarray(bl, dtype=np.float64), np.asarray(bu, dtype=np.float64)
                    ok = bl.shape == (len(sts),) and bu.shape == (len(sts),)
                    detail = []
                    for i, x in enumerate(sts):
                        l1, u1 = E.get_ppt_boundary(x, dims)
                        l2, u2 = E.get_ppt_boundary(x[None], dims)
                        ok2 = np.shape(l2) == (1,) and np.shape(u2) == (1,)
                        if ok and ok2:
                            for a, b in [(bl[i], l1), (bu[i], u1), (l2[0], l1), (u2[0], u1)]:
                                ok2 = ok2 and bool(abs(float(a) - float(b)) <= 1e-9 * abs(float(b)) + 1e-12)
                        ok = ok and ok2
                        detail.append([float(np.ravel(l1)[0]), float(np.ravel(u1)[0])])
                    ctx.check(ok, 'get_ppt_boundary/batched-differs-from-per-item',
                              'get_ppt_boundary: a batch containing one degenerate item (or a batch of one) differs from the per-item calls',
                              lambda: {'dims': list(dims), 'batched': [bl, bu], 'per_item': detail, 'states': np.stack(sts)},
                              point='batch/one-degenerate-item')
        # (5) pure-state measures on product vectors: tall, wide, a party of dimension 1, float64 / complex128, basis and generic
        for dA, dB in [(1, 3), (3, 1), (2, 2), (2, 3), (3, 2), (3, 3), (2, 4), (4, 2), (3, 4)]:
            for j in range(4 * reps):
                real = j % 3 == 0
                a = R.basis_vector(dA, j % dA) if j % 5 == 0 else R.random_unit(rng, dA, real)
                b = R.basis_vector(dB, j % dB) if j % 7 == 0 else R.random_unit(rng, dB, real)
                psi = np.outer(a, b)
                if real:
                    psi = psi.real.copy()
                if j % 4 == 1:
                    psi = np.asfortranarray(psi)
                ctx.set_case({'pure product vector': [dA, dB], 'dtype': str(psi.dtype), 'c_contiguous': bool(psi.flags.c_contiguous)})
                ctx.case('product-vector', [dA, dB], psi.astype(np.complex128), nontrivial=min(dA, dB) > 1)
                with ctx.guard('get_concurrence_pure'):
                    E.get_concurrence_pure(psi)
                with ctx.guard('get_eof_pure'):
                    E.get_eof_pure(psi) if j % 2 else E.get_eof_pure(psi, eps=1e-10)
        # (6) SDP consumers: the naive extension test (both index kinds) and the measures that vanish on PPT / k-extendible states
        kinds6 = ['random', 'pure-product', 'full-rank', 'near-max-mixed', 'rank-deficient', 'random-real', 'basis', 'dominant-term', 'max-mixed']

        def sdp_call(gname, thunk):
            n0 = len(slog)
            with ctx.guard(gname):
                try:
                    thunk()
                except (TypeError, AssertionError) as e:
                    # np.isinf(None) / 'ree > -1e-4' after a failed or inaccurate solve: the solver, not the criterion
                    if len(slog) > n0 and (slog[-1]['value'] is None or slog[-1]['status'] != 'optimal'):
                        ctx.inconclusive('sdp-status:' + str(slog[-1]['status']))
                        return
                    # numqi's own accuracy guard of the REE programmes (`assert ree > -1e-4` in _sdp_ree_solve): the Pade / square-root
                    # approximation of the matrix logarithm went below zero for this (ill-conditioned) state. The function delivers no
                    # answer at all - it neither accepts nor rejects the state - so the clause "accepts every separable state" is not
                    # decided by this call: inconclusive, counted by reason (see DESIGN 7.2)
                    import traceback as _tb
                    if isinstance(e, AssertionError) and any(fr.name == '_sdp_ree_solve' for fr in _tb.extract_tb(e.__traceback__)):
                        ctx.inconclusive('ree-sdp-own-accuracy-assertion(status=' + (str(slog[-1]['status']) if len(slog) > n0 else 'unknown') + ')')
                        return
                    raise

        # anchor configurations first (maximally mixed and a generic full-rank separable state: fast, accurate solves), so that every SDP
        # consumer is observed on labelled states before the hostile (rank-deficient -> slow SCS fall-back) states can use up the budget
        for dims in [(2, 2), (3, 2), (2, 3)]:
            for kind in ('max-mixed', 'full-rank'):
                rho = harness_state(dims, kind)[0]
                if rho is None:
                    continue
                ctx.set_case(dict(reg.lookup(rho, dims) or {}, state_kind=kind, consumer='naive extension / SDP measures (anchor)'))
                sdp_call('get_ABk_symmetric_extension_ree', lambda: E.get_ABk_symmetric_extension_ree(rho, dims, 2))
                if kind == 'max-mixed':
                    sdp_call('get_ABk_symmetric_extension_ree', lambda: E.get_ABk_symmetric_extension_ree(rho, dims, 1, use_ppt=True))
                    sdp_call('get_ppt_ree', lambda: E.get_ppt_ree(rho, dims[0], dims[1], use_tqdm=False))
                    sdp_call('get_linear_entropy_entanglement_ppt', lambda: E.get_linear_entropy_entanglement_ppt(rho, dims))
                    sdp_call('is_ABk_symmetric_ext_naive', lambda: E.is_ABk_symmetric_ext_naive(rho, dims, 2, index_kind='2d'))
        for di, dims in enumerate([tuple(d) for d in shard['sdp_dims']]):
            for j in range(shard['nsdp']):
                if ctx.time_left() < 10:
                    ctx.inconclusive('sdp-config-skipped-for-time')
                    break
                kind = kinds6[(j + di) % len(kinds6)]
                rho = harness_state(dims, kind)[0]
                if rho is None:
                    continue
                arg = rho.real.copy() if kind in ('random-real', 'basis', 'max-mixed') and j % 2 else rho
                ctx.set_case(dict(reg.lookup(rho, dims) or {}, state_kind=kind, consumer='naive extension / SDP measures'))
                sdp_call('is_ABk_symmetric_ext_naive', lambda: E.is_ABk_symmetric_ext_naive(arg, dims, 2 if (j % 3 or dims != (2, 2)) else 3,
                                                                                            index_kind=['2d', '1d'][j % 2]))
                sdp_call('get_linear_entropy_entanglement_ppt', lambda: E.get_linear_entropy_entanglement_ppt(arg, dims))
                sdp_call('get_ppt_ree', lambda: E.get_ppt_ree(arg, dims[0], dims[1], use_tqdm=False))
                # get_ABk_symmetric_extension_ree: every dims incl. dimA != dimB, use_boson, and use_ppt=True (k=1 only with use_ppt). Two genuine
                # defects found here were repaired in numqi (fix: 47c6b06 wrong index map for dimA != dimB - get_ABk_symmetric_extension_ree(
                # np.eye(6)/6, (3,2), 2) was 0.3526; fix: 662716d use_ppt=True raised TypeError for every input).
                sdp_call('get_ABk_symmetric_extension_ree', lambda: E.get_ABk_symmetric_extension_ree(arg, dims, 2, use_boson=bool(j % 2)))
                if j % 2 == 0:
                    sdp_call('get_ABk_symmetric_extension_ree', lambda: E.get_ABk_symmetric_extension_ree(arg, dims, 1 + (j // 2) % 2, use_ppt=True))
    else:
        raise ValueError(name)

    ctx.extra['labels_issued'] = dict(reg.issued)
    ctx.extra['labels_in_registry'] = len(reg.labels)
    ctx.extra['certificates_rejected'] = reg.rejected
    ctx.extra['reference_min_pt_eigenvalue_over_labelled_states'] = reg.min_pt_eig


# thorough tier: every random shard is run this many times with independent random streams (see vmon/runner.py get_shards)
THOROUGH_REPEAT = 2
