"""C15 - SU(2)/SO(3) conversions are consistent for every rotation, gimbal lock included.

Monitors: contracts on numqi.group.{so3_to_angle, su2_to_angle, angle_to_so3, angle_to_su2, so3_to_su2, su2_to_so3,
get_su2_irrep} and numqi.matrix_space.{get_angular_momentum_op, get_clebsch_gordan_coeffient}. Oracles: the rebuilt
*matrix* (never the angles), the covering map R_ij = Tr(sigma_i U sigma_j U^dagger)/2, the polynomial (Schwinger)
construction of D^j, ladder-operator angular momentum and Racah-formula CG coefficients of vmon/ref/su2.py.
Workloads: Euler grid with beta exactly at / next to the poles and alpha+-gamma in all quadrants, rotations written
down directly as matrices (Rz(4.5), axis turns, the 24 signed permutations and their 48 lifts), Haar-random elements,
batches of shapes (k,), (k,l), (1,), (k,1,l) mixing generic and degenerate members; work-buffer histories (one array object
passed, updated in place by matmul(out=)/assignment/negation/a degenerate rotation, passed again with the same or another j2).
'regime' shard (round-4 lesson): betas between the library threshold and the generic regime (3e-8 .. 1e-2 from either pole), exact
elements known only up to dense rounding noise (1e-15 .. 5e-14) and long products landing on them, |angle| up to 50 on the angle entry of
get_su2_irrep (beta outside [0,pi] included), exactly one degenerate member at each position of a generic batch and the converse, storage
variants (Fortran order, strided / reversed / transposed views, read-only, complex-typed rotation), the zero_eps option (1e-12, 1e-5, 1e-3;
positional and keyword) with tolerances scaled by it, return_matd=True on the matrix entry, results edited in place by the caller then asked
again. Consumers of the CG table (get_irreducible_tensor_operator, get_irreducible_hermitian_matrix_basis, all option combinations) have
their own contracts against the reference ladder operators.
Every contract snapshots its array arguments before the call and judges the result against that snapshot; a per-object
history (previous contents of the same ndarray) names stale answers `*/stale-after-inplace-update`.
"""
import math
import numpy as np

from vmon.ref import su2 as rs

RULE = ('cases = (operation, group element(s) or spin labels): every point of the Euler grid beta in {0, pi, 1e-9, pi-1e-9, '
        '1e-6, pi-1e-6, 1e-4, pi-1e-4, pi/7, pi/2, 2.5} x (alpha+gamma, alpha-gamma) in the 8x8 (thorough 16x16) quadrant/boundary grid, pole '
        'rotations written directly as matrices, all 24 signed permutation matrices of det +1 and all 48 elements of the '
        'binary octahedral group (and all ordered pairs of them), Haar-random elements, mixed batches; j2=0..10; all '
        '(j1,j2) with j1+j2<=4 (quick) / <=6 (thorough). A case is non-trivial when the rotation is not the identity '
        '(|R-1|>1e-6, resp. U != +-1) or, for spin labels, when some j>0; distinct by digest of (operation, matrix bytes). '
        'Histories: (first contents, in-place update, second contents, j2 of first/second call, number of other matrices in between) '
        'on one array object, single and batched. Regime shard: (operation, regime tag, matrix bytes) with the regime one of near-pole beta, dense rounding noise, '
        'long product, large angles, one-degenerate-member position, storage variant, zero_eps value, return_matd on the matrix entry, result-edit history')
EXHAUSTIVE = {'quick': True, 'thorough': True}
EXHAUSTIVE_DOMAINS = {
    'quick': ['all 24 signed 3x3 permutation matrices with det +1 (single calls, one batch, all 576 ordered products)',
              'all 48 elements of the binary octahedral group in SU(2) (all 2304 ordered pairs for R(U1U2) and D^j(U1U2), j2=0..10)',
              'angular momentum j2=0..10 (11)', 'Clebsch-Gordan tables for all 45 pairs (j1d,j2d) with j1d+j2d<=8 and the 13 boundary pairs j1d+j2d=12',
              'Euler grid: 8 pole/near-pole beta values {0, pi, 1e-9, pi-1e-9, 1e-6, pi-1e-6, 1e-4, pi-1e-4} + 3 generic x 64 (alpha+gamma, alpha-gamma) combinations, SO(3) and SU(2) (gamma and gamma+2pi)'],
    'thorough': ['all 24 signed 3x3 permutation matrices with det +1', 'all 48 binary octahedral elements, all 2304 ordered pairs, j2=0..10',
                 'angular momentum j2=0..20 (21)', 'Clebsch-Gordan tables for all 91 pairs (j1d,j2d) with j1d+j2d<=12 (+ 24 larger pairs up to 16)',
                 'Euler grid: 12 pole/near-pole beta values (the 8 of quick + 3e-8, pi-3e-8, 5e-7, pi-5e-7) + 3 generic x 256 (alpha+gamma, alpha-gamma) combinations'],
}
ASSUMPTIONS = [
    'Euler convention z-y-z, R = Rz(a)Ry(b)Rz(g), U = exp(-i a sz/2) exp(-i b sy/2) exp(-i g sz/2), covering map U s_j U^+ = sum_i R_ij s_i: '
    'read off the source of angle_to_su2/angle_to_so3 (the docstrings do not state it) and then measured by the contracts '
    '(angle_to_* vs the reference, cover(angle_to_su2) == angle_to_so3, Euler factorisation)',
    'spin-j basis m=j..-j with Condon-Shortley phases (the Wikipedia tables cited in the source)',
    'library pole threshold zero_eps=1e-7: within it the rebuilt matrix may differ by O(beta) <= 2e-7; decision threshold 1e-6 there, 1e-9 '
    'once the element is further than 1e-5 from a pole',
    'the global sign is free only for so3_to_su2 (documented "ret, -ret"); su2_to_angle documents gamma in (0,4pi), so its round trip and D^j of a '
    'matrix argument are required with the exact sign everywhere, beta=pi included',
    'inputs are float64/complex128 group elements accurate to 1e-12; float32 inputs are not generated',
    'a caller-supplied zero_eps > 1e-7 widens the pole tolerance to 10*zero_eps within 100*zero_eps of a pole (answering with the pole rotation there is '
    'the documented purpose of the option); zero_eps < 1e-7 never tightens it (generic-branch conditioning eps/sin(beta)); empty batches are not generated',
    'get_irreducible_tensor_operator uses T^k_q = (-1)^q x (Condon-Shortley spherical tensor), i.e. [J+-,T_q] = -sqrt(k(k+1)-q(q+-1)) T_{q+-1}, normalised '
    'Tr(T^+T) = 2S+1: measured on the unchanged tree for S_double=1..10; the convention-free clauses ([Jz,T_q]=qT_q, Casimir k(k+1), orthogonality, adjoint) have their own keys',
]
P_LIE = 'numqi.group._lie.'
P_CG = 'numqi.matrix_space._clebsch_gordan.'
DECIDING = [P_LIE + n for n in ('so3_to_angle', 'su2_to_angle', 'angle_to_so3', 'angle_to_su2', 'so3_to_su2', 'su2_to_so3', 'get_su2_irrep')] + [
    P_CG + 'get_angular_momentum_op', P_CG + 'get_clebsch_gordan_coeffient',
    'so3_to_angle@beta=0', 'so3_to_angle@beta=pi', 'so3_to_angle@near-pole', 'so3_to_angle@generic', 'so3_to_angle@mixed-batch',
    'su2_to_angle@beta=0', 'su2_to_angle@beta=pi', 'su2_to_angle@near-pole', 'su2_to_angle@generic', 'su2_to_angle@mixed-batch',
    'su2_to_angle@sign-at-beta-pi', 'history@work-buffer-updated-in-place', 'get_su2_irrep@argument-updated-in-place',
    'su2_to_angle@argument-updated-in-place', 'su2_to_so3@argument-updated-in-place', 'so3_to_angle@argument-updated-in-place',
    'so3_to_su2@argument-updated-in-place', 'get_su2_irrep@angle-array-updated-in-place',
    'get_su2_irrep@pole', 'get_su2_irrep@half-integer', 'irrep/homomorphism', 'su2_to_so3/homomorphism', 'cg/intertwining',
    'get_su2_irrep@matrix-return_matd', 'zero_eps@non-default', 'history@result-edited-then-called-again',
    P_CG + 'get_irreducible_tensor_operator', P_CG + 'get_irreducible_hermitian_matrix_basis']
TECHNIQUE = 'contracts on the real functions + reference-model comparison (runtime monitoring)'

TOL_POLE = 1e-6      # decision threshold at / next to the poles (library threshold zero_eps=1e-7 gives O(beta) differences)
TOL_GEN = 1e-9       # further than POLE_ZONE from a pole
POLE_ZONE = 1e-5
ADMISSIBLE = 1e-12   # inputs must be group elements to this accuracy to be judged
MAX_ELEMENTWISE = 48
# Genuine defect found with this history and repaired in numqi (same class as the cached Gell-Mann / S_n tables of C16 / C14):
# get_clebsch_gordan_coeffient hands out its lru_cached list and writable arrays; a caller who edits the returned table in place
# (t = get_clebsch_gordan_coeffient(1,1); t[0][1] *= 3) gets the edited coefficients from every later call and from
# get_irreducible_tensor_operator / get_irreducible_hermitian_matrix_basis. With the fix reverted cg/orthogonality, cg/completeness,
# cg/intertwining, cg/selection-rule and cg/consumer/tensor-operator/* fire.
CG_TABLE_EDITED_BY_CALLER = True  # the defect was repaired in numqi (fix: 2cb46d5); the history is driven in every run


def shards(tier, seed):
    ret = [{'name': 'grid-so3'}, {'name': 'grid-su2'}, {'name': 'cube'}, {'name': 'random'}, {'name': 'irrep'}, {'name': 'angmom-cg'}, {'name': 'workbuf'}, {'name': 'regime'}]
    if tier == 'thorough':
        ret += [{'name': f'random-{i}', 'part': i} for i in range(1, 5)]
        ret += [{'name': f'irrep-{i}', 'part': i} for i in range(1, 4)]
        ret += [{'name': 'cg-large'}, {'name': 'workbuf-1'}]
    return ret


def _zero_eps(x):
    """the zero_eps option as a float (default when absent / not a positive finite number)."""
    try:
        x = float(x)
    except Exception:
        return 1e-7
    return x if (math.isfinite(x) and x > 0) else 1e-7


def _tol(dist, zero_eps=1e-7):
    """per-element tolerance from the distance of beta to the nearest pole. With the default zero_eps=1e-7: 1e-6 within 1e-5 of a
    pole, 1e-9 outside. A caller-supplied larger threshold widens both in proportion (within zero_eps of a pole the library
    answers with the pole rotation, an O(zero_eps) difference by design); a smaller one never tightens them, because the generic
    branch next to a pole has conditioning eps/sin(beta) (measured 2e-7 at beta=1e-9)."""
    ze = _zero_eps(zero_eps)
    return np.where(np.asarray(dist) < max(POLE_ZONE, 100 * ze), max(TOL_POLE, 10 * ze), TOL_GEN)


def _region(beta):
    """0: at beta=0, 1: at beta=pi (both to 1e-12), 2: near a pole (<1e-3), 3: generic."""
    beta = np.asarray(beta, dtype=np.float64)
    ret = np.full(beta.shape, 3)
    ret[rs.pole_distance(beta) < 1e-3] = 2
    ret[beta <= 1e-12] = 0
    ret[beta >= np.pi - 1e-12] = 1
    return ret


REGION_NAME = ['beta=0', 'beta=pi', 'near-pole', 'generic']


def _pick(n):
    """deterministic subset of range(n) for element-wise re-invocation."""
    if n <= MAX_ELEMENTWISE:
        return list(range(n))
    return sorted(set(np.linspace(0, n - 1, MAX_ELEMENTWISE).astype(int).tolist()))


def _maxerr(a, b):
    """max-abs difference over the trailing two axes (inf when not finite)."""
    with np.errstate(all='ignore'):
        e = np.abs(np.asarray(a, dtype=np.complex128) - np.asarray(b, dtype=np.complex128)).max(axis=(-1, -2))
    return np.where(np.isfinite(e), e, np.inf)


def install(ctx, numqi):
    L = numqi.group._lie
    M = numqi.matrix_space._clebsch_gordan
    o_angle_to_so3 = L.angle_to_so3
    o_angle_to_su2 = L.angle_to_su2
    o_so3_to_angle = L.so3_to_angle
    o_su2_to_angle = L.su2_to_angle
    o_su2_to_so3 = L.su2_to_so3
    o_so3_to_su2 = L.so3_to_su2
    o_irrep = L.get_su2_irrep
    worst = ctx.extra.setdefault('worst_error', {})
    obs = ctx.extra.setdefault('su2_roundtrip_at_beta_pi', {'n': 0, 'sign_flipped': 0})

    def pre_snap(c):
        """copies of the array arguments taken BEFORE the call: every contract judges the result against the contents the
        function was given, whatever happens to the caller's buffer afterwards (or inside the call)."""
        return [np.array(x, copy=True) if isinstance(x, np.ndarray) else x for x in c.args]

    def frozen(c, name, i=0):
        cur = c.args[i]
        snap = c.snap[i] if isinstance(c.snap, list) and len(c.snap) > i else cur
        if isinstance(cur, np.ndarray) and snap is not cur:
            ctx.check(cur.shape == snap.shape and np.array_equal(cur, snap, equal_nan=True), f'{name}/mutates-argument',
                      f'{name} changed its array argument in place', lambda: {'before': snap, 'after': cur})
        return snap

    hist = {}

    def previous(name, obj, snap):
        """history per array OBJECT: the contents the same ndarray had at the previous monitored call of `name`, when they differ
        from the present ones (a work buffer updated in place); the object is held so that its id cannot be reused."""
        if not isinstance(obj, np.ndarray):
            return None
        key = (name, id(obj))
        prev = hist.get(key)
        if len(hist) >= 256 and key not in hist:
            hist.clear()
        hist[key] = (obj, snap)
        if prev is not None and prev[0] is obj and prev[1].shape == snap.shape and not np.array_equal(prev[1], snap, equal_nan=True):
            ctx.hit(f'{name}@argument-updated-in-place')
            return prev[1]
        return None

    def note(name, region, err):
        k = f'{name}[{region}]'
        if err > worst.get(k, -1.0):
            worst[k] = float(err)

    def angles_ok(name, res, shape):
        ok = isinstance(res, tuple) and len(res) == 3 and all(np.shape(x) == shape for x in res)
        ctx.check(ok, f'{name}/batch-shape', f'{name} must return three angle arrays of the batch shape',
                  lambda: {'batch_shape': list(shape), 'got': [list(np.shape(x)) for x in res] if isinstance(res, tuple) else repr(type(res))})
        if not ok:
            return None
        ang = [np.asarray(x, dtype=np.float64).reshape(-1) for x in res]
        fin = all(np.all(np.isfinite(x)) for x in ang)
        ctx.check(fin, f'{name}/finite', f'{name} returned a non-finite angle', lambda: {'angles': ang})
        return ang if fin else None

    # ------------------------------------------------------------------ so3_to_angle
    def post_so3_to_angle(c):
        if c.exc is not None:
            return
        R = frozen(c, 'so3_to_angle')
        if not (isinstance(R, np.ndarray) and R.ndim >= 2 and R.shape[-2:] == (3, 3)):
            return
        shape = R.shape[:-2]
        flat = np.asarray(R).real.reshape(-1, 3, 3).astype(np.float64)
        N = flat.shape[0]
        prev = previous('so3_to_angle', c.args[0], R)
        prevflat = None if prev is None else np.asarray(prev).real.reshape(-1, 3, 3).astype(np.float64)
        ang = angles_ok('so3_to_angle', c.result, shape)
        if ang is None or N == 0:
            return
        adm = rs.so3_defect(flat) <= ADMISSIBLE
        if not adm.all():
            ctx.inconclusive('so3_to_angle: input not in SO(3) to 1e-12', int((~adm).sum()))
        beta = rs.polar_so3(flat)
        reg = _region(beta)
        zero_eps = c.arg(1, 'zero_eps', 1e-7)
        if _zero_eps(zero_eps) != 1e-7:
            ctx.hit('zero_eps@non-default')
        tol = _tol(rs.pole_distance(beta), zero_eps)
        rebuilt = np.asarray(o_angle_to_so3(*ang))
        if rebuilt.shape != flat.shape:
            ctx.check(False, 'so3_to_angle/roundtrip/shape', 'angle_to_so3(*so3_to_angle(R)) has the wrong shape', {'got': rebuilt.shape})
            return
        err = _maxerr(rebuilt, flat)
        for i in range(N):
            if not adm[i]:
                continue
            rn = REGION_NAME[reg[i]]
            ctx.hit('so3_to_angle@' + rn)
            note('so3_roundtrip', rn, err[i])
            stale = prevflat is not None and err[i] > tol[i] and _maxerr(rebuilt[i], prevflat[i]) <= tol[i]
            ctx.check(err[i] <= tol[i], 'so3_to_angle/stale-after-inplace-update' if stale else 'so3_to_angle/roundtrip/' + ('pole' if reg[i] < 2 else rn),
                      'angle_to_so3(*so3_to_angle(R)) ' + ('rebuilds the PREVIOUS contents of the array object, not R' if stale else 'differs from R (' + rn + ')'),
                      lambda i=i: {'R': flat[i], 'angles': [x[i] for x in ang], 'rebuilt': rebuilt[i], 'err': err[i], 'tol': tol[i],
                                   'beta_ref': beta[i], 'batch_shape': list(shape)})
        if N > 1:
            kinds = set(reg[adm].tolist())
            if len(kinds & {0, 1, 2}) >= 1 and 3 in kinds:
                ctx.hit('so3_to_angle@mixed-batch')
            for i in _pick(N):
                if not adm[i]:
                    continue
                try:
                    one = o_so3_to_angle(flat[i], zero_eps)
                    r1 = np.asarray(o_angle_to_so3(*one))
                except Exception as e:  # the batch succeeded, the single call must too
                    ctx.check(False, 'so3_to_angle/batch-vs-elementwise', 'single call raises where the batched call succeeded',
                              {'R': flat[i], 'exception': repr(e)[:300]})
                    continue
                ctx.check(r1.shape == (3, 3) and _maxerr(r1, rebuilt[i]) <= 1e-9 and abs(float(one[1]) - ang[1][i]) <= 1e-9,
                          'so3_to_angle/batch-vs-elementwise', 'batched so3_to_angle differs from the element-wise call (rebuilt matrices / beta compared)',
                          lambda i=i, one=one: {'R': flat[i], 'batched': [x[i] for x in ang], 'single': [float(x) for x in one], 'batch_shape': list(shape)})

    ctx.attach(L, 'so3_to_angle', post=post_so3_to_angle, pre=pre_snap)

    # ------------------------------------------------------------------ su2_to_angle
    def post_su2_to_angle(c):
        if c.exc is not None:
            return
        U = frozen(c, 'su2_to_angle')
        if not (isinstance(U, np.ndarray) and U.ndim >= 2 and U.shape[-2:] == (2, 2)):
            return
        shape = U.shape[:-2]
        flat = np.asarray(U, dtype=np.complex128).reshape(-1, 2, 2)
        N = flat.shape[0]
        prev = previous('su2_to_angle', c.args[0], U)
        prevflat = None if prev is None else np.asarray(prev, dtype=np.complex128).reshape(-1, 2, 2)
        ang = angles_ok('su2_to_angle', c.result, shape)
        if ang is None or N == 0:
            return
        adm = rs.su2_defect(flat) <= ADMISSIBLE
        if not adm.all():
            ctx.inconclusive('su2_to_angle: input not in SU(2) to 1e-12', int((~adm).sum()))
        beta = rs.polar_su2(flat)
        reg = _region(beta)
        zero_eps = c.arg(1, 'zero_eps', 1e-7)
        if _zero_eps(zero_eps) != 1e-7:
            ctx.hit('zero_eps@non-default')
        tol = _tol(rs.pole_distance(beta), zero_eps)
        rebuilt = np.asarray(o_angle_to_su2(*ang))
        if rebuilt.shape != flat.shape:
            ctx.check(False, 'su2_to_angle/roundtrip/shape', 'angle_to_su2(*su2_to_angle(U)) has the wrong shape', {'got': rebuilt.shape})
            return
        err_p = _maxerr(rebuilt, flat)
        err_m = _maxerr(-rebuilt, flat)
        err_s = np.minimum(err_p, err_m)
        at_pi = np.abs(flat[:, 0, 0]) <= 1e-6  # within 2e-6 of beta=pi, where U00 vanishes and only U01 carries the sign of U
        for i in range(N):
            if not adm[i]:
                continue
            rn = REGION_NAME[reg[i]]
            ctx.hit('su2_to_angle@' + rn)
            note('su2_roundtrip_up_to_sign', rn, err_s[i])
            wit = lambda i=i: {'U': flat[i], 'angles': [x[i] for x in ang], 'rebuilt': rebuilt[i], 'err_plus': err_p[i], 'err_minus': err_m[i],
                               'tol': tol[i], 'beta_ref': beta[i], 'batch_shape': list(shape)}
            if prevflat is not None and err_p[i] > tol[i] and _maxerr(rebuilt[i], prevflat[i]) <= tol[i]:
                ctx.check(False, 'su2_to_angle/stale-after-inplace-update', 'angle_to_su2(*su2_to_angle(U)) rebuilds the PREVIOUS contents of the array object, not U', wit)
                continue
            ctx.check(err_s[i] <= tol[i], 'su2_to_angle/roundtrip-up-to-sign/' + ('pole' if reg[i] < 2 else rn),
                      'angle_to_su2(*su2_to_angle(U)) differs from both U and -U (' + rn + ')', wit)
            # gamma is documented in (0,4pi): the rebuilt matrix must be U itself, at and next to beta=pi too. A pure sign flip
            # (|U+U'| small, |U-U'| large) gets its own key, split by where it happens
            note('su2_roundtrip_exact', rn, err_p[i])
            if at_pi[i]:
                ctx.hit('su2_to_angle@sign-at-beta-pi')
                obs['n'] += 1
                obs['sign_flipped'] += int(err_p[i] > tol[i] and err_m[i] <= tol[i])
            ctx.check(err_p[i] <= tol[i] or err_s[i] > tol[i], 'su2_to_angle/roundtrip-sign-at-beta-pi' if at_pi[i] else 'su2_to_angle/roundtrip-sign-branch',
                      'with the returned gamma in (0,4pi) the rebuilt matrix is -U, not U (' + ('at beta=pi' if at_pi[i] else 'away from beta=pi') + ')', wit)
        if N > 1:
            kinds = set(reg[adm].tolist())
            if len(kinds & {0, 1, 2}) >= 1 and 3 in kinds:
                ctx.hit('su2_to_angle@mixed-batch')
            for i in _pick(N):
                if not adm[i]:
                    continue
                try:
                    one = o_su2_to_angle(flat[i], zero_eps)
                    r1 = np.asarray(o_angle_to_su2(*one))
                except Exception as e:
                    ctx.check(False, 'su2_to_angle/batch-vs-elementwise', 'single call raises where the batched call succeeded',
                              {'U': flat[i], 'exception': repr(e)[:300]})
                    continue
                d = _maxerr(r1, rebuilt[i])
                ctx.check(r1.shape == (2, 2) and d <= 1e-9 and abs(float(one[1]) - ang[1][i]) <= 1e-9,
                          'su2_to_angle/batch-vs-elementwise', 'batched su2_to_angle differs from the element-wise call (rebuilt matrices / beta compared)',
                          lambda i=i, one=one: {'U': flat[i], 'batched': [x[i] for x in ang], 'single': [float(x) for x in one], 'batch_shape': list(shape)})

    ctx.attach(L, 'su2_to_angle', post=post_su2_to_angle, pre=pre_snap)

    # ------------------------------------------------------------------ angle_to_so3 / angle_to_su2
    def angle_args(c):
        try:
            a, b, g = [np.asarray(c.arg(i, n), dtype=np.float64) for i, n in enumerate(('alpha', 'beta', 'gamma'))]
            shape = np.broadcast_shapes(a.shape, b.shape, g.shape)
        except Exception:
            return None
        if not all(np.all(np.isfinite(x)) for x in (a, b, g)):
            return None
        return a, b, g, shape

    def post_angle_to(c, name, d, ref, defect):
        if c.exc is not None:
            return
        aa = angle_args(c)
        if aa is None:
            return
        a, b, g, shape = aa
        res = np.asarray(c.result)
        ok = res.shape == shape + (d, d)
        ctx.check(ok, f'{name}/batch-shape', f'{name} must return broadcast_shape+({d},{d})', {'expected': list(shape) + [d, d], 'got': list(res.shape)})
        if not ok or res.size == 0:
            return
        big = max(np.abs(a).max(), np.abs(b).max(), np.abs(g).max())
        tol = 1e-12 * max(1.0, big)
        ctx.check(bool(np.all(defect(res) <= 10 * tol)), f'{name}/in-group', f'{name} result is not in the group (unitary/orthogonal, det 1)',
                  lambda: {'alpha': a, 'beta': b, 'gamma': g, 'defect': float(np.max(defect(res)))})
        A, B, G = [np.broadcast_to(x, shape).reshape(-1) for x in (a, b, g)]
        flat = res.reshape(-1, d, d)
        idx = _pick(flat.shape[0])
        expected = ref(A[idx], B[idx], G[idx])
        err = _maxerr(flat[idx], expected)
        k = int(np.argmax(err))
        note(name + '_vs_reference', 'all', err[k])
        ctx.check(err[k] <= tol, f'{name}/value', f'{name} differs from the z-y-z reference Rz(alpha)Ry(beta)Rz(gamma)',
                  lambda: {'alpha': A[idx[k]], 'beta': B[idx[k]], 'gamma': G[idx[k]], 'got': flat[idx[k]], 'expected': expected[k], 'err': err[k]})

    ctx.attach(L, 'angle_to_so3', post=lambda c: post_angle_to(c, 'angle_to_so3', 3, rs.euler_so3, rs.so3_defect))
    ctx.attach(L, 'angle_to_su2', post=lambda c: post_angle_to(c, 'angle_to_su2', 2, rs.euler_su2, rs.su2_defect))

    # ------------------------------------------------------------------ su2_to_so3
    def post_su2_to_so3(c):
        if c.exc is not None:
            return
        U = frozen(c, 'su2_to_so3')
        if not (isinstance(U, np.ndarray) and U.ndim >= 2 and U.shape[-2:] == (2, 2)):
            return
        shape = U.shape[:-2]
        prev = previous('su2_to_so3', c.args[0], U)
        res = np.asarray(c.result)
        ok = res.shape == shape + (3, 3) and not np.iscomplexobj(res)
        ctx.check(ok, 'su2_to_so3/batch-shape', 'su2_to_so3 must return a real array of shape batch+(3,3)', {'in': list(U.shape), 'out': list(res.shape), 'dtype': str(res.dtype)})
        if not ok or res.size == 0:
            return
        flat = np.asarray(U, dtype=np.complex128).reshape(-1, 2, 2)
        R = res.reshape(-1, 3, 3)
        adm = rs.su2_defect(flat) <= ADMISSIBLE
        if not adm.all():
            ctx.inconclusive('su2_to_so3: input not in SU(2) to 1e-12', int((~adm).sum()))
        if not adm.any():
            return
        prevflat = None if prev is None else np.asarray(prev, dtype=np.complex128).reshape(-1, 2, 2)[adm]
        flat, R = flat[adm], R[adm]
        dfc = rs.so3_defect(R)
        k = int(np.argmax(dfc))
        ctx.check(dfc[k] <= TOL_GEN, 'su2_to_so3/in-SO3', 'su2_to_so3(U) is not orthogonal with determinant +1', lambda: {'U': flat[k], 'R': R[k], 'defect': dfc[k]})
        err = _maxerr(R, rs.cover(flat))
        k = int(np.argmax(err))
        note('su2_to_so3_vs_cover', 'all', err[k])
        stale = prevflat is not None and err[k] > TOL_GEN and _maxerr(R[k], rs.cover(prevflat[k])) <= TOL_GEN
        ctx.check(err[k] <= TOL_GEN, 'su2_to_so3/stale-after-inplace-update' if stale else 'su2_to_so3/value',
                  'su2_to_so3(U) is the image of the PREVIOUS contents of the array object' if stale else 'su2_to_so3(U) differs from R_ij = Tr(sigma_i U sigma_j U^dagger)/2',
                  lambda: {'U': flat[k], 'got': R[k], 'expected': rs.cover(flat[k]), 'err': err[k]})
        idx = _pick(flat.shape[0])
        zero_eps = c.arg(1, 'zero_eps', 1e-7)
        if _zero_eps(zero_eps) != 1e-7:
            ctx.hit('zero_eps@non-default')
        try:
            Rm = np.asarray(o_su2_to_so3(-flat[idx], zero_eps))
            e2 = float(_maxerr(Rm, R[idx]).max())
        except Exception as e:
            Rm, e2 = repr(e)[:200], np.inf
        ctx.check(e2 <= TOL_GEN, 'su2_to_so3/two-to-one', 'su2_to_so3(-U) != su2_to_so3(U)', lambda: {'U': flat[idx[0]], 'err': e2, 'R(-U)': Rm})
        if flat.shape[0] > 1:
            for i in idx:
                try:
                    r1 = np.asarray(o_su2_to_so3(flat[i], zero_eps))
                    good = r1.shape == (3, 3) and _maxerr(r1, R[i]) <= 1e-12
                except Exception as e:
                    r1, good = repr(e)[:200], False
                ctx.check(good, 'su2_to_so3/batch-vs-elementwise', 'batched su2_to_so3 differs from the element-wise call', lambda i=i, r1=r1: {'U': flat[i], 'batched': R[i], 'single': r1})

    ctx.attach(L, 'su2_to_so3', post=post_su2_to_so3, pre=pre_snap)

    # ------------------------------------------------------------------ so3_to_su2
    def post_so3_to_su2(c):
        if c.exc is not None:
            return
        R = frozen(c, 'so3_to_su2')
        if not (isinstance(R, np.ndarray) and R.ndim >= 2 and R.shape[-2:] == (3, 3)):
            return
        shape = R.shape[:-2]
        prev = previous('so3_to_su2', c.args[0], R)
        res = np.asarray(c.result)
        ok = res.shape == shape + (2, 2)
        ctx.check(ok, 'so3_to_su2/batch-shape', 'so3_to_su2 must return shape batch+(2,2)', {'in': list(R.shape), 'out': list(res.shape)})
        if not ok or res.size == 0:
            return
        flat = np.asarray(R).real.reshape(-1, 3, 3).astype(np.float64)
        U = res.reshape(-1, 2, 2)
        adm = rs.so3_defect(flat) <= ADMISSIBLE
        if not adm.all():
            ctx.inconclusive('so3_to_su2: input not in SO(3) to 1e-12', int((~adm).sum()))
        if not adm.any():
            return
        prevflat = None if prev is None else np.asarray(prev).real.reshape(-1, 3, 3).astype(np.float64)[adm]
        flat, U = flat[adm], U[adm]
        dfc = rs.su2_defect(U)
        k = int(np.argmax(dfc))
        ctx.check(dfc[k] <= TOL_GEN, 'so3_to_su2/in-SU2', 'so3_to_su2(R) is not unitary with determinant 1', lambda: {'R': flat[k], 'U': U[k], 'defect': dfc[k]})
        beta = rs.polar_so3(flat)
        zero_eps = c.arg(1, 'zero_eps', 1e-7)
        if _zero_eps(zero_eps) != 1e-7:
            ctx.hit('zero_eps@non-default')
        tol = _tol(rs.pole_distance(beta), zero_eps)
        err = _maxerr(rs.cover(U), flat)
        k = int(np.argmax(err / tol))
        note('so3_to_su2_covers', REGION_NAME[_region(beta[k])], err[k])
        stale = prevflat is not None and not np.all(err <= tol) and bool(np.all(_maxerr(rs.cover(U), prevflat) <= tol))
        ctx.check(bool(np.all(err <= tol)), 'so3_to_su2/stale-after-inplace-update' if stale else 'so3_to_su2/covers-input',
                  'the SU(2) matrix returned covers the PREVIOUS contents of the array object' if stale else 'the SU(2) matrix returned for R does not cover R (reference covering map)',
                  lambda: {'R': flat[k], 'U': U[k], 'cover(U)': rs.cover(U[k]), 'err': err[k], 'tol': tol[k], 'beta_ref': beta[k]})

    ctx.attach(L, 'so3_to_su2', post=post_so3_to_su2, pre=pre_snap)

    # ------------------------------------------------------------------ get_su2_irrep
    def post_irrep(c):
        if c.exc is not None:
            return
        try:
            j2 = int(c.args[0])
        except Exception:
            return
        rest = [frozen(c, 'get_su2_irrep', i) for i in range(1, len(c.args))]
        return_matd = bool(c.kwargs.get('return_matd', False))
        if j2 < 0 or len(rest) not in (1, 3) or j2 > 24:
            return
        res = c.result
        matd = None
        if return_matd:
            ok = isinstance(res, tuple) and len(res) == 2
            ctx.check(ok, 'irrep/return_matd', 'return_matd=True must return (D, d)', {'type': repr(type(res))})
            if not ok:
                return
            res, matd = res
        res = np.asarray(res)
        if len(rest) == 1:
            U = rest[0]
            if not (isinstance(U, np.ndarray) and U.ndim >= 2 and U.shape[-2:] == (2, 2)):
                return
            shape = U.shape[:-2]
            Uf = np.asarray(U, dtype=np.complex128).reshape(-1, 2, 2)
            form = 'matrix'
            prev = previous('get_su2_irrep', c.args[1], U)
        else:
            try:
                a, b, g = [np.asarray(x, dtype=np.float64) for x in rest]
                shape = np.broadcast_shapes(a.shape, b.shape, g.shape)
            except Exception:
                return
            A, B, G = [np.broadcast_to(x, shape).reshape(-1) for x in (a, b, g)]
            if not all(np.all(np.isfinite(x)) for x in (A, B, G)) or max([np.abs(x).max() for x in (A, B, G) if x.size] + [0]) > 1e3:
                return
            Uf = None
            form = 'angles'
            prev = None
            for i in (1, 2, 3):
                if previous(f'get_su2_irrep(angle{i})', c.args[i], rest[i - 1]) is not None:
                    ctx.hit('get_su2_irrep@angle-array-updated-in-place')
        n = j2 + 1
        ok = res.shape == shape + (n, n)
        ctx.check(ok, 'irrep/batch-shape', 'get_su2_irrep must return shape batch+(j2+1,j2+1)', {'j2': j2, 'form': form, 'expected': list(shape) + [n, n], 'got': list(res.shape)})
        if not ok or res.size == 0:
            return
        D = res.reshape(-1, n, n)
        idx = _pick(D.shape[0])
        if form == 'matrix':
            idx = [i for i in idx if rs.su2_defect(Uf[i]) <= ADMISSIBLE]
            if not idx:
                ctx.inconclusive('get_su2_irrep: input not in SU(2) to 1e-12')
                return
            Us = Uf[idx]
        else:
            Us = rs.euler_su2(A[idx], B[idx], G[idx])
        Ds = D[idx]
        beta = rs.polar_su2(Us)
        dist = rs.pole_distance(beta)
        tol = _tol(dist)
        if np.any(dist < 1e-3):
            ctx.hit('get_su2_irrep@pole', int((dist < 1e-3).sum()))
        if j2 % 2:
            ctx.hit('get_su2_irrep@half-integer', len(idx))
        ud = rs.unitary_defect(Ds)
        k = int(np.argmax(ud))
        ctx.check(ud[k] <= TOL_GEN, 'irrep/unitary', 'D^j is not unitary', lambda: {'j2': j2, 'form': form, 'U': Us[k], 'defect': ud[k]})
        ref = rs.irrep_batch(j2, Us)
        err_p = _maxerr(Ds, ref)
        err_m = _maxerr(-Ds, ref)
        err = err_p  # exact, sign included, also for half-integer j of a matrix argument at beta=pi
        k = int(np.argmax(err / tol))
        note(f'irrep_vs_reference_{form}', 'pole-zone' if dist[k] < POLE_ZONE else 'generic', err[k])
        wit = lambda: {'j2': j2, 'form': form, 'U': Us[k], 'angles': None if form == 'matrix' else [A[idx[k]], B[idx[k]], G[idx[k]]], 'err': err[k],
                       'err_if_sign_flipped': err_m[k], 'tol': tol[k], 'beta_ref': beta[k], 'got': Ds[k], 'expected': ref[k]}
        only_sign = bool(np.all(np.minimum(err_p, err_m) <= tol))
        stale = False
        if prev is not None and not np.all(err <= tol):
            prevU = np.asarray(prev, dtype=np.complex128).reshape(-1, 2, 2)[idx]
            bad = err > tol
            stale = bool(np.all(_maxerr(Ds[bad], rs.irrep_batch(j2, prevU[bad])) <= tol[bad]))
        if stale:
            ctx.check(False, 'irrep/stale-after-inplace-update',
                      'get_su2_irrep(j2, U) returns D^j of the contents the same array object had at an earlier call, not of its present contents '
                      '(argument updated in place between the calls)', lambda: {**wit(), 'previous_contents': prevU[k]})
        elif only_sign and not np.all(err <= tol):
            ctx.check(False, 'irrep/value/sign', 'D^j(U) has the opposite sign of the reference for half-integer j', wit)
        else:
            ctx.check(bool(np.all(err <= tol)), 'irrep/value', 'D^j differs from the reference spin-j matrix (polynomial construction)', wit)
        if j2 == 1:
            e1 = _maxerr(Ds, Us)
            ctx.check(bool(np.all(e1 <= tol)), 'irrep/spin-half-is-U', 'D^{1/2}(U) != U', lambda: {'U': Us[int(np.argmax(e1))], 'got': Ds[int(np.argmax(e1))]})
        if j2 == 2:
            try:
                Rn = np.asarray(o_su2_to_so3(Us))
                e2 = _maxerr(rs.spin1_from_so3(Rn), Ds)
                chi = np.abs(np.trace(Rn, axis1=-1, axis2=-2) - np.trace(Ds, axis1=-1, axis2=-2))
            except Exception:
                e2 = chi = np.full(len(idx), np.inf)
            ctx.check(bool(np.all(e2 <= tol) and np.all(chi <= 3 * tol)), 'irrep/spin1-vs-so3', 'D^1(U) is not equivalent to su2_to_so3(U) (spherical basis / characters)',
                      lambda: {'U': Us[int(np.argmax(e2))], 'err': float(np.max(e2)), 'character_diff': float(np.max(chi))})
        if matd is not None:
            md = np.asarray(matd)
            ok = md.shape == res.shape and not np.iscomplexobj(md)
            ctx.check(ok, 'irrep/matd-shape', 'matd must be real with the shape of D', {'got': list(md.shape), 'dtype': str(md.dtype)})
            if ok:
                ctx.check(not np.shares_memory(md, res), 'irrep/matd-aliases-D', 'the returned small-d matrix shares memory with the returned D (editing one edits the other)', {'j2': j2, 'form': form})
            if ok:
                # matrix form: the polar angle is read off the matrix by the reference (|U01|, |U00|; accurate at both poles)
                bref = B[idx] if form == 'angles' else beta
                if form == 'matrix':
                    ctx.hit('get_su2_irrep@matrix-return_matd')
                mds = md.reshape(-1, n, n)[idx]
                refd = rs.irrep_batch(j2, rs.euler_su2(0 * bref, bref, 0 * bref))
                ctx.check(bool(np.all(_maxerr(mds, refd) <= TOL_GEN)), 'irrep/matd-value', 'Wigner small-d matrix differs from D^j(exp(-i beta s_y/2))',
                          lambda: {'j2': j2, 'form': form, 'beta': bref, 'err': float(_maxerr(mds, refd).max())})
        if D.shape[0] > 1 and form == 'matrix':
            for t, i in enumerate(idx[:12]):
                try:
                    d1 = np.asarray(o_irrep(j2, Uf[i]))
                    e = _maxerr(d1, D[i])
                    good = d1.shape == (n, n) and e <= 1e-9
                except Exception as ex:
                    d1, good = repr(ex)[:200], False
                ctx.check(good, 'irrep/batch-vs-elementwise', 'batched get_su2_irrep differs from the element-wise call', lambda i=i, d1=d1: {'j2': j2, 'U': Uf[i], 'single': d1, 'batched': D[i]})

    ctx.attach(L, 'get_su2_irrep', post=post_irrep, pre=pre_snap)

    # ------------------------------------------------------------------ angular momentum
    def post_angmom(c):
        if c.exc is not None:
            return
        try:
            j2 = int(c.arg(0, 'j_double'))
        except Exception:
            return
        if j2 < 0 or j2 > 64:
            return
        res = c.result
        ok = isinstance(res, tuple) and len(res) == 3 and all(np.shape(x) == (j2 + 1, j2 + 1) for x in res)
        ctx.check(ok, 'angmom/shape', 'get_angular_momentum_op must return three (j2+1,j2+1) matrices', {'j2': j2})
        if not ok:
            return
        J = [np.asarray(x, dtype=np.complex128) for x in res]
        tol = 1e-12 * (1 + j2)**2
        ctx.check(all(np.abs(x - x.conj().T).max() <= tol for x in J), 'angmom/hermitian', 'J_k not Hermitian', {'j2': j2})
        for (p, q, r) in ((0, 1, 2), (1, 2, 0), (2, 0, 1)):
            e = np.abs(J[p] @ J[q] - J[q] @ J[p] - 1j * J[r]).max()
            ctx.check(e <= tol, 'angmom/commutator', '[J_a,J_b] != i J_c (cyclic)', {'j2': j2, 'a,b,c': [p, q, r], 'err': float(e)})
        jj = (j2 / 2) * (j2 / 2 + 1)
        e = np.abs(J[0] @ J[0] + J[1] @ J[1] + J[2] @ J[2] - jj * np.eye(j2 + 1)).max()
        ctx.check(e <= tol, 'angmom/casimir', 'Jx^2+Jy^2+Jz^2 != j(j+1)', {'j2': j2, 'err': float(e)})
        ref = rs.angmom(j2)
        e = max(np.abs(x - y).max() for x, y in zip(J, ref))
        ctx.check(e <= tol, 'angmom/convention', 'J_k differ from the ladder-operator reference (basis m=j..-j, Condon-Shortley)', {'j2': j2, 'err': float(e)})

    ctx.attach(M, 'get_angular_momentum_op', post=post_angmom)

    # ------------------------------------------------------------------ Clebsch-Gordan
    def post_cg(c):
        if c.exc is not None:
            return
        try:
            j1d, j2d = int(c.arg(0, 'j1_double')), int(c.arg(1, 'j2_double'))
        except Exception:
            return
        if j1d < 0 or j2d < 0 or j1d + j2d > 20:
            return
        res = c.result
        Js = list(range(abs(j1d - j2d), j1d + j2d + 1, 2))
        ok = isinstance(res, list) and [int(x[0]) for x in res] == Js and all(np.shape(x[1]) == (J + 1, j1d + 1, j2d + 1) for x, J in zip(res, Js))
        ctx.check(ok, 'cg/structure', 'CG table must list J=|j1-j2|..j1+j2 once each with coefficient arrays (2J+1,2j1+1,2j2+1)',
                  lambda: {'j1d': j1d, 'j2d': j2d, 'got': [[int(x[0]), list(np.shape(x[1]))] for x in res] if isinstance(res, list) else repr(type(res))})
        if not ok:
            return
        dim = (j1d + 1) * (j2d + 1)
        W = np.concatenate([np.asarray(x[1], dtype=np.float64).reshape(J + 1, dim) for x, J in zip(res, Js)], axis=0)
        tol = 1e-10
        case = {'j1d': j1d, 'j2d': j2d}
        ctx.check(W.shape == (dim, dim) and np.all(np.isfinite(W)), 'cg/structure', 'CG coefficients not finite / wrong count', case)
        if W.shape != (dim, dim) or not np.all(np.isfinite(W)):
            return
        ctx.check(np.abs(W @ W.T - np.eye(dim)).max() <= tol, 'cg/orthogonality', 'sum_{m1 m2} C^{JM} C^{J\'M\'} != delta', lambda: {**case, 'err': float(np.abs(W @ W.T - np.eye(dim)).max())})
        ctx.check(np.abs(W.T @ W - np.eye(dim)).max() <= tol, 'cg/completeness', 'sum_{JM} C^{JM}_{m1m2} C^{JM}_{m1\'m2\'} != delta', lambda: {**case, 'err': float(np.abs(W.T @ W - np.eye(dim)).max())})
        sel = True
        for (J, C) in res:
            a, b, cc = np.nonzero(np.abs(np.asarray(C)) > tol)
            sel = sel and bool(np.all((J - 2 * a) == (j1d - 2 * b) + (j2d - 2 * cc)))
        ctx.check(sel, 'cg/selection-rule', 'non-zero coefficient with m1+m2 != M', case)
        tot = rs.total_angmom(j1d, j2d)
        blk = rs.block_angmom(Js)
        errs = [float(np.abs(W @ tot[k] @ W.T - blk[k]).max()) for k in range(3)]
        ctx.check(max(errs) <= tol, 'cg/intertwining', 'W (J1+J2)_k W^T != direct sum of J^(J)_k', {**case, 'err_xyz': errs}, point='cg/intertwining')
        ref = rs.cg_table(j1d, j2d)
        e = max(float(np.abs(np.asarray(x[1]) - y[1]).max()) for x, y in zip(res, ref))
        only_block_signs = all(min(np.abs(np.asarray(x[1]) - y[1]).max(), np.abs(np.asarray(x[1]) + y[1]).max()) <= tol for x, y in zip(res, ref))
        ctx.check(e <= tol, 'cg/condon-shortley-sign' if only_block_signs else 'cg/value',
                  'CG coefficients differ from the Racah-formula reference' + (' by the sign of a whole J block' if only_block_signs else ''), {**case, 'err': e})

    ctx.attach(M, 'get_clebsch_gordan_coeffient', post=post_cg)

    # ------------------------------------------------------------------ consumers of the CG table: irreducible tensor operators
    def casimir(J, X):
        return sum(Ja @ (Ja @ X - X @ Ja) - (Ja @ X - X @ Ja) @ Ja for Ja in J)

    def post_tensor_op(c):
        """T^k_q, k=0..2S, q=k..-k on the spin-S space (basis m=S..-S): [Jz,T_q]=q T_q, [J+-,T_q]= s sqrt(k(k+1)-q(q+-1)) T_{q+-1} with
        the library's phase convention s=-1 (its T_q is (-1)^q times the Condon-Shortley one; measured on the unchanged tree and
        recorded in ASSUMPTIONS), T_q^+ = (-1)^q T_{-q}, Tr(T^k_q^+ T^k'_q') = (2S+1) delta delta, T^0_0 = identity. J from the reference."""
        if c.exc is not None:
            return
        try:
            S = int(c.arg(0, 'S_double'))
        except Exception:
            return
        if S < 1 or S > 12:
            return
        res = c.result
        n = S + 1
        ok = isinstance(res, list) and len(res) == n and all(np.shape(x) == (2 * k + 1, n, n) for k, x in enumerate(res))
        ctx.check(ok, 'cg/consumer/tensor-operator/structure', 'get_irreducible_tensor_operator(S) must list k=0..2S with arrays (2k+1,2S+1,2S+1)',
                  lambda: {'S_double': S, 'got': [list(np.shape(x)) for x in res] if isinstance(res, list) else repr(type(res))})
        if not ok:
            return
        T = [np.asarray(x, dtype=np.complex128) for x in res]
        if not all(np.all(np.isfinite(x)) for x in T):
            ctx.check(False, 'cg/consumer/tensor-operator/structure', 'non-finite tensor operator', {'S_double': S})
            return
        J = rs.angmom(S)
        Jp, Jm, Jz = J[0] + 1j * J[1], J[0] - 1j * J[1], J[2]
        tol = 1e-10 * n
        e_z = e_l = e_a = e_c = 0.0
        for k, Tk in enumerate(T):
            for i in range(2 * k + 1):
                q = k - i
                e_z = max(e_z, float(np.abs(Jz @ Tk[i] - Tk[i] @ Jz - q * Tk[i]).max()))
                up = -math.sqrt(k * (k + 1) - q * (q + 1)) * Tk[i - 1] if q < k else 0 * Tk[i]
                dn = -math.sqrt(k * (k + 1) - q * (q - 1)) * Tk[i + 1] if q > -k else 0 * Tk[i]
                e_l = max(e_l, float(np.abs(Jp @ Tk[i] - Tk[i] @ Jp - up).max()), float(np.abs(Jm @ Tk[i] - Tk[i] @ Jm - dn).max()))
                e_a = max(e_a, float(np.abs(Tk[i].conj().T - (-1)**q * Tk[2 * k - i]).max()))
                e_c = max(e_c, float(np.abs(casimir(J, Tk[i]) - k * (k + 1) * Tk[i]).max()))
        case = {'S_double': S}
        ctx.check(e_z <= tol, 'cg/consumer/tensor-operator/jz-weight', '[Jz, T^k_q] != q T^k_q', {**case, 'err': e_z})
        ctx.check(e_c <= tol * n, 'cg/consumer/tensor-operator/rank', 'sum_a [J_a,[J_a,T^k_q]] != k(k+1) T^k_q (component not in the spin-k multiplet)', {**case, 'err': e_c})
        ctx.check(e_l <= tol, 'cg/consumer/tensor-operator/ladder', '[J+-, T^k_q] != -sqrt(k(k+1)-q(q+-1)) T^k_{q+-1} (library phase convention)', {**case, 'err': e_l})
        ctx.check(e_a <= tol, 'cg/consumer/tensor-operator/adjoint', 'T^k_q^dagger != (-1)^q T^k_{-q}', {**case, 'err': e_a})
        allT = np.concatenate([x.reshape(x.shape[0], -1) for x in T], axis=0)
        gram = allT.conj() @ allT.T
        e_g = float(np.abs(gram - n * np.eye(n * n)).max())
        ctx.check(e_g <= tol, 'cg/consumer/tensor-operator/orthogonality', 'Tr(T^k_q^dagger T^k\'_q\') != (2S+1) delta_kk\' delta_qq\'', {**case, 'err': e_g})
        ctx.check(float(np.abs(T[0][0] - np.eye(n)).max()) <= tol, 'cg/consumer/tensor-operator/T00', 'T^0_0 is not the identity', case)

    ctx.attach(M, 'get_irreducible_tensor_operator', post=post_tensor_op)

    def post_herm_basis(c):
        """(cz,cx,cy) resp. their concatenation: Hermitian, mutually orthogonal with Tr(B_i B_j) = S(S+1)(2S+1)/3 (1 with tag_norm: the
        normalisation of the spin operators), identity direction first, cz[k] / the k-th blocks of cx, cy inside the spin-k multiplet,
        and the k=1 block equal to +-(Jz, Jx, Jy) of the reference."""
        if c.exc is not None:
            return
        try:
            S = int(c.arg(0, 'S_double'))
        except Exception:
            return
        if S < 1 or S > 12:
            return
        tag_norm, tag_stack = bool(c.arg(1, 'tag_norm', False)), bool(c.arg(2, 'tag_stack', False))
        n = S + 1
        nxy = S * (S + 1) // 2
        res = c.result
        case = {'S_double': S, 'tag_norm': tag_norm, 'tag_stack': tag_stack}
        if tag_stack:
            ok = np.shape(res) == (n * n, n, n)
        else:
            ok = isinstance(res, tuple) and len(res) == 3 and [np.shape(x) for x in res] == [(n, n, n), (nxy, n, n), (nxy, n, n)]
        ctx.check(ok, 'cg/consumer/hermitian-basis/structure', 'get_irreducible_hermitian_matrix_basis must return (cz[2S+1], cx[S(2S+1)], cy[S(2S+1)]) or their concatenation', case)
        if not ok:
            return
        B = np.asarray(res if tag_stack else np.concatenate([np.asarray(x) for x in res], axis=0), dtype=np.complex128)
        if not np.all(np.isfinite(B)):
            ctx.check(False, 'cg/consumer/hermitian-basis/structure', 'non-finite basis element', case)
            return
        cz, cx, cy = B[:n], B[n:n + nxy], B[n + nxy:]
        tol = 1e-10 * n
        ctx.check(float(np.abs(B - B.conj().transpose(0, 2, 1)).max()) <= tol, 'cg/consumer/hermitian-basis/hermitian', 'basis element not Hermitian', case)
        norm2 = 1.0 if tag_norm else (S / 2) * (S / 2 + 1) * (S + 1) / 3
        Bm = B.reshape(n * n, -1)
        e_g = float(np.abs(Bm.conj() @ Bm.T - norm2 * np.eye(n * n)).max())
        ctx.check(e_g <= tol * max(1.0, norm2), 'cg/consumer/hermitian-basis/orthogonal' + ('-normalised' if tag_norm else ''),
                  'Tr(B_i B_j) != c delta_ij with c = 1 (tag_norm) or S(S+1)(2S+1)/3', {**case, 'err': e_g, 'c': norm2})
        ctx.check(float(np.abs(cz[0] - cz[0][0, 0] * np.eye(n)).max()) <= tol, 'cg/consumer/hermitian-basis/identity-first', 'the first element is not a multiple of the identity', case)
        J = rs.angmom(S)
        e_c, p = 0.0, 0
        for k in range(0, n):
            blk = [cz[k]] + ([] if k == 0 else list(cx[p:p + k]) + list(cy[p:p + k]))
            p += k if k else 0
            for X in blk:
                e_c = max(e_c, float(np.abs(casimir(J, X) - k * (k + 1) * X).max()))
        ctx.check(e_c <= tol * n * max(1.0, math.sqrt(norm2)), 'cg/consumer/hermitian-basis/rank-blocks', 'an element listed for rank k is not in the spin-k multiplet', {**case, 'err': e_c})
        sc = math.sqrt(norm2 / ((S / 2) * (S / 2 + 1) * (S + 1) / 3))
        e1 = max(min(float(np.abs(X - sc * Ja).max()), float(np.abs(X + sc * Ja).max())) for X, Ja in ((cz[1], J[2]), (cx[0], J[0]), (cy[0], J[1])))
        ctx.check(e1 <= tol * max(1.0, math.sqrt(norm2)), 'cg/consumer/hermitian-basis/rank1-is-angular-momentum', 'the rank-1 elements are not +-(Jz, Jx, Jy) (reference ladder operators)', {**case, 'err': e1})

    ctx.attach(M, 'get_irreducible_hermitian_matrix_basis', post=post_herm_basis)


# ============================================================================================ workloads
PI = math.pi
POLE_BETAS = [0.0, PI, 1e-9, PI - 1e-9, 1e-6, PI - 1e-6, 1e-4, PI - 1e-4]
EXTRA_POLE_BETAS = [3e-8, PI - 3e-8, 5e-7, PI - 5e-7]      # inside / just outside the library threshold (thorough)
GENERIC_BETAS = [PI / 7, PI / 2, 2.5]
NEAR_BETAS = [3e-8, 5e-7, 2e-5, 3e-4, 1e-3, 1e-2]           # around zero_eps, around the monitor's pole zone, and the decade above it ('regime' shard)
QUAD = [0.4, 2.0, 3.7, 5.5, 0.0, PI / 2, PI, 3 * PI / 2]   # one value per quadrant + the four quadrant boundaries
QUAD_T = QUAD + [1.0, 2.8, 4.2, 6.0, 1e-9, PI - 1e-9, PI + 1e-9, 2 * PI - 1e-9]


def _sd_grid(tier):
    q = QUAD if tier == 'quick' else QUAD_T
    s, d = np.meshgrid(np.array(q), np.array(q), indexing='ij')
    s, d = s.reshape(-1), d.reshape(-1)
    return (s + d) / 2, (s - d) / 2, s, d      # alpha, gamma, alpha+gamma, alpha-gamma


def _rz3(t):
    c, s = math.cos(t), math.sin(t)
    return np.array([[c, -s, 0.0], [s, c, 0.0], [0.0, 0.0, 1.0]])


def _pole_so3(kind, t):
    """beta=0: Rz(t) with t=alpha+gamma; beta=pi: Rz(alpha) diag(-1,1,-1) Rz(gamma) depends on t=alpha-gamma only. Exact zeros."""
    if kind == 0:
        return _rz3(t)
    c, s = math.cos(t), math.sin(t)
    return np.array([[-c, -s, 0.0], [-s, c, 0.0], [0.0, 0.0, -1.0]])


def _pole_su2(kind, t):
    if kind == 0:
        return np.array([[np.exp(-0.5j * t), 0], [0, np.exp(0.5j * t)]])
    return np.array([[0, -np.exp(-0.5j * t)], [np.exp(0.5j * t), 0]])


def _haar_su2(rng, n):
    q = rng.normal(size=(n, 4))
    q /= np.linalg.norm(q, axis=1, keepdims=True)
    a = q[:, 0] + 1j * q[:, 1]
    b = q[:, 2] + 1j * q[:, 3]
    return np.stack([a, b, -b.conj(), a.conj()], axis=1).reshape(n, 2, 2)


def _assert_selfconsistent():
    assert np.abs(_pole_so3(0, 0.7) - rs.euler_so3(0.3, 0.0, 0.4)).max() < 1e-15
    assert np.abs(_pole_so3(1, 0.7) - rs.euler_so3(1.0, PI, 0.3)).max() < 1e-15
    assert np.abs(_pole_su2(0, 0.7) - rs.euler_su2(0.3, 0.0, 0.4)).max() < 1e-15
    assert np.abs(_pole_su2(1, 0.7) - rs.euler_su2(1.0, PI, 0.3)).max() < 1e-15


_assert_selfconsistent()


def run(ctx, shard):
    import numqi
    install(ctx, numqi)
    G = numqi.group
    MS = numqi.matrix_space
    rng = ctx.rng
    tier = ctx.tier
    name = shard['name']
    state = {'samples': 0}

    def lib(key, f, *args, **kw):
        """one monitored library call; an exception from numqi becomes the violation <key>/raises/<Type>."""
        ret = [None]
        with ctx.guard(key):
            ret[0] = f(*args, **kw)
        return ret[0]

    def so3_case(R, tag, workload):
        R = np.asarray(R)
        flat = R.real.reshape(-1, 3, 3).astype(np.float64)
        nontriv = bool(np.abs(flat - np.eye(3)).max() > 1e-6)
        ctx.set_case({'op': 'so3', 'tag': tag, 'batch_shape': list(R.shape[:-2]), 'first': flat[0]})
        smp = None
        if state['samples'] < 4 and nontriv and rng.random() < 0.05:
            state['samples'] += 1
            smp = {'op': 'so3', 'tag': tag, 'R': flat[0], 'batch_shape': list(R.shape[:-2])}
        ctx.case('so3', tag, R, nontrivial=nontriv, sample=smp)
        ctx.workload(workload)
        lib('so3_to_angle', G.so3_to_angle, R)
        U = lib('so3_to_su2', G.so3_to_su2, R)
        if U is not None and np.shape(U) == R.shape[:-2] + (2, 2):
            back = lib('su2_to_so3', G.su2_to_so3, np.asarray(U))
            if back is not None and np.shape(back) == R.shape:
                tol = _tol(rs.pole_distance(rs.polar_so3(flat))).reshape(R.shape[:-2])
                err = _maxerr(back, R.real.astype(np.float64))
                ctx.check(bool(np.all(err <= tol)), 'so3_to_su2/roundtrip', 'su2_to_so3(so3_to_su2(R)) != R',
                          lambda: {'R': flat[int(np.argmax(err.reshape(-1)))], 'err': float(np.max(err))})

    def su2_case(U, tag, workload, irreps=(1, 2)):
        U = np.asarray(U, dtype=np.complex128)
        flat = U.reshape(-1, 2, 2)
        nontriv = bool(np.minimum(np.abs(flat - np.eye(2)).max(), np.abs(flat + np.eye(2)).max()) > 1e-6)
        ctx.set_case({'op': 'su2', 'tag': tag, 'batch_shape': list(U.shape[:-2]), 'first': flat[0]})
        smp = None
        if state['samples'] < 4 and nontriv and rng.random() < 0.05:
            state['samples'] += 1
            smp = {'op': 'su2', 'tag': tag, 'U': flat[0], 'batch_shape': list(U.shape[:-2])}
        ctx.case('su2', tag, U, nontrivial=nontriv, sample=smp)
        ctx.workload(workload)
        lib('su2_to_angle', G.su2_to_angle, U)
        lib('su2_to_so3', G.su2_to_so3, U)
        for j2 in irreps:
            lib('get_su2_irrep', G.get_su2_irrep, j2, U)

    def homomorphism(U1, U2, j2_list, tag, workload):
        """R(U1U2)=R(U1)R(U2) and D^j(U1U2)=D^j(U1)D^j(U2) (sign +1 for every j, also when a factor sits at beta=pi)."""
        U12 = U1 @ U2
        ctx.set_case({'op': 'homomorphism', 'tag': tag, 'batch_shape': list(U12.shape[:-2]), 'U1': U1.reshape(-1, 2, 2)[0], 'U2': U2.reshape(-1, 2, 2)[0]})
        ctx.case('homomorphism', tag, U1, U2, nontrivial=True)
        ctx.workload(workload)
        R1, R2, R12 = [lib('su2_to_so3', G.su2_to_so3, x) for x in (U1, U2, U12)]
        if all(x is not None and np.shape(x) == U12.shape[:-2] + (3, 3) for x in (R1, R2, R12)):
            err = _maxerr(R12, R1 @ R2)
            ctx.check(bool(np.all(err <= TOL_GEN)), 'su2_to_so3/homomorphism', 'su2_to_so3(U1 U2) != su2_to_so3(U1) su2_to_so3(U2)',
                      lambda: {'err': float(np.max(err)), 'U1': U1.reshape(-1, 2, 2)[int(np.argmax(err.reshape(-1)))], 'U2': U2.reshape(-1, 2, 2)[int(np.argmax(err.reshape(-1)))]},
                      point='su2_to_so3/homomorphism')
        dist = np.minimum.reduce([rs.pole_distance(rs.polar_su2(x)) for x in (U1, U2, U12)])
        tol = 3 * _tol(dist)
        for j2 in j2_list:
            D1, D2, D12 = [lib('get_su2_irrep', G.get_su2_irrep, j2, x) for x in (U1, U2, U12)]
            if not all(x is not None and np.shape(x) == U12.shape[:-2] + (j2 + 1, j2 + 1) for x in (D1, D2, D12)):
                continue
            prod = D1 @ D2
            ep, em = _maxerr(D12, prod), _maxerr(-D12, prod)
            err = ep
            k = int(np.argmax((err / tol).reshape(-1)))
            ctx.check(bool(np.all(err <= tol)), 'irrep/homomorphism', 'D^j(U1 U2) != D^j(U1) D^j(U2) (sign +1 required for every j, factors at beta=pi included)',
                      lambda: {'j2': j2, 'err': float(err.reshape(-1)[k]), 'err_sign_flipped': float(em.reshape(-1)[k]), 'U1': U1.reshape(-1, 2, 2)[k],
                               'U2': U2.reshape(-1, 2, 2)[k]}, point='irrep/homomorphism')

    def angle_consistency(a, b, g, tag):
        """convention-free clauses: cover(angle_to_su2) == angle_to_so3 and the Euler factorisation of both builders."""
        ctx.set_case({'op': 'angle-consistency', 'tag': tag, 'alpha': a, 'beta': b, 'gamma': g})
        R = lib('angle_to_so3', G.angle_to_so3, a, b, g)
        U = lib('angle_to_su2', G.angle_to_su2, a, b, g)
        if R is None or U is None:
            return None, None
        shape = np.broadcast_shapes(np.shape(a), np.shape(b), np.shape(g))
        if np.shape(R) != shape + (3, 3) or np.shape(U) != shape + (2, 2):
            return None, None
        ctx.check(bool(np.all(_maxerr(rs.cover(U), R) <= TOL_GEN)), 'angle/su2-so3-consistency', 'angle_to_su2 does not cover angle_to_so3 for the same angles',
                  lambda: {'alpha': a, 'beta': b, 'gamma': g, 'err': float(_maxerr(rs.cover(U), R).max())})
        z = np.zeros(shape)
        fa, fb, fg = [np.broadcast_to(np.asarray(x, dtype=np.float64), shape) for x in (a, b, g)]
        parts = [lib('angle_to_so3', G.angle_to_so3, *t) for t in ((fa, z, z), (z, fb, z), (z, z, fg))]
        if all(p is not None and np.shape(p) == np.shape(R) for p in parts):
            ctx.check(bool(np.all(_maxerr(parts[0] @ parts[1] @ parts[2], R) <= TOL_GEN)), 'angle_to_so3/euler-factorisation',
                      'angle_to_so3(a,b,g) != angle_to_so3(a,0,0) angle_to_so3(0,b,0) angle_to_so3(0,0,g)', {'alpha': a, 'beta': b, 'gamma': g})
        parts = [lib('angle_to_su2', G.angle_to_su2, *t) for t in ((fa, z, z), (z, fb, z), (z, z, fg))]
        if all(p is not None and np.shape(p) == np.shape(U) for p in parts):
            ctx.check(bool(np.all(_maxerr(parts[0] @ parts[1] @ parts[2], U) <= TOL_GEN)), 'angle_to_su2/euler-factorisation',
                      'angle_to_su2(a,b,g) != angle_to_su2(a,0,0) angle_to_su2(0,b,0) angle_to_su2(0,0,g)', {'alpha': a, 'beta': b, 'gamma': g})
        return np.asarray(R), np.asarray(U)

    def updates(U1, U2, pole):
        """in-place updates of a work buffer holding U1 (same shape as U2, pole): name -> (function(buf), new contents)."""
        def f_matmul(buf):
            np.matmul(U1, U2, out=buf)

        def f_assign(buf):
            buf[:] = U2

        def f_neg(buf):
            buf *= -1

        def f_pole(buf):
            buf[...] = pole

        def f_part(buf):
            if buf.ndim > 2:
                buf[::2] = pole[::2]
            else:
                buf[0, :] = pole[0, :]
                buf[1, :] = pole[1, :]
        return [('matmul(out=buf)', f_matmul, U1 @ U2), ('buf[:]=U2', f_assign, U2), ('buf*=-1', f_neg, -U1), ('buf[...]=degenerate', f_pole, pole),
                ('partial overwrite', f_part, None)]

    def workbuf_su2(j2_pairs, n, tag, interleave=(0,)):
        """histories on ONE array object: fill, call, update in place, call again (same / different j2, single and batched
        buffers, other matrices in between). The contracts judge every call against the contents at call time."""
        for (j2a, j2b) in j2_pairs:
            for batch_shape in ((), (n,), (2, n // 2)):
                m = int(np.prod(batch_shape, dtype=np.int64))
                U1 = _haar_su2(rng, m).reshape(batch_shape + (2, 2))
                U2 = _haar_su2(rng, m).reshape(batch_shape + (2, 2))
                pole = np.stack([_pole_su2(int(k), float(t)) for k, t in zip(rng.integers(0, 2, size=m), rng.uniform(0, 4 * PI, size=m))]).reshape(batch_shape + (2, 2))
                for uname, fupd, newval in updates(U1, U2, pole):
                    for gap in interleave:
                        buf = np.empty(batch_shape + (2, 2), dtype=np.complex128)
                        buf[...] = U1
                        ctx.set_case({'op': 'work-buffer history', 'tag': tag, 'functions': 'get_su2_irrep/su2_to_angle/su2_to_so3', 'j2_first': j2a, 'j2_second': j2b,
                                      'update': uname, 'batch_shape': list(batch_shape), 'other_matrices_in_between': gap, 'first_contents': U1.reshape(-1, 2, 2)[0]})
                        ctx.case('workbuf-su2', tag, j2a, j2b, uname, U1, U2, nontrivial=True)
                        ctx.workload('corner')
                        D_first = lib('get_su2_irrep', G.get_su2_irrep, j2a, buf)
                        lib('su2_to_angle', G.su2_to_angle, buf)
                        lib('su2_to_so3', G.su2_to_so3, buf)
                        for _ in range(gap):
                            lib('get_su2_irrep', G.get_su2_irrep, j2b, _haar_su2(rng, 1)[0])
                        fupd(buf)
                        ctx.hit('history@work-buffer-updated-in-place')
                        D_second = lib('get_su2_irrep', G.get_su2_irrep, j2b, buf)
                        lib('su2_to_angle', G.su2_to_angle, buf)
                        lib('su2_to_so3', G.su2_to_so3, buf)
                        # the relation the caller relies on: D(U1 U2) = D(U1) D(U2), with the product evaluated through the buffer
                        if uname.startswith('matmul') and D_second is not None and np.shape(D_second) == batch_shape + (j2b + 1, j2b + 1):
                            Da = lib('get_su2_irrep', G.get_su2_irrep, j2b, U1.copy())
                            Db = lib('get_su2_irrep', G.get_su2_irrep, j2b, U2.copy())
                            if Da is not None and Db is not None and np.shape(Da) == np.shape(Db) == np.shape(D_second):
                                dist = np.minimum.reduce([rs.pole_distance(rs.polar_su2(x)) for x in (U1, U2, U1 @ U2)])
                                err = _maxerr(D_second, np.asarray(Da) @ np.asarray(Db))
                                ctx.check(bool(np.all(err <= 3 * _tol(dist))), 'irrep/homomorphism-through-work-buffer',
                                          'D^j(buf) != D^j(U1) D^j(U2) after np.matmul(U1, U2, out=buf) on a buffer that was passed to get_su2_irrep before',
                                          {'j2_first': j2a, 'j2_second': j2b, 'batch_shape': list(batch_shape), 'err': float(np.max(err))})
                        # a third call after restoring the first contents must reproduce the first answer
                        buf[...] = U1
                        D_third = lib('get_su2_irrep', G.get_su2_irrep, j2a, buf)
                        if D_first is not None and D_third is not None and np.shape(D_first) == np.shape(D_third):
                            ctx.check(bool(np.all(_maxerr(D_third, D_first) <= 1e-12)), 'irrep/not-a-function-of-contents',
                                      'get_su2_irrep gives different answers for identical contents of the same array object', {'j2': j2a, 'update': uname})

    def workbuf_so3(n, tag):
        for batch_shape in ((), (n,), (2, n // 2)):
            m = int(np.prod(batch_shape, dtype=np.int64))
            R1 = rs.cover(_haar_su2(rng, m)).reshape(batch_shape + (3, 3))
            R2 = rs.cover(_haar_su2(rng, m)).reshape(batch_shape + (3, 3))
            pole = np.stack([_pole_so3(int(k), float(t)) for k, t in zip(rng.integers(0, 2, size=m), rng.uniform(0, 2 * PI, size=m))]).reshape(batch_shape + (3, 3))
            for uname, fupd, _ in updates(R1, R2, pole):
                if uname == 'buf*=-1':
                    continue  # -R is not a rotation
                if uname == 'partial overwrite' and not batch_shape:
                    continue  # row-wise overwrite of a single matrix passes through non-orthogonal states only inside the update; fine, but skip for SO(3)
                for start_at_pole in (False, True):
                    buf = np.empty(batch_shape + (3, 3), dtype=np.float64)
                    buf[...] = pole if start_at_pole else R1
                    ctx.set_case({'op': 'work-buffer history', 'tag': tag, 'functions': 'so3_to_angle/so3_to_su2', 'update': uname, 'batch_shape': list(batch_shape),
                                  'start_at_pole': start_at_pole})
                    ctx.case('workbuf-so3', tag, uname, start_at_pole, R1, R2, nontrivial=True)
                    ctx.workload('corner')
                    lib('so3_to_angle', G.so3_to_angle, buf)
                    lib('so3_to_su2', G.so3_to_su2, buf)
                    if uname.startswith('matmul'):
                        np.matmul(R1, R2, out=buf)
                    else:
                        fupd(buf)
                    ctx.hit('history@work-buffer-updated-in-place')
                    lib('so3_to_angle', G.so3_to_angle, buf)
                    lib('so3_to_su2', G.so3_to_su2, buf)

    def workbuf_angles(j2, tag):
        a = rng.uniform(0, 2 * PI, size=6)
        b = rng.uniform(0, PI, size=6)
        g = rng.uniform(0, 4 * PI, size=6)
        ctx.set_case({'op': 'work-buffer history (angle arrays)', 'tag': tag, 'j2': j2})
        ctx.case('workbuf-angles', tag, j2, a, b, g, nontrivial=True)
        ctx.workload('corner')
        for fn in ('get_su2_irrep', 'angle_to_su2', 'angle_to_so3'):
            f = (lambda *x: G.get_su2_irrep(j2, *x)) if fn == 'get_su2_irrep' else getattr(G, fn)
            lib(fn, f, a, b, g)
        a += 0.37
        b[:] = [0.0, PI, 1e-9, PI - 1e-9, 0.3, 2.0]
        g *= 0.5
        for fn in ('get_su2_irrep', 'angle_to_su2', 'angle_to_so3'):
            f = (lambda *x: G.get_su2_irrep(j2, *x)) if fn == 'get_su2_irrep' else getattr(G, fn)
            lib(fn, f, a, b, g)

    betas = POLE_BETAS + (EXTRA_POLE_BETAS if tier == 'thorough' else [])
    al, ga, ss, dd = _sd_grid(tier)
    ctx.extra['grid'] = {'pole_betas': betas, 'generic_betas': GENERIC_BETAS, 'n_alpha_gamma': int(al.size)}

    # ---------------------------------------------------------------------------------------- grid-so3
    if name == 'grid-so3':
        generic_pool = []
        pole_pool = []
        for beta in betas + GENERIC_BETAS:
            R, _ = angle_consistency(al, np.full(al.shape, beta), ga, f'beta={beta!r}')
            if R is None:
                continue
            (generic_pool if beta in GENERIC_BETAS else pole_pool).append(R)
            so3_case(R, f'grid-batch beta={beta!r}', 'corner' if beta not in GENERIC_BETAS else 'exhaustive')
            so3_case(R.reshape(8, -1, 3, 3), f'grid-batch2d beta={beta!r}', 'corner')
            for i in range(R.shape[0]):
                so3_case(R[i], f'grid beta={beta!r}', 'exhaustive')
        # poles written down directly (exact zeros in the last row/column), Rz(4.5) included
        direct = []
        for kind in (0, 1):
            for t in sorted(set(ss.tolist() + dd.tolist() + [4.5, -4.5, 3.0, -1.0, 2 * PI, 7.5, 1e-9, -1e-9])):
                R = _pole_so3(kind, t)
                direct.append(R)
                so3_case(R, f'direct-pole kind={kind} angle={t!r}', 'corner')
        direct = np.stack(direct)
        pole_pool.append(direct)
        so3_case(direct, 'direct-pole batch', 'corner')
        # mixed batches: generic + at-pole + near-pole members in one call
        generic_all = np.concatenate(generic_pool) if generic_pool else np.zeros((0, 3, 3))
        pole_all = np.concatenate(pole_pool)
        for rep in range(12 if tier == 'quick' else 60):
            k, l = int(rng.integers(2, 7)), int(rng.integers(1, 6))
            n = k * l
            npole = int(rng.integers(1, n)) if n > 1 else 1
            idx_p = rng.integers(0, pole_all.shape[0], size=npole)
            idx_g = rng.integers(0, max(1, generic_all.shape[0]), size=n - npole)
            batch = np.concatenate([pole_all[idx_p], generic_all[idx_g]])[rng.permutation(n)]
            so3_case(batch, 'mixed (k,)', 'corner')
            so3_case(batch.reshape(k, l, 3, 3), 'mixed (k,l)', 'corner')
            so3_case(batch[:1], 'mixed (1,)', 'corner')
            so3_case(batch.reshape(k, 1, l, 3, 3), 'mixed (k,1,l)', 'corner')
        workbuf_so3(4, 'grid-so3 shard')

    # ---------------------------------------------------------------------------------------- grid-su2
    elif name == 'grid-su2':
        generic_pool, pole_pool = [], []
        for beta in betas + GENERIC_BETAS:
            for shift in (0.0, 2 * PI):
                _, U = angle_consistency(al, np.full(al.shape, beta), ga + shift, f'beta={beta!r} gamma+{shift:.2f}')
                if U is None:
                    continue
                (generic_pool if beta in GENERIC_BETAS else pole_pool).append(U)
                su2_case(U, f'grid-batch beta={beta!r} shift={shift:.2f}', 'corner' if beta not in GENERIC_BETAS else 'exhaustive', irreps=(1, 2, 5))
                su2_case(U.reshape(8, -1, 2, 2), f'grid-batch2d beta={beta!r} shift={shift:.2f}', 'corner', irreps=())
                for i in range(U.shape[0]):
                    su2_case(U[i], f'grid beta={beta!r}', 'exhaustive', irreps=(1,) if shift == 0 else (3,))
        direct = []
        for kind in (0, 1):
            for t in sorted(set(ss.tolist() + dd.tolist() + (ss + 2 * PI).tolist() + [4.5, -4.5, 3.0, 9.0, 4 * PI - 1e-9, 1e-9, -1e-9])):
                U = _pole_su2(kind, t)
                direct.append(U)
                su2_case(U, f'direct-pole kind={kind} angle={t!r}', 'corner', irreps=(1, 2))
        direct = np.stack(direct)
        pole_pool.append(direct)
        su2_case(direct, 'direct-pole batch', 'corner', irreps=(1, 4))
        generic_all = np.concatenate(generic_pool) if generic_pool else np.zeros((0, 2, 2), dtype=np.complex128)
        pole_all = np.concatenate(pole_pool)
        for rep in range(12 if tier == 'quick' else 60):
            k, l = int(rng.integers(2, 7)), int(rng.integers(1, 6))
            n = k * l
            npole = int(rng.integers(1, n)) if n > 1 else 1
            idx_p = rng.integers(0, pole_all.shape[0], size=npole)
            idx_g = rng.integers(0, max(1, generic_all.shape[0]), size=n - npole)
            batch = np.concatenate([pole_all[idx_p], generic_all[idx_g]])[rng.permutation(n)]
            su2_case(batch, 'mixed (k,)', 'corner', irreps=(1, 3))
            su2_case(batch.reshape(k, l, 2, 2), 'mixed (k,l)', 'corner', irreps=(2,))
            su2_case(batch[:1], 'mixed (1,)', 'corner', irreps=())
            su2_case(batch.reshape(k, 1, l, 2, 2), 'mixed (k,1,l)', 'corner', irreps=())
        workbuf_su2([(1, 1), (2, 3)], 4, 'grid-su2 shard')

    # ---------------------------------------------------------------------------------------- work-buffer histories
    elif name.startswith('workbuf'):
        reps = 1 if tier == 'quick' else 4
        for rep in range(reps):
            workbuf_su2([(j, j) for j in range(0, 11)], 6, f'workbuf same-j2 rep={rep}', interleave=(0,))
            pairs = [(0, 1), (1, 2), (2, 1), (1, 10), (10, 3), (4, 9), (0, 5), (7, 0)] + [(int(x), int(y)) for x, y in rng.integers(0, 11, size=(4, 2))]
            workbuf_su2(pairs, 6, f'workbuf other-j2 rep={rep}', interleave=(0, 3, 15))
            workbuf_so3(6, f'workbuf rep={rep}')
            for j2 in range(0, 11):
                workbuf_angles(j2, f'workbuf rep={rep}')

    # ---------------------------------------------------------------------------------------- regime (numerical / shape / option / lifecycle regimes)
    elif name == 'regime':
        def tilted(n, eps_choices, kinds=None):
            """pole elements tilted away from the pole by exactly eps about a random axis in the xy plane."""
            kinds = rng.integers(0, 2, size=n) if kinds is None else kinds
            poles_u = np.stack([_pole_su2(int(k), float(t)) for k, t in zip(kinds, rng.uniform(-2 * PI, 4 * PI, size=n))])
            eps = rng.choice(eps_choices, size=n)
            tilt = np.stack([rs.su2_axis((math.cos(p), math.sin(p), 0.0), float(e)) for p, e in zip(rng.uniform(0, 2 * PI, size=n), eps)])
            return tilt @ poles_u

        # (a) betas between the library threshold and the generic regime, on both sides of zero_eps and of the monitor's pole zone
        sub = rng.choice(al.size, size=6, replace=False)
        for b0 in NEAR_BETAS:
            for beta in (b0, PI - b0):
                R, U = angle_consistency(al, np.full(al.shape, beta), ga, f'near-pole beta={beta!r}')
                if R is None:
                    continue
                so3_case(R, f'near-pole batch beta={beta!r}', 'corner')
                su2_case(U, f'near-pole batch beta={beta!r}', 'corner', irreps=(1, 2, 5, 10))
                _, U2 = angle_consistency(al, np.full(al.shape, beta), ga + 2 * PI, f'near-pole beta={beta!r} gamma+2pi')
                if U2 is not None:
                    su2_case(U2, f'near-pole batch beta={beta!r} gamma+2pi', 'corner', irreps=(1, 3))
                for i in sub:
                    so3_case(R[i], f'near-pole beta={beta!r}', 'corner')
                    su2_case(U[i], f'near-pole beta={beta!r}', 'corner', irreps=(1, 4))
        for rep in range(6 if tier == 'quick' else 30):
            n = 12
            near = tilted(n, NEAR_BETAS + [1e-9, 1e-6])
            U = _haar_su2(rng, n)
            su2_case(near, 'tilted-pole batch', 'corner', irreps=(1, 2, int(rng.integers(3, 11))))
            so3_case(rs.cover(near), 'tilted-pole batch', 'corner')
            homomorphism(U, rs.dagger(U) @ near, [1, 2, int(rng.integers(3, 11))], 'haar x (inverse*tilted pole)', 'corner')
            homomorphism(near, tilted(n, NEAR_BETAS), [1, int(rng.integers(2, 11))], 'tilted pole x tilted pole', 'corner')

        # (a) exact objects known only up to rounding noise (dense, not symmetry preserving; inside the admissible 1e-12)
        perms = np.stack(rs.signed_permutations_det1())
        octa = np.stack(rs.binary_octahedral())
        pole3 = np.stack([_pole_so3(k, t) for k in (0, 1) for t in (0.0, 0.4, 2.0, 3.7, 4.5, 5.5, PI, -1.0)])
        pole2 = np.stack([_pole_su2(k, t) for k in (0, 1) for t in (0.0, 0.4, 2.0, 3.7, 4.5, 5.5, PI, 9.0, 4 * PI - 0.3)])
        for noise in (1e-15, 1e-14, 5e-14):
            for tag, X in (('signed-permutation', perms), ('direct-pole', pole3), ('haar', rs.cover(_haar_su2(rng, 8)))):
                Xn = X + noise * rng.uniform(-1, 1, size=X.shape)
                so3_case(Xn, f'{tag} + dense noise {noise:g} batch', 'corner')
                for i in rng.choice(X.shape[0], size=4, replace=False):
                    so3_case(Xn[i], f'{tag} + dense noise {noise:g}', 'corner')
            for tag, X in (('binary-octahedral', octa), ('direct-pole', pole2), ('haar', _haar_su2(rng, 8))):
                Xn = X + noise * (rng.uniform(-1, 1, size=X.shape) + 1j * rng.uniform(-1, 1, size=X.shape))
                su2_case(Xn, f'{tag} + dense noise {noise:g} batch', 'corner', irreps=(1, 2, 7))
                for i in rng.choice(X.shape[0], size=4, replace=False):
                    su2_case(Xn[i], f'{tag} + dense noise {noise:g}', 'corner', irreps=(1, 3))
        # products of many factors (accumulated rounding) that land exactly on a pole / on a cube element
        for rep in range(4 if tier == 'quick' else 20):
            V = _haar_su2(rng, 10)
            acc_u = np.eye(2, dtype=np.complex128)
            for v in V:
                acc_u = acc_u @ v
            for v in V[::-1]:
                acc_u = acc_u @ rs.dagger(v)          # identity up to accumulated rounding
            for tgt in (pole2[int(rng.integers(pole2.shape[0]))], octa[int(rng.integers(48))]):
                su2_case(acc_u @ tgt, 'long product landing on a special element', 'corner', irreps=(1, 2, 9))
                so3_case(rs.cover(acc_u) @ rs.cover(tgt), 'long product landing on a special element', 'corner')

        # (a) angles far outside the principal ranges on the ANGLE entry of get_su2_irrep (beta outside [0,pi] included)
        for j2 in range(0, 11):
            for span in (20.0, 50.0):
                a, b, g = rng.uniform(-span, span, size=(3, 10))
                ctx.set_case({'op': 'irrep angle form, large angles', 'j2': j2, 'span': span})
                ctx.case('irrep-large-angles', j2, a, b, g, nontrivial=j2 > 0)
                ctx.workload('random')
                lib('get_su2_irrep', G.get_su2_irrep, j2, a, b, g)
                lib('get_su2_irrep', G.get_su2_irrep, j2, a + 2 * PI * rng.integers(-3, 4, size=10), b, g + 2 * PI * rng.integers(-3, 4, size=10), return_matd=True)
                lib('get_su2_irrep', G.get_su2_irrep, j2, float(a[0]), float(b[0]) + 2 * PI, float(g[0]))
                lib('get_su2_irrep', G.get_su2_irrep, np.int64(j2), a[:3], -b[:3], g[:3])

        # (b) exactly ONE degenerate member in an otherwise generic batch (every position), and the converse
        for k in (2, 3, 7):
            for pos in sorted({0, k // 2, k - 1}):
                for kind, eps in ((0, 0.0), (1, 0.0), (0, 1e-9), (1, 3e-8)):
                    one = tilted(1, [eps], kinds=[kind])[0]
                    batch = _haar_su2(rng, k)
                    batch[pos] = one
                    su2_case(batch, f'one degenerate member (kind={kind}, eps={eps:g}) at {pos} of {k}', 'corner', irreps=(1, 2))
                    so3_case(rs.cover(batch), f'one degenerate member (kind={kind}, eps={eps:g}) at {pos} of {k}', 'corner')
                    conv = tilted(k, [0.0, 1e-9])
                    conv[pos] = _haar_su2(rng, 1)[0]
                    su2_case(conv, f'one generic member at {pos} of {k} degenerate ones', 'corner', irreps=(1, 3))
                    so3_case(rs.cover(conv), f'one generic member at {pos} of {k} degenerate ones', 'corner')

        # (c) storage variants of one mixed batch: same values must give the same answers
        for rep in range(2 if tier == 'quick' else 8):
            n = 6
            mixed_u = np.where((rng.random(n) < 0.5)[:, None, None], tilted(n, [0.0, 1e-9, 1e-4]), _haar_su2(rng, n))
            mixed_u[0] = _pole_su2(1, float(rng.uniform(0, 4 * PI)))
            mixed_r = rs.cover(mixed_u)
            for base, case_f, kw in ((mixed_u, su2_case, {'irreps': (1, 2)}), (mixed_r, so3_case, {})):
                d = base.shape[-1]
                big = np.zeros((2 * n, d + 2, d + 3), dtype=base.dtype)
                big[::2, 1:d + 1, 2:d + 2] = base
                ro = base.copy()
                ro.setflags(write=False)
                variants = [('fortran-order', np.asfortranarray(base)), ('strided view', big[::2, 1:d + 1, 2:d + 2]), ('reversed view', base[::-1]),
                            ('transposed storage', np.ascontiguousarray(np.swapaxes(base, -1, -2)).swapaxes(-1, -2)), ('read-only', ro),
                            ('single from a strided view', big[2, 1:d + 1, 2:d + 2]), ('(n,1) batch', base.reshape(n, 1, d, d)), ('(1,n) batch', base.reshape(1, n, d, d))]
                if d == 3:
                    variants.append(('complex-typed rotation', base.astype(np.complex128)))
                for vname, arr in variants:
                    case_f(arr, f'storage variant: {vname}', 'corner', **kw)

        # (d) the zero_eps option (positional and keyword) of the four converters
        for ze in (1e-5, 1e-3, 1e-12):
            for rep in range(2 if tier == 'quick' else 6):
                n = 10
                near_eps = [0.0, ze / 10, 3 * ze, 300 * ze] if ze >= 1e-7 else [0.0, 1e-6, 1e-4]
                mixed_u = np.where((rng.random(n) < 0.6)[:, None, None], tilted(n, near_eps), _haar_su2(rng, n))
                mixed_r = rs.cover(mixed_u)
                ctx.set_case({'op': 'zero_eps option', 'zero_eps': ze, 'first': mixed_u[0]})
                ctx.case('zero-eps', ze, mixed_u, nontrivial=True)
                ctx.workload('corner')
                for Rarg, Uarg in ((mixed_r, mixed_u), (mixed_r[0], mixed_u[0]), (mixed_r[1], mixed_u[1])):
                    lib('so3_to_angle', G.so3_to_angle, Rarg, ze)
                    lib('so3_to_angle', G.so3_to_angle, Rarg, zero_eps=ze)
                    lib('su2_to_angle', G.su2_to_angle, Uarg, ze)
                    lib('su2_to_angle', G.su2_to_angle, Uarg, zero_eps=ze)
                    lib('su2_to_so3', G.su2_to_so3, Uarg, zero_eps=ze)
                    V = lib('so3_to_su2', G.so3_to_su2, Rarg, ze)
                    lib('so3_to_su2', G.so3_to_su2, Rarg, zero_eps=ze)
                    if V is not None and np.shape(V) == np.shape(Uarg):
                        back = lib('su2_to_so3', G.su2_to_so3, np.asarray(V), ze)
                        if back is not None and np.shape(back) == np.shape(Rarg):
                            tol = _tol(rs.pole_distance(rs.polar_so3(Rarg)), ze)
                            err = _maxerr(back, Rarg)
                            ctx.check(bool(np.all(err <= tol)), 'so3_to_su2/roundtrip', 'su2_to_so3(so3_to_su2(R)) != R', {'zero_eps': ze, 'err': float(np.max(err))})

        # (d) return_matd=True on the MATRIX entry
        for j2 in range(0, 11):
            n = 8
            mixed_u = np.where((rng.random(n) < 0.5)[:, None, None], tilted(n, [0.0, 1e-9, 1e-6, 1e-4, 1e-2]), _haar_su2(rng, n))
            ctx.set_case({'op': 'irrep matrix form return_matd', 'j2': j2, 'first': mixed_u[0]})
            ctx.case('irrep-matrix-matd', j2, mixed_u, nontrivial=j2 > 0)
            ctx.workload('corner')
            lib('get_su2_irrep', G.get_su2_irrep, j2, mixed_u, return_matd=True)
            lib('get_su2_irrep', G.get_su2_irrep, j2, mixed_u.reshape(2, 4, 2, 2), return_matd=True)
            for i in (0, 1):
                lib('get_su2_irrep', G.get_su2_irrep, j2, mixed_u[i], return_matd=True)

        # (e) the caller edits a returned array in place and calls again with the same arguments
        for rep in range(1 if tier == 'quick' else 3):
            n = 5
            mixed_u = np.where((rng.random(n) < 0.5)[:, None, None], tilted(n, [0.0, 1e-9]), _haar_su2(rng, n))
            mixed_r = rs.cover(mixed_u)
            a, b, g = rng.uniform(0, 2 * PI, size=n), rng.choice([0.0, PI, 0.7, 2.0], size=n), rng.uniform(0, 4 * PI, size=n)
            ctx.set_case({'op': 'edit the result in place, call again', 'first': mixed_u[0]})
            ctx.case('edit-result', mixed_u, a, b, g, nontrivial=True)
            ctx.workload('corner')
            probes = [('angle_to_su2', G.angle_to_su2, (a, b, g), {}), ('angle_to_so3', G.angle_to_so3, (a, b, g), {}),
                      ('su2_to_angle', G.su2_to_angle, (mixed_u,), {}), ('so3_to_angle', G.so3_to_angle, (mixed_r,), {}),
                      ('su2_to_so3', G.su2_to_so3, (mixed_u,), {}), ('so3_to_su2', G.so3_to_su2, (mixed_r,), {})]
            for j2 in (0, 1, 2, 5, 10):
                probes += [('get_su2_irrep', G.get_su2_irrep, (j2, mixed_u), {}), ('get_su2_irrep', G.get_su2_irrep, (j2, mixed_u), {'return_matd': True}),
                           ('get_su2_irrep', G.get_su2_irrep, (j2, a, b, g), {'return_matd': True}), ('get_su2_irrep', G.get_su2_irrep, (j2, mixed_u[0]), {}),
                           ('get_angular_momentum_op', MS.get_angular_momentum_op, (j2,), {})]
            for key, f, args, kw in probes:
                with ctx.guard(key):
                    ctx.history_probe(key, f, *args, **kw)
                ctx.hit('history@result-edited-then-called-again')

    # ---------------------------------------------------------------------------------------- cube (exhaustive finite subgroups)
    elif name == 'cube':
        perms = rs.signed_permutations_det1()
        P = np.stack(perms)
        for m in perms:
            so3_case(m, 'signed-permutation', 'exhaustive')
        so3_case(P, 'signed-permutation batch(24,)', 'exhaustive')
        so3_case(P.reshape(4, 6, 3, 3), 'signed-permutation batch(4,6)', 'exhaustive')
        so3_case(P.astype(np.int64), 'signed-permutation batch int64', 'corner')
        # all ordered products: so3_to_su2 is a homomorphism up to the sign of the lift
        P1 = np.repeat(P, 24, axis=0)
        P2 = np.tile(P, (24, 1, 1))
        ctx.set_case({'op': 'so3_to_su2 on all ordered pairs of signed permutations'})
        ctx.case('cube-so3-pairs', nontrivial=True)
        ctx.workload('exhaustive')
        V1, V2, V12 = [lib('so3_to_su2', G.so3_to_su2, x) for x in (P1, P2, P1 @ P2)]
        if all(x is not None and np.shape(x) == (576, 2, 2) for x in (V1, V2, V12)):
            err = np.minimum(_maxerr(V12, V1 @ V2), _maxerr(-V12, V1 @ V2))
            k = int(np.argmax(err))
            ctx.check(err[k] <= TOL_GEN, 'so3_to_su2/homomorphism-up-to-sign', 'so3_to_su2(R1 R2) != +-so3_to_su2(R1) so3_to_su2(R2)', {'R1': P1[k], 'R2': P2[k], 'err': err[k]})
        octa = rs.binary_octahedral()
        O = np.stack(octa)
        for u in octa:
            su2_case(u, 'binary-octahedral', 'exhaustive', irreps=(1, 2, 3))
        su2_case(O, 'binary-octahedral batch(48,)', 'exhaustive', irreps=tuple(range(0, 11)))
        su2_case(O.reshape(6, 8, 2, 2), 'binary-octahedral batch(6,8)', 'exhaustive', irreps=(1, 2))
        img = lib('su2_to_so3', G.su2_to_so3, O)
        if img is not None and np.shape(img) == (48, 3, 3):
            counts = [int(sum(np.abs(img[i] - m).max() < 1e-9 for i in range(48))) for m in perms]
            ctx.check(counts == [2] * 24, 'su2_to_so3/two-to-one-on-cube', 'the 48 binary octahedral elements must map 2:1 onto the 24 signed permutations', {'counts': counts})
        O1 = np.repeat(O, 48, axis=0)
        O2 = np.tile(O, (48, 1, 1))
        homomorphism(O1, O2, list(range(0, 11)), 'all ordered pairs of the binary octahedral group', 'exhaustive')
        # axis turns by multiples of pi/4 and odd angles, as matrices
        for ax in ('x', 'y', 'z', (0, 0, -1.0), (-1.0, 0, 0), (1.0, 1.0, 0), (1.0, 1.0, 1.0)):
            for th in [k * PI / 4 for k in range(-8, 9)] + [4.5, -4.5, 1e-9, PI - 1e-9, PI + 1e-9, 2 * PI - 1e-9]:
                so3_case(rs.rot3(ax, th), f'axis-turn axis={ax} theta={th!r}', 'corner')
                su2_case(rs.su2_axis(ax, th), f'axis-turn axis={ax} theta={th!r}', 'corner', irreps=(1, 2, 7))
                su2_case(rs.su2_axis(ax, th + 2 * PI), f'axis-turn axis={ax} theta={th!r}+2pi', 'corner', irreps=(1,))

    # ---------------------------------------------------------------------------------------- random
    elif name.startswith('random'):
        nrep = 40 if tier == 'quick' else 150
        for rep in range(nrep):
            n = int(rng.integers(1, 40))
            U = _haar_su2(rng, n)
            R = rs.cover(U)
            su2_case(U, 'haar batch', 'random', irreps=(1, int(rng.integers(0, 11))))
            so3_case(R, 'haar batch', 'random')
            su2_case(U[0], 'haar single', 'random', irreps=(int(rng.integers(0, 11)),))
            so3_case(R[0], 'haar single', 'random')
            # hostile mixtures: Haar members multiplied into / next to pole elements
            kinds = rng.integers(0, 2, size=n)
            ts = rng.uniform(-2 * PI, 4 * PI, size=n)
            poles_u = np.stack([_pole_su2(int(k), float(t)) for k, t in zip(kinds, ts)])
            eps = rng.choice([0.0, 1e-9, 3e-8, 1e-6, 1e-4], size=n)
            tilt = np.stack([rs.su2_axis((math.cos(p), math.sin(p), 0.0), float(e)) for p, e in zip(rng.uniform(0, 2 * PI, size=n), eps)])
            near = tilt @ poles_u
            mask = rng.random(n) < 0.5
            mixed_u = np.where(mask[:, None, None], near, U)
            su2_case(mixed_u, 'haar+pole mixed batch', 'corner', irreps=(1, 2))
            so3_case(rs.cover(mixed_u), 'haar+pole mixed batch', 'corner')
            if n % 2 == 0 and n >= 4:
                su2_case(mixed_u.reshape(2, n // 2, 2, 2), 'haar+pole mixed batch (2,l)', 'corner', irreps=())
                so3_case(rs.cover(mixed_u).reshape(n // 2, 2, 3, 3), 'haar+pole mixed batch (k,2)', 'corner')
            # products landing on a pole: U2 = U1^-1 * pole element
            U2 = rs.dagger(U) @ near
            homomorphism(U, U2, [1, 2, int(rng.integers(3, 11))], 'haar x (inverse*pole)', 'corner')
            homomorphism(U, _haar_su2(rng, n), [1, 2, int(rng.integers(3, 11))], 'haar x haar', 'random')
            # hostile angles for the builders: large, negative, beta outside [0,pi]
            a, b, g = rng.uniform(-50, 50, size=(3, n))
            Rb, Ub = angle_consistency(a, b, g, 'large angles')
            if Rb is not None:
                so3_case(Rb, 'large-angle batch', 'random')
                su2_case(Ub, 'large-angle batch', 'random', irreps=(1,))
            angle_consistency(float(a[0]), float(b[0]), float(g[0]), 'scalar angles')
            angle_consistency(a[:, None], b[None, :3], 0.25, 'broadcast (n,1),(1,3),()')
        # the library's own generator (realistic), seeded
        for rep in range(6 if tier == 'quick' else 30):
            sd = int(rng.integers(2**31))
            ctx.set_case({'op': 'rand_special_orthogonal_matrix', 'seed': sd})
            Rr = lib('rand_so3', numqi.random.rand_special_orthogonal_matrix, 3, batch_size=23, tag_complex=False, seed=sd)
            Ur = lib('rand_su2', numqi.random.rand_special_orthogonal_matrix, 2, batch_size=23, tag_complex=True, seed=sd)
            if Rr is not None:
                so3_case(np.asarray(Rr), 'numqi.random SO(3)', 'realistic')
            if Ur is not None:
                su2_case(np.asarray(Ur), 'numqi.random SU(2)', 'realistic', irreps=(1, 4, 9))

    # ---------------------------------------------------------------------------------------- irrep
    elif name.startswith('irrep'):
        import scipy.linalg
        j2_all = list(range(0, 11))
        part = shard.get('part', 0)
        for j2 in j2_all:
            ctx.set_case({'op': 'irrep', 'j2': j2})
            J = lib('get_angular_momentum_op', MS.get_angular_momentum_op, j2)
            # angle form on the pole grid (gamma in [0,4pi)), scalars, broadcasting, return_matd
            sub = rng.choice(al.size, size=min(al.size, 24), replace=False)
            for beta in betas + GENERIC_BETAS:
                for shift in (0.0, 2 * PI):
                    ctx.case('irrep-angles', j2, beta, shift, nontrivial=j2 > 0)
                    ctx.workload('corner' if beta not in GENERIC_BETAS else 'exhaustive')
                    lib('get_su2_irrep', G.get_su2_irrep, j2, al[sub], np.full(sub.shape, beta), ga[sub] + shift)
                lib('get_su2_irrep', G.get_su2_irrep, j2, float(al[sub[0]]), beta, float(ga[sub[0]]), return_matd=True)
            bb = rng.uniform(0, PI, size=5)
            ret = lib('get_su2_irrep', G.get_su2_irrep, j2, rng.uniform(0, 2 * PI, size=(3, 1)), bb, 0.7, return_matd=True)
            ret = lib('get_su2_irrep', G.get_su2_irrep, j2, np.zeros(5), bb, np.zeros(5), return_matd=True)
            if isinstance(ret, tuple) and len(ret) == 2 and np.shape(ret[0]) == np.shape(ret[1]) == (5, j2 + 1, j2 + 1):
                ctx.check(np.abs(np.asarray(ret[0]) - np.asarray(ret[1])).max() <= 1e-12, 'irrep/matd-is-D(0,beta,0)', 'D(0,beta,0) must equal the returned small-d matrix', {'j2': j2})
            # matrix form: Haar + pole + near-pole members
            n = 16 if tier == 'quick' else 40
            U = _haar_su2(rng, n)
            kinds = rng.integers(0, 2, size=n)
            poles_u = np.stack([_pole_su2(int(k), float(t)) for k, t in zip(kinds, rng.uniform(0, 4 * PI, size=n))])
            eps = rng.choice([0.0, 1e-9, 1e-6, 1e-4], size=n)
            near = np.stack([rs.su2_axis((math.cos(p), math.sin(p), 0.0), float(e)) for p, e in zip(rng.uniform(0, 2 * PI, size=n), eps)]) @ poles_u
            mixed = np.where((rng.random(n) < 0.5)[:, None, None], near, U)
            su2_case(mixed, f'irrep mixed batch j2={j2}', 'corner', irreps=(j2,))
            su2_case(mixed.reshape(2, n // 2, 2, 2), f'irrep mixed batch (2,l) j2={j2}', 'corner', irreps=(j2,))
            for i in range(4):
                su2_case(near[i], f'irrep pole single j2={j2}', 'corner', irreps=(j2,))
                su2_case(U[i], f'irrep haar single j2={j2}', 'random', irreps=(j2,))
            homomorphism(U, _haar_su2(rng, n), [j2], f'irrep haar pairs j2={j2}', 'random')
            homomorphism(U, rs.dagger(U) @ near, [j2], f'irrep product on a pole j2={j2}', 'corner')
            homomorphism(near, _haar_su2(rng, n), [j2], f'irrep pole x haar j2={j2}', 'corner')
            workbuf_su2([(j2, j2), (int(rng.integers(0, 11)), j2)], 4, f'irrep shard j2={j2}')
            workbuf_angles(j2, f'irrep shard j2={j2}')
            # the representation is generated by the library's own angular momentum operators
            if J is not None and isinstance(J, tuple) and len(J) == 3 and all(np.shape(x) == (j2 + 1, j2 + 1) for x in J):
                for k, ax in enumerate('xyz'):
                    for th in [0.3, -2.2, PI, 4.5, 2 * PI + 0.4] + rng.uniform(-4 * PI, 4 * PI, size=2).tolist():
                        Uax = rs.su2_axis(ax, float(th))
                        D = lib('get_su2_irrep', G.get_su2_irrep, j2, Uax)
                        if D is None or np.shape(D) != (j2 + 1, j2 + 1):
                            continue
                        expect = scipy.linalg.expm(-1j * float(th) * np.asarray(J[k], dtype=np.complex128))
                        e = _maxerr(D, expect)
                        ctx.check(e <= TOL_POLE if rs.pole_distance(rs.polar_su2(Uax)) < POLE_ZONE else e <= TOL_GEN, 'irrep/generated-by-J',
                                  'D^j(exp(-i theta s_k/2)) != exp(-i theta J_k) with J_k = get_angular_momentum_op',
                                  {'j2': j2, 'axis': ax, 'theta': float(th), 'err': float(e)})
        ctx.extra['irrep_part'] = part

    # ---------------------------------------------------------------------------------------- angular momentum + CG
    elif name in ('angmom-cg', 'cg-large'):
        if name == 'angmom-cg':
            for j2 in range(0, 11 if tier == 'quick' else 21):
                ctx.set_case({'op': 'angular-momentum', 'j2': j2})
                ctx.case('angmom', j2, nontrivial=j2 > 0)
                ctx.workload('exhaustive')
                lib('get_angular_momentum_op', MS.get_angular_momentum_op, j2)
            smax = 8 if tier == 'quick' else 12
            pairs = [(a, s - a) for s in range(0, smax + 1) for a in range(0, s + 1)]
            if tier == 'quick':
                pairs += [(a, 12 - a) for a in range(0, 13)]   # the boundary j1+j2=6 of the quantified range (all of it in thorough)
            wl = 'exhaustive'
        else:
            pairs = [(a, s - a) for s in (13, 14, 16) for a in range(0, s + 1, 2)]
            wl = 'corner'
        ctx.extra['cg_pairs'] = len(pairs)
        for (j1d, j2d) in pairs:
            ctx.set_case({'op': 'clebsch-gordan', 'j1d': j1d, 'j2d': j2d})
            ctx.case('cg', j1d, j2d, nontrivial=(j1d + j2d) > 0, sample={'op': 'clebsch-gordan', 'j1_double': j1d, 'j2_double': j2d} if (j1d, j2d) in ((3, 2), (4, 4)) else None)
            ctx.workload(wl)
            t1 = lib('get_clebsch_gordan_coeffient', MS.get_clebsch_gordan_coeffient, j1d, j2d)
            t2 = lib('get_clebsch_gordan_coeffient', MS.get_clebsch_gordan_coeffient, j2d, j1d)
            # exchange symmetry <j1 m1 j2 m2|JM> = (-1)^(j1+j2-J) <j2 m2 j1 m1|JM>
            if isinstance(t1, list) and isinstance(t2, list) and len(t1) == len(t2):
                good = True
                for (Ja, Ca), (Jb, Cb) in zip(t1, t2):
                    sgn = (-1)**((j1d + j2d - Ja) // 2)
                    good = good and Ja == Jb and np.shape(Ca) == np.shape(np.transpose(Cb, (0, 2, 1))) and np.abs(np.asarray(Ca) - sgn * np.transpose(Cb, (0, 2, 1))).max() <= 1e-10
                ctx.check(good, 'cg/exchange-symmetry', 'C(j1 m1 j2 m2|JM) != (-1)^(j1+j2-J) C(j2 m2 j1 m1|JM)', {'j1d': j1d, 'j2d': j2d})
        if name == 'angmom-cg':
            # integer types other than the Python int
            for (x, y) in ((np.int64(3), np.int64(2)), (np.int32(2), 5), (4, np.int64(4))):
                ctx.set_case({'op': 'clebsch-gordan numpy integer arguments', 'j1d': int(x), 'j2d': int(y)})
                lib('get_clebsch_gordan_coeffient', MS.get_clebsch_gordan_coeffient, x, y)
                lib('get_angular_momentum_op', MS.get_angular_momentum_op, x)
            # the library's own consumers of the CG table (realistic): irreducible tensor operators / Hermitian bases, every option
            for S in range(1, 7 if tier == 'quick' else 11):
                ctx.set_case({'op': 'irreducible tensor operator', 'S_double': S})
                ctx.case('tensor-op', S, nontrivial=True)
                ctx.workload('realistic')
                T = lib('get_irreducible_tensor_operator', MS.get_irreducible_tensor_operator, S)
                for tn in (False, True):
                    for ts in (False, True):
                        lib('get_irreducible_hermitian_matrix_basis', MS.get_irreducible_hermitian_matrix_basis, S, tag_norm=tn, tag_stack=ts)
                lib('get_irreducible_hermitian_matrix_basis', MS.get_irreducible_hermitian_matrix_basis, S)
                lib('get_irreducible_hermitian_matrix_basis', MS.get_irreducible_hermitian_matrix_basis, S, True, True)
                # lifecycle: the consumers' results edited in place by the caller, then everything asked again (the table they are built from included)
                for key, f, args, kw in (('get_irreducible_tensor_operator', MS.get_irreducible_tensor_operator, (S,), {}),
                                         ('get_irreducible_hermitian_matrix_basis', MS.get_irreducible_hermitian_matrix_basis, (S,), {'tag_norm': True}),
                                         ('get_irreducible_hermitian_matrix_basis', MS.get_irreducible_hermitian_matrix_basis, (S,), {'tag_stack': True})):
                    with ctx.guard(key):
                        ctx.history_probe(key, f, *args, **kw)
                    ctx.hit('history@result-edited-then-called-again')
                lib('get_clebsch_gordan_coeffient', MS.get_clebsch_gordan_coeffient, S, S)
                if CG_TABLE_EDITED_BY_CALLER:
                    with ctx.guard('get_clebsch_gordan_coeffient'):
                        ctx.history_probe('get_clebsch_gordan_coeffient', MS.get_clebsch_gordan_coeffient, S, S)
                    lib('get_irreducible_tensor_operator', MS.get_irreducible_tensor_operator, S)
                    M_ = numqi.matrix_space._clebsch_gordan
                    ctx.orig(M_._get_clebsch_gordan_coeffient_cache).cache_clear()   # do not let the edited table leak into the following cases
                B = lib('get_irreducible_hermitian_matrix_basis', MS.get_irreducible_hermitian_matrix_basis, S, tag_norm=True, tag_stack=True)
                if B is not None and np.shape(B) == ((S + 1)**2, S + 1, S + 1):
                    Bm = np.asarray(B).reshape((S + 1)**2, -1)
                    ctx.check(np.abs(Bm.conj() @ Bm.T - np.eye((S + 1)**2)).max() <= 1e-10, 'cg/consumer/hermitian-basis-orthonormal',
                              'get_irreducible_hermitian_matrix_basis (built from the CG table) is not orthonormal', {'S_double': S})


# thorough tier: every random shard is run this many times with independent random streams (see vmon/runner.py get_shards)
THOROUGH_REPEAT = 4
