"""C13 - two-qubit measures agree with each other; the convex-roof ansatz bounds them from above.

Monitors (attached to the real numqi callables):
  * get_concurrence_2qubit / get_eof_2qubit / get_gme_2qubit: finite, inside their range, equal to the reference's Wootters
    value (vmon/ref/twoqubit.py: singular values of A^T (Y(x)Y) A, own spin flip), related to each other by the defining
    formulas EOF = h((1+sqrt(1-C^2))/2), GME = (1-sqrt(1-C^2))/2 (recomputed with xlogy), invariant under random local
    unitaries (re-invocation of the unwrapped original), equal to the pure-state formulas on rank-one inputs, and non-zero
    exactly when the reference's explicit partial transpose has a negative eigenvalue (dead zone skipped);
  * get_concurrence_pure / get_eof_pure: equal to the Schmidt-coefficient formulas (SVD);
  * get_negativity: equal to the sum of |negative eigenvalues| of the reference's partial transpose;
  * forward() of EntanglementFormationModel, ConcurrenceModel, DensityMatrixGMEModel, DensityMatrixLinearEntropyModel with
    the density matrix given to set_density_matrix kept as ghost state: at EVERY parameter value seen (random scales
    0.1/1/10 and whole L-BFGS trajectories, ensemble sizes rank..8) the ensemble read back from the model (Stiefel point x
    stored square root) is a genuine decomposition of the ghost state, the loss is the ensemble average of the pure-state
    measure recomputed by the reference, and on two qubits loss >= closed form - 1e-7.
"""
import math
import warnings

import numpy as np

from vmon.core import to_numpy
from vmon.ref import twoqubit as T2
from vmon.ref import sepcert as RS
from vmon.props.c05 import gen_cert

RULE = ('measure cases = two-qubit density matrices: random of rank 1..4, rank-deficient mixtures of entangled pure states, '
        'Bell-diagonal (incl. largest weight exactly 1/2), X-states, Werner / isotropic states within 1e-3..1e-10 of the '
        'separability threshold on both sides, separable mixtures, pure product states, locally rotated Bell states, random pure '
        'states; (dA,dB) pure states for the pure-state formulas and (2,3),(3,2),(3,3) states for the negativity. Model cases = '
        '(model class, state, rank, ensemble size rank..8, Stiefel method, parameter vector): random parameters of scale '
        '0.1/1/10 and every iterate of L-BFGS runs. A measure case is non-trivial when the state is neither maximally mixed nor '
        'diagonal (largest off-diagonal modulus > 1e-6); a model case is non-trivial when moreover the state is entangled or '
        'the ensemble has more members than the rank. Distinct by digest of (kind, matrix bytes[, model configuration, theta]). '
        'Inputs come as complex128 and as float64 arrays (real states: A A^T/tr, real pure states, real separable mixtures), '
        'C-contiguous, Fortran-ordered and as strided views; the functions are called in a different order for every state; '
        'work-buffer histories refill / update ONE array in place between evaluations (and refill the array handed to '
        'set_density_matrix); model objects are re-used across states and a few configurations are replayed in reversed order. '
        'Exact special states (exactly Bell, computational / |+>|+> product, maximally mixed, classically correlated, separable '
        'boundary) are driven through the measures and the models; functions and model constructors are also called through '
        'every documented form (keyword, positional in docstring order, defaults explicit / left out, numpy ints, dim as list / ndarray).')
EXHAUSTIVE = {'quick': False, 'thorough': False}
EXHAUSTIVE_DOMAINS = {'quick': [], 'thorough': []}
ASSUMPTIONS = [
    'natural logarithm (EOF in [0, log 2]); bipartite index (a,b) -> a*dB+b',
    'closed forms used as oracles: Wootters concurrence, EOF = h((1+sqrt(1-C^2))/2), GME = (1-sqrt(1-C^2))/2 (Wei-Goldbart), '
    'convex roof of the linear entropy 1-Tr(rho_A^2) = C^2/2 (Jensen + Wootters\' equal-concurrence ensemble)',
    'concurrence values are compared with 1e-6 absolute tolerance (square roots of eigenvalues that vanish to 1e-16 carry '
    '1e-8 errors); the geometric measure is compared with the tolerance propagated through (1-sqrt(1-C^2))/2 and skipped as '
    'ill-conditioned when that exceeds 1e-6 (C within ~1e-5 of 1)',
    'C>1e-6 iff PT eigenvalue < 0 is judged only outside the dead zone -1e-6 <= min PT eigenvalue <= -1e-13',
    'models are observed in float64, CPrank=1, kind="convex"; the stored square root model._sqrt_rho and the Stiefel point '
    'are read back from the model (and themselves checked against the ghost density matrix)',
]
TECHNIQUE = ('runtime contracts on the real measure functions with an independent reference (Takagi/SVD Wootters numbers, explicit '
             'partial transpose), relational re-invocation for local-unitary invariance, and a ghost-state postcondition on the '
             'models\' forward() evaluated at every parameter value an optimiser or a random draw produces')
LEVEL_TEXT = 'held on the monitored executions (sampled states and parameter vectors)'
LEVEL_NOTE = ('get_gme_2qubit is only accurate to ~1e-4 (absolute) on states whose concurrence is within ~1e-5 of 1: the 1e-8 error '
              'of the concurrence is amplified by sqrt(1-C^2). Value and local-unitary comparisons of the GME in that zone are counted '
              'as inconclusive (ill-conditioned), finiteness / range / the defining formula are still judged there.')
MODEL_KINDS = ['eof', 'concurrence', 'gme', 'linear_entropy']
DECIDING = ['get_concurrence_2qubit', 'get_eof_2qubit', 'get_gme_2qubit', 'get_concurrence_pure', 'get_eof_pure', 'get_negativity',
            'relation/eof-formula', 'relation/gme-formula', 'relation/local-unitary', 'relation/pure-state', 'relation/pt-sign',
            'model/eof/forward', 'model/concurrence/forward', 'model/gme/forward', 'model/linear_entropy/forward',
            'model/eof/bound', 'model/concurrence/bound', 'model/gme/bound', 'model/linear_entropy/bound',
            'model/eof/lbfgs-iterate', 'model/concurrence/lbfgs-iterate', 'model/gme/lbfgs-iterate', 'model/linear_entropy/lbfgs-iterate',
            'argument-unchanged', 'history/work-buffer', 'relation/layout', 'input/float64', 'input/complex128/not-c-contiguous',
            'model/argument-buffer-refilled-after-set', 'model/replayed-in-other-order', 'model/reused-object', 'api-surface',
            'input/exact-special-state']

TOL_C = 1e-6        # concurrence-type values (sqrt of eigenvalues)
C_ERR = 4e-8        # accuracy of a concurrence computed through square roots of eigenvalues that vanish to ~1e-16
BOUND_SLACK = 1e-7  # loss >= closed form - 1e-7


def shards(tier, seed):
    q = tier == 'quick'
    ret = []
    if q:
        ret += [{'name': f'model-{k}', 'kind': k, 'nstate': 14, 'lbfgs': 5} for k in MODEL_KINDS]
        ret += [{'name': 'measures-generic', 'n': 260, 'part': 'generic'}, {'name': 'measures-special', 'n': 260, 'part': 'special'},
                {'name': 'measures-maxent', 'n': 2500, 'part': 'maxent'}]
    else:
        for k in MODEL_KINDS:
            ret += [{'name': f'model-{k}-{i}', 'kind': k, 'nstate': 150, 'lbfgs': 50} for i in range(4)]
        ret += [{'name': f'measures-maxent-{i}', 'n': 20000, 'part': 'maxent'} for i in range(2)]
        ret += [{'name': f'measures-generic-{i}', 'n': 3000, 'part': 'generic'} for i in range(3)]
        ret += [{'name': f'measures-special-{i}', 'n': 3000, 'part': 'special'} for i in range(3)]
    return ret


# =============================================================================== helpers (harness side)
def rand_unitary(rng, d):
    z = rng.normal(size=(d, d)) + 1j * rng.normal(size=(d, d))
    q, r = np.linalg.qr(z)
    ph = np.diag(r) / np.abs(np.diag(r))
    return q * ph


def is_state(rho, d=None):
    rho = to_numpy(rho)
    if rho.ndim != 2 or rho.shape[0] != rho.shape[1] or (d is not None and rho.shape[0] != d):
        return False
    if not np.all(np.isfinite(rho)):
        return False
    if np.abs(rho - rho.conj().T).max() > 1e-10 or abs(np.trace(rho) - 1) > 1e-9:
        return False
    return float(np.linalg.eigvalsh(T2.herm(rho))[0]) > -1e-10


def gme_tol(c_ref):
    """tolerance of (1-sqrt(1-C^2))/2 when C carries an error C_ERR: the map is ill-conditioned at C -> 1."""
    lo = T2.gme_of_concurrence(max(0.0, c_ref - C_ERR))
    hi = T2.gme_of_concurrence(min(1.0, c_ref + C_ERR))
    mid = T2.gme_of_concurrence(c_ref)
    return 1e-9 + max(mid - lo, hi - mid)


def pure_zone(psi):
    c = T2.concurrence_pure(psi)
    return 'product-state' if c < 1e-6 else 'entangled-state'


def zone(c_ref):
    return 'concurrence<1e-6' if c_ref < 1e-6 else ('concurrence>1-1e-6' if c_ref > 1 - 1e-6 else 'generic-concurrence')


# =============================================================================== contracts
def install(ctx, numqi):
    E = numqi.entangle
    rng = ctx.rng
    worst = ctx.extra.setdefault('worst', {})
    ghost = {}   # id(model) -> (model, rho)
    flags = {'lbfgs': False, 'no_reinvoke': False}

    def snapshot(index, argname):
        def pre(c):
            return np.array(to_numpy(c.arg(index, argname)), copy=True)
        return pre

    def unchanged(c, name, index, argname):
        """the array argument must come back unmodified; returns the snapshot taken at call time (the contract is judged on it)"""
        now = to_numpy(c.arg(index, argname))
        snap = c.snap
        if snap is None:
            return now
        same = now.shape == snap.shape and now.dtype == snap.dtype and bool(np.array_equal(now, snap, equal_nan=True))
        ctx.check(same, f'{name}/mutates-argument', f'{name} modified its array argument in place',
                  lambda: {'dtype': str(snap.dtype), 'c_contiguous': bool(now.flags.c_contiguous), 'before': snap, 'after': now},
                  point='argument-unchanged')
        return snap

    def up(name, v, mode='max'):
        v = float(v)
        if v != v:
            return
        if name not in worst:
            worst[name] = v
        else:
            worst[name] = max(worst[name], v) if mode == 'max' else min(worst[name], v)

    def scalar(res):
        try:
            v = np.asarray(to_numpy(res), dtype=np.float64)
        except Exception:
            return None
        return float(v) if v.ndim == 0 else None

    def local_rotation(rho):
        u = np.kron(rand_unitary(rng, 2), rand_unitary(rng, 2))
        r = u @ rho @ u.conj().T
        return (r + r.conj().T) / 2

    def common(c, name, hi):
        """finite + range; returns (rho, value, c_ref) or None."""
        if c.exc is not None:
            return None
        rho = unchanged(c, name, 0, 'rho')
        if not is_state(rho, 4):
            ctx.hit('not-a-state/' + name)
            return None
        rho = rho.astype(np.complex128)
        c_ref = T2.concurrence(rho)
        v = scalar(c.result)
        wit = lambda: {'value': repr(c.result), 'reference_concurrence': c_ref, 'rho': rho}
        if v is None:
            ctx.check(False, f'{name}/not-a-real-scalar', f'{name} did not return a real scalar', wit)
            return None
        if not ctx.check(math.isfinite(v), f'{name}/not-finite/{zone(c_ref)}', f'{name} is not finite on a valid two-qubit state', wit):
            return None
        ctx.check(-1e-12 <= v <= hi + 1e-9, f'{name}/out-of-range', f'{name} outside [0, {hi}]', wit)
        return rho, v, c_ref

    def lu_check(c, name, rho, v, tol, c_ref):
        if flags['no_reinvoke']:  # history workloads: the monitor must not call the library between two calls of the history
            return
        r2 = local_rotation(rho)
        with warnings.catch_warnings():
            warnings.simplefilter('ignore')
            v2 = scalar(c.func(r2))
        if v2 is None or not math.isfinite(v2):  # same mechanism (and key) as the finiteness clause of the contract
            ctx.check(False, f'{name}/not-finite/{zone(c_ref)}', f'{name} is not finite on a valid two-qubit state',
                      {'value': repr(v2), 'reference_concurrence': T2.concurrence(r2), 'rho': r2}, point='relation/local-unitary')
            return
        up(f'lu_change/{name}', abs(v2 - v))
        ctx.check(abs(v2 - v) <= tol, f'{name}/not-local-unitary-invariant', f'{name} changes under a local unitary by more than {tol:.1e}',
                  lambda: {'value': v, 'after_rotation': repr(v2), 'rho': rho, 'rotated': r2}, point='relation/local-unitary')

    def post_concurrence(c):
        got = common(c, 'get_concurrence_2qubit', 1.0)
        if got is None:
            return
        rho, v, c_ref = got
        up('abs_err/get_concurrence_2qubit', abs(v - c_ref))
        ctx.check(abs(v - c_ref) <= TOL_C, 'get_concurrence_2qubit/differs-from-wootters-reference',
                  'concurrence differs from the reference Wootters value by more than 1e-6',
                  lambda: {'got': v, 'reference': c_ref, 'wootters_numbers': T2.wootters_numbers(rho), 'rho': rho})
        lu_check(c, 'get_concurrence_2qubit', rho, v, TOL_C, c_ref)
        # non-zero exactly when the partial transpose has a negative eigenvalue
        m = float(T2.pt_eigenvalues(rho, (2, 2), 1)[0])
        if m < -1e-6:
            ctx.check(v > 1e-6, 'get_concurrence_2qubit/zero-although-npt', 'concurrence is zero although the partial transpose has an '
                      'eigenvalue below -1e-6', lambda: {'got': v, 'pt_min_eig': m, 'rho': rho}, point='relation/pt-sign')
        elif m > -1e-13:
            ctx.check(v <= 1e-6, 'get_concurrence_2qubit/nonzero-although-ppt', 'concurrence exceeds 1e-6 although the partial transpose is '
                      'positive semidefinite', lambda: {'got': v, 'pt_min_eig': m, 'rho': rho}, point='relation/pt-sign')
        else:
            ctx.inconclusive('pt-sign dead zone (-1e-6 <= min PT eigenvalue <= -1e-13)')
        pure_check(rho, v, 'concurrence')

    def pure_check(rho, v, what):
        if flags['no_reinvoke']:
            return
        ev, evc = np.linalg.eigh(T2.herm(rho))
        if ev[-1] < 1 - 1e-12:
            return
        psi = evc[:, -1].reshape(2, 2)
        if what == 'concurrence':
            ref = 2 * abs(psi[0, 0] * psi[1, 1] - psi[0, 1] * psi[1, 0])
            with warnings.catch_warnings():
                warnings.simplefilter('ignore')
                lib = scalar(E.get_concurrence_pure(psi))
            name = 'get_concurrence_2qubit'
        else:
            ref = T2.eof_pure(psi)
            with warnings.catch_warnings():
                warnings.simplefilter('ignore')
                lib = scalar(E.get_eof_pure(psi))
            name = 'get_eof_2qubit'
        pname = 'get_concurrence_pure' if what == 'concurrence' else 'get_eof_pure'
        if lib is None or not math.isfinite(lib):  # same mechanism (and key) as the contract on the pure-state function itself
            ctx.check(False, f'{pname}/not-finite/{pure_zone(psi)}', f'{pname} is not finite on a normalised pure state',
                      {'value': repr(lib), 'psi': psi}, point='relation/pure-state')
            lib = ref
        ctx.check(abs(v - ref) <= TOL_C and abs(v - lib) <= TOL_C, f'{name}/pure-state-formula',
                  f'{name} on a rank-one state differs from the pure-state formula',
                  lambda: {'mixed_state_function': v, 'pure_state_function': repr(lib), 'reference': ref, 'psi': psi},
                  point='relation/pure-state')

    ctx.attach(E.eof, 'get_concurrence_2qubit', pre=snapshot(0, 'rho'), post=post_concurrence, point='get_concurrence_2qubit')

    def numqi_concurrence(rho):
        if flags['no_reinvoke']:
            return None
        with warnings.catch_warnings():
            warnings.simplefilter('ignore')
            return scalar(E.get_concurrence_2qubit(rho))

    def post_eof(c):
        got = common(c, 'get_eof_2qubit', T2.LOG2)
        if got is None:
            return
        rho, v, c_ref = got
        cn = numqi_concurrence(c.snap if c.snap is not None else rho)  # same values AND dtype as the observed call
        if cn is not None and math.isfinite(cn):
            ctx.check(abs(v - T2.eof_of_concurrence(cn)) <= 1e-9, 'get_eof_2qubit/formula-mismatch',
                      'EOF is not h((1+sqrt(1-C^2))/2) of the concurrence returned for the same state',
                      lambda: {'eof': v, 'concurrence': cn, 'formula': T2.eof_of_concurrence(cn), 'rho': rho}, point='relation/eof-formula')
        ref = T2.eof_of_concurrence(c_ref)
        up('abs_err/get_eof_2qubit', abs(v - ref))
        ctx.check(abs(v - ref) <= TOL_C, 'get_eof_2qubit/differs-from-reference', 'EOF differs from the reference value by more than 1e-6',
                  lambda: {'got': v, 'reference': ref, 'reference_concurrence': c_ref, 'rho': rho})
        lu_check(c, 'get_eof_2qubit', rho, v, TOL_C, c_ref)
        pure_check(rho, v, 'eof')

    ctx.attach(E.eof, 'get_eof_2qubit', pre=snapshot(0, 'rho'), post=post_eof, point='get_eof_2qubit')

    def post_gme(c):
        got = common(c, 'get_gme_2qubit', 0.5)
        if got is None:
            return
        rho, v, c_ref = got
        cn = numqi_concurrence(c.snap if c.snap is not None else rho)  # same values AND dtype as the observed call
        if cn is not None and math.isfinite(cn) and cn <= 1:
            ctx.check(abs(v - T2.gme_of_concurrence(cn)) <= 1e-9, 'get_gme_2qubit/formula-mismatch',
                      'GME is not (1-sqrt(1-C^2))/2 of the concurrence returned for the same state',
                      lambda: {'gme': v, 'concurrence': cn, 'formula': T2.gme_of_concurrence(cn), 'rho': rho}, point='relation/gme-formula')
        tol = gme_tol(c_ref)
        ref = T2.gme_of_concurrence(c_ref)
        up('abs_err/get_gme_2qubit(all, incl. ill-conditioned C->1)', abs(v - ref))
        if tol > 1e-6:
            ctx.inconclusive('gme value/LU comparison ill-conditioned (C within ~1e-5 of 1)')
            return
        up('abs_err/get_gme_2qubit', abs(v - ref))
        ctx.check(abs(v - ref) <= tol + 1e-9, 'get_gme_2qubit/differs-from-reference', 'GME differs from the reference value',
                  lambda: {'got': v, 'reference': ref, 'tol': tol, 'reference_concurrence': c_ref, 'rho': rho})
        lu_check(c, 'get_gme_2qubit', rho, v, 2 * tol, c_ref)

    ctx.attach(E.measure, 'get_gme_2qubit', pre=snapshot(0, 'rho'), post=post_gme, point='get_gme_2qubit')

    def post_negativity(c):
        if c.exc is not None:
            return
        rho = unchanged(c, 'get_negativity', 0, 'rho')
        try:
            dims = tuple(int(x) for x in c.arg(1, 'dim'))
        except Exception:
            return
        if len(dims) != 2 or not is_state(rho, dims[0] * dims[1]):
            return
        v = scalar(c.result)
        wit = lambda: {'value': repr(c.result), 'dims': list(dims), 'rho': rho}
        if v is None or not ctx.check(math.isfinite(v), 'get_negativity/not-finite', 'negativity is not finite', wit):
            return
        ref = T2.negativity(rho, dims)
        up('abs_err/get_negativity', abs(v - ref))
        ctx.check(abs(v - ref) <= 1e-9, 'get_negativity/differs-from-pt-spectrum',
                  'negativity is not the sum of the absolute values of the negative eigenvalues of the partial transpose',
                  lambda: {'got': v, 'reference': ref, 'dims': list(dims), 'pt_eigenvalues': T2.pt_eigenvalues(rho, dims, 1), 'rho': rho})

    ctx.attach(E._misc, 'get_negativity', pre=snapshot(0, 'rho'), post=post_negativity, point='get_negativity')

    def pure_arg(c, name):
        psi = unchanged(c, name, 0, 'psi')
        if psi.ndim != 2 or not np.all(np.isfinite(psi)) or abs(float(np.vdot(psi, psi).real) - 1) > 1e-10:
            return None
        return psi.astype(np.complex128)

    def post_concurrence_pure(c):
        if c.exc is not None:
            return
        psi = pure_arg(c, 'get_concurrence_pure')
        if psi is None:
            return
        v = scalar(c.result)
        wit = lambda: {'value': repr(c.result), 'psi': psi}
        if v is None or not ctx.check(math.isfinite(v), f'get_concurrence_pure/not-finite/{pure_zone(psi)}', 'get_concurrence_pure is not finite on a normalised pure state', wit):
            return
        ref = T2.concurrence_pure(psi)
        up('abs_err/get_concurrence_pure', abs(v - ref))
        ctx.check(abs(v - ref) <= TOL_C, 'get_concurrence_pure/differs-from-schmidt-formula',
                  'get_concurrence_pure differs from sqrt(2(1-sum s^4)) of the Schmidt coefficients', lambda: {'got': v, 'reference': ref, 'psi': psi})

    ctx.attach(E.eof, 'get_concurrence_pure', pre=snapshot(0, 'psi'), post=post_concurrence_pure, point='get_concurrence_pure')

    def post_eof_pure(c):
        if c.exc is not None:
            return
        psi = pure_arg(c, 'get_eof_pure')
        if psi is None:
            return
        eps = c.arg(1, 'eps', 1e-10)
        if eps > 1e-9:
            return
        v = scalar(c.result)
        wit = lambda: {'value': repr(c.result), 'psi': psi}
        if v is None or not ctx.check(math.isfinite(v), f'get_eof_pure/not-finite/{pure_zone(psi)}', 'get_eof_pure is not finite on a normalised pure state', wit):
            return
        ref = T2.eof_pure(psi)
        up('abs_err/get_eof_pure', abs(v - ref))
        ctx.check(abs(v - ref) <= 1e-7, 'get_eof_pure/differs-from-schmidt-entropy', 'get_eof_pure differs from the entropy of the squared '
                  'Schmidt coefficients', lambda: {'got': v, 'reference': ref, 'psi': psi})
        ctx.check(-1e-12 <= v <= math.log(min(psi.shape)) + 1e-9, 'get_eof_pure/out-of-range', 'get_eof_pure outside [0, log min(dA,dB)]', wit)

    ctx.attach(E.eof, 'get_eof_pure', pre=snapshot(0, 'psi'), post=post_eof_pure, point='get_eof_pure')

    # ---------------- models: ghost state + forward postcondition
    def post_set_dm(c):
        mod = c.args[0]
        if c.exc is not None:
            ghost.pop(id(mod), None)
            return
        # the ghost state is the content of the argument AT CALL TIME (snapshot): a caller may refill that buffer afterwards
        rho = unchanged(c, f'{type(mod).__name__}.set_density_matrix', 1, 'rho').astype(np.complex128).copy()
        ghost[id(mod)] = (mod, rho)

    def make_post_forward(kind, stiefel_attr):
        def post(c):
            import torch
            if c.exc is not None:
                return
            mod = c.args[0]
            g = ghost.get(id(mod))
            if g is None or g[0] is not mod:
                ctx.hit(f'model/{kind}/forward-without-ghost')
                return
            rho = g[1]
            if kind == 'gme':
                dims = tuple(mod.dim_list)
                if len(dims) != 2 or mod.CPrank != 1 or mod.cdtype != torch.complex128:
                    return
            elif kind == 'linear_entropy':
                dims = (mod.dim0, mod.dim1)
            else:
                dims = (mod.dimA, mod.dimB)
            sign = getattr(mod, '_sign', 1)
            ctx.hit(f'model/{kind}/forward')
            if flags['lbfgs']:
                ctx.hit(f'model/{kind}/lbfgs-iterate')
            loss = scalar(c.result)
            S = to_numpy(mod._sqrt_rho).reshape(dims[0], dims[1], -1)
            with torch.no_grad():
                M = to_numpy(getattr(mod, stiefel_attr)())
                kets = [to_numpy(m()) for m in mod.manifold_psi] if kind == 'gme' else None
            wit = lambda: {'loss': repr(c.result), 'dims': list(dims), 'rank': int(S.shape[2]), 'ensemble': int(M.shape[0]),
                           'stiefel_point': M, 'rho': rho}
            if loss is None or not ctx.check(math.isfinite(loss), f'model/{kind}/loss-not-finite', f'{kind} model: loss is not finite', wit):
                return
            # conditioning of the parameter point (independent of the chart's answer): the polar / qr charts orthonormalise the
            # (ensemble x rank) parameter matrix, their rounding error grows with the condition number of its Gram matrix
            slack = 0.0
            try:
                st = getattr(mod, stiefel_attr)
                th = to_numpy(st.theta).astype(np.float64)
                if getattr(st, 'batch_size', None) is None and st.method in ('polar', 'qr') and st.rank >= 2:
                    A = th.reshape(2, st.dim, st.rank) if th.size == 2 * st.dim * st.rank else th.reshape(1, st.dim, st.rank)
                    A = A[0] + (1j * A[1] if A.shape[0] == 2 else 0)
                    ev = np.linalg.eigvalsh(A.conj().T @ A)
                    kappa = float(ev[-1] / max(ev[0], 1e-300))
                    up('largest_parameter_gram_condition_number', kappa)
                    if kappa > 1e11:
                        ctx.inconclusive(f'model/{kind}/parameter-matrix-numerically-rank-deficient')
                        return
                    slack = 200 * 2.3e-16 * kappa
            except Exception:
                ctx.harness_error(f'model/{kind}/conditioning-estimate')
                return
            # (a) the ensemble is a genuine decomposition of the ghost state
            psis = T2.ensemble(S, M)
            err = float(np.abs(T2.ensemble_state(psis) - rho).max())
            up(f'decomposition_err/{kind}', err)
            ok = ctx.check(err <= 1e-6 + slack, f'model/{kind}/decomposition-not-genuine',
                           f'{kind} model: sum_i |psi_i><psi_i| rebuilt from the Stiefel point and the stored square root is not the '
                           'density matrix that was set', lambda: dict(wit(), rebuild_error=err,
                                                                       stiefel_orthonormality_error=float(np.abs(M.conj().T @ M - np.eye(M.shape[1])).max()),
                                                                       sqrt_error=float(np.abs(np.einsum('abk,cdk->abcd', S, S.conj()).reshape(rho.shape) - rho).max())))
            # (b) the loss is the ensemble average of the pure-state measure
            if kind == 'gme':
                val = T2.product_overlap_loss(psis, kets)
                lower = T2.ensemble_value(psis, 'gme')
                nk = max(float(np.abs(np.sqrt((np.abs(k)**2).sum(axis=1)) - 1).max()) for k in kets)
                ctx.check(nk <= 1e-9, 'model/gme/product-vectors-not-normalised', 'gme model: the product vectors are not unit vectors',
                          lambda: dict(wit(), norm_error=nk))
            else:
                val = sign * T2.ensemble_value(psis, kind)
                lower = val
            tolv = 1e-6 if kind == 'concurrence' else 1e-8
            up(f'loss_minus_reference_functional/{kind}', abs(loss - val))
            ctx.check(abs(loss - val) <= tolv * (1 + abs(val)) + 10 * slack, f'model/{kind}/loss-is-not-the-ensemble-average',
                      f'{kind} model: loss differs from the ensemble average recomputed by the reference from the same ensemble',
                      lambda: dict(wit(), reference=val))
            if sign != 1 or not ok:
                return
            if kind == 'gme':
                ctx.check(loss >= lower - 1e-9 - 10 * slack, 'model/gme/overlap-exceeds-schmidt-bound',
                          'gme model: loss below sum_i p_i (1 - largest Schmidt coefficient^2)', lambda: dict(wit(), bound=lower))
            # (c) upper-bound property on two qubits
            if dims == (2, 2):
                cf = T2.closed_form(rho, kind)
                margin = loss - cf
                up(f'min_loss_minus_closed_form/{kind}', margin, 'min')
                ctx.check(margin >= -(BOUND_SLACK + 10 * slack), f'model/loss-below-closed-form/{kind}',
                          f'{kind} model: loss is below the closed-form value of the state by more than 1e-7',
                          lambda: dict(wit(), closed_form=cf, margin=margin), point=f'model/{kind}/bound')
        return post

    for cls, kind, attr in [(E.EntanglementFormationModel, 'eof', 'manifold'), (E.ConcurrenceModel, 'concurrence', 'manifold'),
                            (E.DensityMatrixGMEModel, 'gme', 'manifold_stiefel'), (E.DensityMatrixLinearEntropyModel, 'linear_entropy', 'manifold_stiefel')]:
        ctx.attach(cls, 'set_density_matrix', pre=snapshot(1, 'rho'), post=post_set_dm, point=f'{cls.__name__}.set_density_matrix')
        ctx.attach(cls, 'forward', post=make_post_forward(kind, attr), point=f'{cls.__name__}.forward')
    return flags


# =============================================================================== state generators (two qubits)
def ginibre_state(rng, d, r, real=False):
    """real=True: A A^T / tr with a real A, returned as a float64 array (generic, not of X-form)"""
    a = rng.normal(size=(d, r)) + (0 if real else 1j * rng.normal(size=(d, r)))
    rho = a @ a.conj().T
    rho = rho / np.trace(rho).real
    return (rho + rho.conj().T) / 2


def rand_pure(rng, d):
    v = rng.normal(size=d) + 1j * rng.normal(size=d)
    return v / np.linalg.norm(v)


def x_state(rng):
    def blk():
        a, d = rng.uniform(0.01, 1, size=2)
        w = math.sqrt(a * d) * rng.uniform(0, 1) * np.exp(2j * np.pi * rng.random())
        if rng.random() < 0.3:
            w = math.sqrt(a * d) * np.exp(2j * np.pi * rng.random())  # rank-deficient block
        return a, d, w
    a, d, w = blk()
    b, c, z = blk()
    rho = np.zeros((4, 4), dtype=np.complex128)
    rho[0, 0], rho[3, 3], rho[0, 3], rho[3, 0] = a, d, w, np.conj(w)
    rho[1, 1], rho[2, 2], rho[1, 2], rho[2, 1] = b, c, z, np.conj(z)
    return rho / np.trace(rho).real


def rotate(rng, rho, dims=(2, 2)):
    u = np.kron(rand_unitary(rng, dims[0]), rand_unitary(rng, dims[1]))
    r = u @ rho @ u.conj().T
    return (r + r.conj().T) / 2


def gen_generic(rng, it):
    k = it % 8
    real = (it // 8) % 3 == 1  # every third round in real arithmetic: float64 arrays
    if k < 4:
        return f'random rank {k + 1}' + (' (real, float64)' if real else ''), ginibre_state(rng, 4, k + 1, real)
    if k == 4:
        r = int(rng.integers(2, 4))
        w = rng.dirichlet(np.ones(r))
        if real:
            vs = [rng.normal(size=4) for _ in range(r)]
            return f'mixture of {r} random real pure states (float64)', sum(wi * np.outer(v, v) / np.dot(v, v) for wi, v in zip(w, vs))
        return f'mixture of {r} random pure states', sum(wi * T2.proj(rand_pure(rng, 4)) for wi in w)
    if k == 5:
        w = rng.dirichlet(np.ones(4) * rng.choice([0.3, 1.0]))
        return 'Bell-diagonal, locally rotated', rotate(rng, T2.bell_diagonal(w))
    if k == 6:
        return 'X-state', x_state(rng)
    lam = rng.dirichlet(np.ones(4))
    u = rand_unitary(rng, 4)
    rho = (u * lam) @ u.conj().T
    return 'random spectrum, Haar eigenvectors', (rho + rho.conj().T) / 2


def gen_special(rng, it):
    k = it % 10
    if k == 0:
        e = 10.0**(-rng.uniform(3, 10)) * rng.choice([-1, 1])
        return f'Werner p=1/3{e:+.1e}', T2.werner2(1 / 3 + e)
    if k == 1:
        e = 10.0**(-rng.uniform(3, 10)) * rng.choice([-1, 1])
        return f'isotropic p=1/3{e:+.1e}, locally rotated', rotate(rng, T2.isotropic2(1 / 3 + e))
    if k == 2:
        w = rng.dirichlet(np.ones(3)) / 2
        w = np.concatenate([[0.5], w])[rng.permutation(4)]
        return 'Bell-diagonal with largest weight exactly 1/2 (separable boundary)', T2.bell_diagonal(w)
    if k == 3:
        kind = ['random', 'random-real', 'few-terms', 'near-parallel', 'tiny-weights', 'basis', 'pure-product'][(it // 10) % 7]
        rho = RS.rebuild(gen_cert(rng, (2, 2), kind))
        if kind in ('random-real', 'basis'):
            return f'separable mixture ({kind}, float64)', rho.real.copy()
        return f'separable mixture ({kind})', rho
    if k == 4:
        if (it // 10) % 2:
            v = rng.normal(size=4)
            v /= np.linalg.norm(v)
            return 'random real pure state (float64)', np.outer(v, v)
        return 'random pure state', T2.proj(rand_pure(rng, 4))
    if k == 5:
        p = rng.uniform(0, 1)
        return 'pure entangled + pure product (rank 2)', p * T2.proj(rand_pure(rng, 4)) + (1 - p) * T2.proj(np.kron(rand_pure(rng, 2), rand_pure(rng, 2)))
    if k == 6:
        t = rng.uniform(0, math.pi / 2) if rng.random() < 0.7 else 10.0**(-rng.uniform(2, 9))
        psi = np.array([math.cos(t), 0, 0, math.sin(t)], dtype=np.complex128)
        return f'cos t|00>+sin t|11> (t={t:.3g}), locally rotated', rotate(rng, T2.proj(psi))
    if k == 7:
        p = 1 - 10.0**(-rng.uniform(1, 9))
        return f'Bell state with white noise 1-p={1 - p:.1e}', rotate(rng, T2.werner2(p))
    if k == 8:
        p = rng.uniform(0, 1)
        return 'Werner, locally rotated', rotate(rng, T2.werner2(p))
    w = rng.dirichlet(np.ones(2))
    return 'two Bell states mixed (rank 2)', rotate(rng, T2.bell_diagonal([w[0], w[1], 0, 0]))


def exact_states():
    """exact special states (entries exactly 0, 1/2, 1/4, 1): (description, rho)"""
    e = np.eye(4)
    plus = np.full(4, 0.5)
    out = [(f'exactly the Bell state {i}', T2.proj(T2.bell(i))) for i in range(4)]
    out.append(('exactly the Bell state 0, float64 with entries 0 and 1/2', T2.proj(T2.bell(0)).real.copy() * 0 + np.array(
        [[0.5, 0, 0, 0.5], [0, 0, 0, 0], [0, 0, 0, 0], [0.5, 0, 0, 0.5]])))
    out += [(f'exactly the computational product state |{i:02b}>', np.outer(e[i], e[i]).astype(np.complex128)) for i in range(4)]
    out.append(('exactly |+>|+> (all entries 1/4)', np.outer(plus, plus).astype(np.complex128)))
    out.append(('exactly |0>|+>', np.outer(np.kron([1, 0], [1, 1]) / math.sqrt(2), np.kron([1, 0], [1, 1]) / math.sqrt(2)).astype(np.complex128)))
    out.append(('exactly maximally mixed', np.eye(4, dtype=np.complex128) / 4))
    out.append(('exactly maximally mixed, float64', np.eye(4) / 4))
    out.append(('exactly |00><00|/2 + |11><11|/2 (classically correlated)', np.diag([0.5, 0, 0, 0.5]).astype(np.complex128)))
    out.append(('exactly (|Phi+><Phi+| + |Psi+><Psi+|)/2 (separable boundary, rank 2)', (T2.proj(T2.bell(0)) + T2.proj(T2.bell(2))) / 2))
    out.append(('exactly I/4 on one qubit times |0><0|', np.kron(np.eye(2) / 2, np.diag([1.0, 0.0])).astype(np.complex128)))
    return out


def nontrivial(rho):
    return RS.offdiag_max(rho) > 1e-6


def run(ctx, shard):
    import numqi
    import torch
    warnings.filterwarnings('ignore')
    flags = install(ctx, numqi)
    E = numqi.entangle
    rng = ctx.rng
    name = shard['name']
    nsample = [0]

    FUNCS = {'get_concurrence_2qubit': lambda a, d: E.get_concurrence_2qubit(a), 'get_eof_2qubit': lambda a, d: E.get_eof_2qubit(a),
             'get_gme_2qubit': lambda a, d: E.get_gme_2qubit(a), 'get_negativity': lambda a, d: E.get_negativity(a, d)}

    def reference(fn, rho, dims):
        rho = np.asarray(rho, dtype=np.complex128)
        if fn == 'get_negativity':
            return T2.negativity(rho, dims)
        c = T2.concurrence(rho)
        return {'get_concurrence_2qubit': c, 'get_eof_2qubit': T2.eof_of_concurrence(c), 'get_gme_2qubit': T2.gme_of_concurrence(c)}[fn]

    def layout_variant(rho):
        """the same VALUES in another memory layout / dtype: (argument, tag)"""
        u = rng.random()
        if u < 0.12:
            return np.asfortranarray(rho), 'fortran-ordered copy'
        if u < 0.24:
            big = np.zeros((2 * rho.shape[0], 2 * rho.shape[1]), dtype=rho.dtype)
            big[::2, ::2] = rho
            return big[::2, ::2], 'non-contiguous strided view'
        if u < 0.30 and np.iscomplexobj(rho) and not np.any(rho.imag):
            return rho.real.copy(), 'real part as float64'
        if u < 0.36 and not np.iscomplexobj(rho):
            return rho.astype(np.complex128), 'real state as complex128'
        return rho, 'as generated (' + str(rho.dtype) + ')'

    def call(fn, arg, dims):
        """one guarded call; returns the float value or None"""
        out = [None]
        with ctx.guard(fn):
            out[0] = FUNCS[fn](arg, dims)
        try:
            return float(out[0])
        except Exception:
            return None

    def measures(desc, rho, dims=(2, 2), layouts=True):
        arg, tag = layout_variant(rho) if layouts else (rho, 'as generated')
        ctx.set_case({'state': desc, 'dims': list(dims), 'layout': tag})
        ctx.hit('input/' + ('float64' if not np.iscomplexobj(arg) else 'complex128') + ('' if arg.flags.c_contiguous else '/not-c-contiguous'))
        smp = None
        if nsample[0] < 6 and rng.random() < 0.03:
            nsample[0] += 1
            ev = np.linalg.eigvalsh(rho)
            smp = {'state': desc, 'dims': list(dims), 'layout': tag, 'rank': int((ev > 1e-10).sum()), 'purity': float(np.vdot(rho, rho).real),
                   'reference_concurrence': T2.concurrence(rho) if dims == (2, 2) else None,
                   'reference_negativity': T2.negativity(rho, dims)}
        ctx.case('measure', list(dims), np.asarray(rho, dtype=np.complex128), tag, nontrivial=nontrivial(rho), sample=smp)
        fns = list(FUNCS) if dims == (2, 2) else ['get_negativity']
        vals = {}
        for i in rng.permutation(len(fns)):  # call order varies from state to state
            vals[fns[i]] = call(fns[i], arg, dims)
        if layouts and arg is not rho and rng.random() < 0.5:
            # the same values as a plain C-contiguous array must give the same answers
            plain = np.ascontiguousarray(np.asarray(rho))
            for fn in fns:
                v2 = call(fn, plain, dims)
                ok = (vals[fn] is None and v2 is None) or (vals[fn] is not None and v2 is not None and
                                                          (abs(vals[fn] - v2) <= 2 * TOL_C or (vals[fn] != vals[fn] and v2 != v2)))
                if fn == 'get_gme_2qubit' and gme_tol(T2.concurrence(rho)) > 1e-6:
                    continue
                ctx.check(ok, f'{fn}/layout-dependent', f'{fn} gives different values for the same matrix in another memory layout / dtype',
                          {'layout': tag, 'value': repr(vals[fn]), 'value_plain': repr(v2), 'rho': np.asarray(rho)}, point='relation/layout')

    def api_surface(rho, dims):
        """keyword vs positional, defaults passed explicitly, dim as list / ndarray / numpy ints: same answer as the plain call"""
        dims = tuple(int(x) for x in dims)
        forms = [list(dims), np.array(dims), tuple(np.int64(x) for x in dims)]
        dalt = forms[int(rng.integers(3))]
        groups = [('get_negativity', lambda: E.get_negativity(rho, dims),
                   [('positional-call-differs-from-keyword-call', lambda: E.get_negativity(rho=rho, dim=dalt)),
                    ('positional-call-differs-from-keyword-call', lambda: E.get_negativity(rho, dalt))])]
        if dims == (2, 2):
            groups += [('get_concurrence_2qubit', lambda: E.get_concurrence_2qubit(rho), [('positional-call-differs-from-keyword-call', lambda: E.get_concurrence_2qubit(rho=rho))]),
                       ('get_eof_2qubit', lambda: E.get_eof_2qubit(rho), [('positional-call-differs-from-keyword-call', lambda: E.get_eof_2qubit(rho=rho))]),
                       ('get_gme_2qubit', lambda: E.get_gme_2qubit(rho), [('positional-call-differs-from-keyword-call', lambda: E.get_gme_2qubit(rho=rho))])]
        ev, evc = np.linalg.eigh(np.asarray(rho, dtype=np.complex128))
        if ev[-1] > 1 - 1e-12:
            psi = evc[:, -1].reshape(dims)
            groups += [('get_eof_pure', lambda: E.get_eof_pure(psi),
                        [('explicit-default-differs', lambda: E.get_eof_pure(psi, eps=1e-10)),
                         ('positional-call-differs-from-keyword-call', lambda: E.get_eof_pure(psi, 1e-10)),
                         ('positional-call-differs-from-keyword-call', lambda: E.get_eof_pure(psi=psi, eps=np.float64(1e-10)))]),
                       ('get_concurrence_pure', lambda: E.get_concurrence_pure(psi),
                        [('positional-call-differs-from-keyword-call', lambda: E.get_concurrence_pure(psi=psi))])]
        for fn, base, variants in groups:
            out = [None]
            with ctx.guard(fn):
                out[0] = base()
            for key, thunk in variants:
                got = [None]
                with ctx.guard(fn):
                    got[0] = thunk()
                try:
                    a, b = float(out[0]), float(got[0])
                except Exception:
                    continue
                ctx.check(abs(a - b) <= 1e-12 or (a != a and b != b), f'{fn}/{key}',
                          f'{fn}: the same question asked through another documented calling form gets another answer',
                          {'dims': list(dims), 'plain_call': a, 'other_form': b, 'rho': np.asarray(rho)}, point='api-surface')

    def history(real, dims=(2, 2)):
        """work-buffer history: ONE array object is refilled / updated in place between evaluations; every evaluation must refer to the
        CURRENT content. The monitors do not re-invoke the library during the history (a foreign call would hide a stale memo)."""
        D = dims[0] * dims[1]
        fns = list(FUNCS) if dims == (2, 2) else ['get_negativity']
        buf = np.empty((D, D), dtype=np.float64 if real else np.complex128)
        bell = np.zeros((D, D))
        bell[0, 0] = bell[0, -1] = bell[-1, 0] = bell[-1, -1] = 0.5
        seq = [('strongly entangled', 0.9 * bell + 0.1 * ginibre_state(rng, D, D, real))]
        seq += [(f'random rank {r}', ginibre_state(rng, D, r, real)) for r in rng.permutation(np.arange(1, D + 1))[:4]]
        seq += [('maximally mixed', np.eye(D) / D), ('strongly entangled again', 0.8 * bell + 0.2 * ginibre_state(rng, D, 2, real))]
        flags['no_reinvoke'] = True
        try:
            prev = None
            for step, (desc, state) in enumerate(seq + [('in-place depolarisation of the previous content', None)]):
                if state is None:
                    buf *= 0.2
                    buf += 0.8 * np.eye(D) / D
                else:
                    buf[:] = state
                cur = buf.copy()
                ctx.set_case({'history': 'work buffer', 'step': step, 'content': desc, 'dims': list(dims), 'dtype': str(buf.dtype)})
                ctx.case('history', list(dims), cur.astype(np.complex128), step, nontrivial=nontrivial(cur))
                ctx.workload('realistic')
                order = [fns[i] for i in rng.permutation(len(fns))][:int(rng.integers(1, len(fns) + 1))]
                for fn in order:
                    v = call(fn, buf, dims)
                    if v is None or v != v:
                        continue
                    ref_now = reference(fn, cur, dims)
                    stale = prev is not None and abs(v - ref_now) > 1e-3 and abs(v - reference(fn, prev, dims)) <= 3e-4
                    ctx.check(not stale, f'{fn}/stale-after-inplace-update',
                              f'{fn} returned the value of the PREVIOUS content of an array that was updated in place',
                              lambda: {'value': v, 'reference_current_content': ref_now, 'reference_previous_content': reference(fn, prev, dims),
                                       'content': desc, 'current': cur, 'previous': prev}, point='history/work-buffer')
                prev = cur
        finally:
            flags['no_reinvoke'] = False

    def pure_history():
        for dA, dB in [(2, 2), (2, 3), (3, 2)]:
            buf = np.empty((dA, dB), dtype=np.complex128)
            prev = None
            for step in range(4):
                if step % 2:
                    psi = np.outer(rand_pure(rng, dA), rand_pure(rng, dB))
                else:
                    psi = rand_pure(rng, dA * dB).reshape(dA, dB)
                buf[:] = psi
                ctx.set_case({'history': 'pure-state work buffer', 'step': step, 'dims': [dA, dB]})
                for fn, f, ref in [('get_concurrence_pure', E.get_concurrence_pure, T2.concurrence_pure), ('get_eof_pure', E.get_eof_pure, T2.eof_pure)]:
                    out = [None]
                    with ctx.guard(fn):
                        out[0] = f(buf)
                    try:
                        v = float(out[0])
                    except Exception:
                        continue
                    stale = prev is not None and abs(v - ref(psi)) > 1e-3 and abs(v - ref(prev)) <= 1e-6
                    ctx.check(not stale, f'{fn}/stale-after-inplace-update', f'{fn} returned the value of the previous content of its buffer',
                              {'value': v, 'reference': ref(psi), 'psi': psi}, point='history/work-buffer')
                prev = psi

    if name.startswith('measures'):
        part = shard['part']
        n = shard['n']
        if part == 'maxent':
            # locally rotated Bell states: the concurrence is 1 up to rounding (the hostile point of sqrt(1-C^2))
            ctx.workload('corner', n)
            for it in range(n):
                measures('locally rotated Bell state', rotate(rng, T2.proj(T2.bell(it % 4))), layouts=it % 50 == 0)
        else:
            gen = gen_generic if part == 'generic' else gen_special
            first = None
            for it in range(n):
                desc, rho = gen(rng, it)
                if first is None:
                    first = (desc, rho.copy())
                ctx.workload('random' if part == 'generic' else 'corner')
                measures(desc, rho)
                if it % 5 == 2:
                    ctx.set_case({'state': desc, 'dims': [2, 2], 'calling': 'api-surface variants'})
                    api_surface(rho, (2, 2))
                if it % 20 == 7:
                    history(real=bool((it // 20) % 2))
                if it % 60 == 11:
                    history(real=False, dims=[(2, 3), (3, 2)][(it // 60) % 2])
            pure_history()
            if part == 'special':  # exact special values inside the domain
                for desc, rho in exact_states():
                    ctx.workload('corner')
                    measures(desc, rho, layouts=False)
                    measures(desc + ', locally rotated', rotate(rng, rho))
                    api_surface(rho, (2, 2))
                    ctx.hit('input/exact-special-state')
            measures(first[0] + ' (first state of the shard again, at the end)', first[1], layouts=False)
            # pure-state functions on (dA, dB) coefficient matrices, negativity beyond two qubits
            for it in range(n // 2):
                dA, dB = [(2, 2), (2, 3), (3, 2), (3, 3), (2, 4), (4, 3)][it % 6]
                kind = it % 4
                if kind == 0:
                    psi = np.outer(rand_pure(rng, dA), rand_pure(rng, dB))
                    desc = 'product'
                elif kind == 1:
                    m = min(dA, dB)
                    psi = np.zeros((dA, dB), dtype=np.complex128)
                    psi[np.arange(m), np.arange(m)] = 1 / math.sqrt(m)
                    psi = rand_unitary(rng, dA) @ psi @ rand_unitary(rng, dB)
                    desc = 'maximally entangled'
                elif kind == 2:
                    s = np.zeros(min(dA, dB))
                    s[0] = 1
                    s[1] = 10.0**(-rng.uniform(2, 9))
                    s = s / np.linalg.norm(s)
                    psi = rand_unitary(rng, dA)[:, :len(s)] @ np.diag(s) @ rand_unitary(rng, dB)[:len(s), :]
                    desc = 'nearly product'
                else:
                    psi = rand_pure(rng, dA * dB).reshape(dA, dB)
                    desc = 'random'
                ctx.set_case({'pure state': desc, 'dims': [dA, dB]})
                ctx.case('pure', [dA, dB], psi, nontrivial=True)
                ctx.workload('random' if kind == 3 else 'corner')
                with ctx.guard('get_concurrence_pure'):
                    E.get_concurrence_pure(psi)
                with ctx.guard('get_eof_pure'):
                    E.get_eof_pure(psi)
                if (dA, dB) != (2, 2) and dA * dB <= 9:
                    r = int(rng.integers(1, dA * dB + 1))
                    rho = ginibre_state(rng, dA * dB, r)
                    measures(f'random rank {r}', rho, (dA, dB))
                    measures('pure ' + desc, T2.proj(psi.reshape(-1)), (dA, dB))
                    if it % 3 == 0:
                        api_surface(T2.proj(psi.reshape(-1)), (dA, dB))
        return

    # ------------------------------------------------------------------ models
    kind = shard['kind']
    methods = ['polar', 'qr', 'so-exp', 'so-cayley', 'euler']

    def build(dims, n_ens, rank, it):
        if kind == 'eof':
            return E.EntanglementFormationModel(dims[0], dims[1], n_ens, rank=rank), {}
        if kind == 'concurrence':
            return E.ConcurrenceModel(dims[0], dims[1], n_ens, rank=rank), {}
        if kind == 'gme':
            return E.DensityMatrixGMEModel(list(dims), n_ens, rank=rank), {}
        m = methods[it % len(methods)]
        return E.DensityMatrixLinearEntropyModel(dims, n_ens, rank=rank, kind='convex', method=m), {'method': m}

    def model_state(it):
        """(description, dims, rho, rank)"""
        k = it % 7
        if k == 6:
            dims = [(2, 3), (3, 2)][(it // 7) % 2]
            # deterministic rank schedule: rank>=2 first (rank 1 makes several index slips invisible: a seed-dependent miss of the
            # wide-A-branch mutant showed that a random rank can come out as 1 for the only (3,2) case of the quick tier)
            r = [2, 3, 4, 1, 3, 2, 1, 4][(it // 7) % 8]
            rng.integers(1, 5)  # keep the random stream aligned with earlier runs
            return f'random rank {r}', dims, ginibre_state(rng, 6, r), r
        if k < 4:
            real = (it // 7) % 2 == 1  # every other round: real arithmetic, float64 array handed to set_density_matrix
            return f'random rank {k + 1}' + (' (real, float64)' if real else ''), (2, 2), ginibre_state(rng, 4, k + 1, real), k + 1
        if k == 4:
            desc, rho = gen_special(rng, int(rng.integers(0, 10**6)))
            if (it // 7) % 2 == 1:  # exact special values: exactly Bell / product / maximally mixed / boundary states
                ex = exact_states()
                desc, rho = ex[(it // 14) % len(ex)]
                ctx.hit('model/exact-special-state')
        else:
            desc, rho = gen_generic(rng, int(rng.integers(4, 8)))
        ev = np.linalg.eigvalsh(rho)
        r = max(1, int((ev > 1e-13).sum()))
        return desc, (2, 2), rho, r

    reuse_pool = {}
    done = []
    for it in range(shard['nstate']):
        desc, dims, rho, rank = model_state(it)
        done.append((it, desc, dims, rho, rank))
        ent = dims == (2, 2) and T2.concurrence(rho) > 1e-6
        lo = max(2, rank)
        sizes = sorted(set([lo, min(8, lo + 1), int(rng.integers(lo, 9)), 8]))
        if ctx.tier == 'quick':
            sizes = sizes[:1] + sizes[-1:] if it % 2 else sizes[:2]
        for n_ens in sizes:
            cfg = {'model': kind, 'state': desc, 'dims': list(dims), 'rank': rank, 'ensemble': n_ens}
            ctx.set_case(cfg)
            with ctx.guard(f'model/{kind}'):
                # history: a model object is re-used for a sequence of states of the same configuration (set_density_matrix called again
                # on the same object) about half of the time; every forward must refer to the state that was set LAST
                rkey = (tuple(dims), n_ens, rank)
                prev = reuse_pool.get(rkey)
                if prev is not None and rng.random() < 0.6:
                    model, extra_cfg = prev
                    cfg['reused_model_object'] = True
                    ctx.hit('model/reused-object')
                else:
                    model, extra_cfg = build(dims, n_ens, rank, it)
                    reuse_pool[rkey] = (model, extra_cfg)
                cfg.update(extra_cfg)
                ctx.set_case(cfg)
                work = np.array(rho, copy=True)
                model.set_density_matrix(work)
                if it % 3 == 1:  # history: the caller refills its buffer after handing it over; the model must keep the state it was given
                    work[:] = np.eye(work.shape[0]) / work.shape[0]
                    ctx.hit('model/argument-buffer-refilled-after-set')
                nparam = sum(p.numel() for p in model.parameters())
                for scale in (1e-9, 0.1, 1.0, 10.0):  # 1e-9: tiny parameters (a seeded absolute ridge in the polar chart only shows there)
                    for rep in range(2 if ctx.tier == 'quick' else 3):
                        theta = rng.normal(size=nparam) * scale
                        numqi.optimize.set_model_flat_parameter(model, theta)
                        ctx.workload('random')
                        ctx.case('model', kind, cfg, rho, theta, nontrivial=nontrivial(rho) and (ent or n_ens > rank))
                        with torch.no_grad():
                            model()
                        # evaluation modes: with autograd recording, and with frozen parameters (requires_grad_(False), how a trained
                        # model is evaluated): the value must be the same decomposition in every mode
                        if rep == 0:
                            ctx.hit('model/evaluation-modes')
                            model()
                            for prm in model.parameters():
                                prm.requires_grad_(False)
                            try:
                                model()
                            finally:
                                for prm in model.parameters():
                                    prm.requires_grad_(True)
                # numerical regime: a parameter matrix that is nearly (not exactly) rank deficient - one column almost a copy of another
                stf = [x for x in model.modules() if isinstance(x, numqi.manifold.Stiefel)]
                if stf and stf[0].rank >= 2 and stf[0].theta.numel() == 2 * stf[0].dim * stf[0].rank:
                    for delta in (1e-2, 1e-4):
                        numqi.optimize.set_model_flat_parameter(model, rng.normal(size=nparam))
                        mat = rng.normal(size=(2, stf[0].dim, stf[0].rank))
                        mat[:, :, -1] = mat[:, :, 0] + delta * mat[:, :, -1]
                        with torch.no_grad():
                            stf[0].theta.copy_(torch.tensor(mat.reshape(-1), dtype=stf[0].theta.dtype))
                        ctx.workload('corner')
                        ctx.hit('model/nearly-rank-deficient-parameters')
                        ctx.case('model-illcond', kind, cfg, rho, mat, nontrivial=nontrivial(rho))
                        with torch.no_grad():
                            model()
                if nsample[0] < 6 and rng.random() < 0.15:
                    nsample[0] += 1
                    ctx.sample(dict(cfg, reference_concurrence=T2.concurrence(rho) if dims == (2, 2) else None, parameters=int(nparam)))
                if it < shard['lbfgs'] and n_ens in (sizes[0], sizes[-1]):
                    ctx.workload('realistic')
                    flags['lbfgs'] = True
                    try:
                        res = numqi.optimize.minimize(model, theta0=('normal', 0, [1.0, 0.1, 3.0][it % 3]), num_repeat=1, tol=1e-12,
                                                      maxiter=60 if ctx.tier == 'quick' else 200, print_every_round=0,
                                                      seed=int(rng.integers(2**31)))
                    finally:
                        flags['lbfgs'] = False
                    ctx.case('model-lbfgs', kind, cfg, rho, nontrivial=nontrivial(rho) and (ent or n_ens > rank))
                    if dims == (2, 2):
                        gap = float(res.fun) - T2.closed_form(rho, kind)
                        ctx.extra.setdefault('final_gap_after_lbfgs', {}).setdefault(kind, []).append(round(gap, 12))

    # API surface of the constructors: keyword / positional in docstring order / defaults left out (rank=None means full rank), same
    # state and same parameter vector -> same loss
    def construct_forms(dims, n_ens):
        D = dims[0] * dims[1]
        if kind == 'eof':
            C = E.EntanglementFormationModel
            return [C(dimA=dims[0], dimB=dims[1], num_term=n_ens, rank=D), C(dims[0], dims[1], n_ens, D), C(dims[0], dims[1], n_ens),
                    C(np.int64(dims[0]), np.int64(dims[1]), np.int64(n_ens), rank=None)]
        if kind == 'concurrence':
            C = E.ConcurrenceModel
            return [C(dimA=dims[0], dimB=dims[1], num_term=n_ens, rank=D), C(dims[0], dims[1], n_ens, D), C(dims[0], dims[1], n_ens),
                    C(np.int64(dims[0]), np.int64(dims[1]), np.int64(n_ens), rank=None)]
        if kind == 'gme':
            C = E.DensityMatrixGMEModel
            return [C(dim_list=list(dims), num_ensemble=n_ens, rank=D, CPrank=1, dtype='float64'), C(tuple(dims), n_ens, D, 1, 'float64'),
                    C(list(dims), n_ens), C(np.array(dims), np.int64(n_ens), rank=None)]
        C = E.DensityMatrixLinearEntropyModel
        return [C(dim=tuple(dims), num_ensemble=n_ens, rank=D, kind='convex', method='polar'), C(list(dims), n_ens, D, 'convex', 'polar'),
                C(tuple(dims), n_ens), C(np.array(dims), np.int64(n_ens), rank=None)]

    for dims in [(2, 2), (2, 3), (3, 2)][:3 if ctx.tier != 'quick' else 2]:
        D = dims[0] * dims[1]
        n_ens = D + int(rng.integers(0, 3))
        rho = ginibre_state(rng, D, D)
        cfg = {'model': kind, 'dims': list(dims), 'rank': D, 'ensemble': n_ens, 'calling': 'constructor forms'}
        ctx.set_case(cfg)
        with ctx.guard(f'model/{kind}'):
            models = construct_forms(dims, n_ens)
            nparam = [sum(p.numel() for p in m.parameters()) for m in models]
            ctx.check(len(set(nparam)) == 1, f'model/{kind}/constructor-forms-differ', f'{kind} model: keyword / positional / default-rank '
                      'constructions have different parameter counts', {'nparam': nparam, 'dims': list(dims)}, point='api-surface')
            if len(set(nparam)) == 1:
                theta = rng.normal(size=nparam[0])
                losses = []
                for m in models:
                    m.set_density_matrix(rho)
                    numqi.optimize.set_model_flat_parameter(m, theta)
                    with torch.no_grad():
                        losses.append(float(m()))
                keys = ['positional-call-differs-from-keyword-call', 'explicit-default-differs', 'explicit-default-differs']
                for lv, key in zip(losses[1:], keys):
                    ctx.check(abs(lv - losses[0]) <= 1e-10, f'model/{kind}/{key}', f'{kind} model: another documented way of constructing the '
                              'same model gives another loss for the same state and parameters', {'losses': losses, 'dims': list(dims)}, point='api-surface')

    # call order: a few configurations again in the opposite order on fresh model objects ((3,2) before (2,3), rank 4 before rank 1),
    # and the very first configuration once more at the end of the process
    nrep = 7 if ctx.tier == 'quick' else 21
    replay = [done[i] for i in sorted({min(6, len(done) - 1), min(13, len(done) - 1)} | set(range(min(nrep, len(done)))))]
    for it, desc, dims, rho, rank in list(reversed(replay)) + [done[0]]:
        n_ens = max(2, rank) + (it % 2)
        cfg = {'model': kind, 'state': desc, 'dims': list(dims), 'rank': rank, 'ensemble': n_ens, 'pass': 'replay in reversed order'}
        ctx.set_case(cfg)
        ctx.workload('random')
        with ctx.guard(f'model/{kind}'):
            model, extra_cfg = build(dims, n_ens, rank, it)
            model.set_density_matrix(rho)
            nparam = sum(p.numel() for p in model.parameters())
            for scale in (0.1, 1.0, 10.0):
                numqi.optimize.set_model_flat_parameter(model, rng.normal(size=nparam) * scale)
                ctx.case('model-replay', kind, cfg, rho, scale, nontrivial=nontrivial(rho))
                with torch.no_grad():
                    model()
            ctx.hit('model/replayed-in-other-order')


# thorough tier: every random shard is run this many times with independent random streams (see vmon/runner.py get_shards)
THOROUGH_REPEAT = 3
