"""C12 - channel representations are equivalent and channels are contractive.

Monitors (contracts on the real numqi callables, evaluated on every call):
  * every conversion kraus/choi/super (+ hf_channel_to_*) and the three apply_* against the reference channel model
    vmon/ref/channel.py (explicit sum_k K rho K^dagger, Choi/super-operator built index by index from the documented
    conventions, own Gell-Mann basis for the Bloch picture);
  * choi_op_to_bloch_map against A[m,n] = Tr(G_m E(G_n))/2, b[m] = Tr(G_m E(I/d))/2;
  * hf_*_kraus_op: CPTP for every admissible rate, on every call whatever happened before (history monitor: the result
    must not alias an earlier result the caller has edited in place since; same monitor on all conversions / apply_*);
  * utils.get_fidelity / get_trace_distance / get_relative_entropy / get_von_neumann_entropy / get_Renyi_entropy against vmon/ref/qinfo.py,
    range and symmetry clauses, and - history/ghost-state monitor - the data-processing inequalities under the channel
    the workload registered last (images are produced by numqi's own apply_kraus_op);
  * rand_kraus_op / rand_choi_op (the producers of the channels): shape, dtype, CPTP.
Workloads: the complete (dim_in, dim_out, #Kraus, field) configuration grid for dims 1..5, hostile random channels,
isometries / unitaries / replacement / measure-prepare / partial-trace / redundant-Kraus channels, rank-deficient Choi
operators, built-in noise channels on a rate grid incl. the end points, torch backend, the ChannelCapacity1InfModel
optimisation and the repository's own channel tests running under the monitors.
Lesson 3 additions: conditioning-derived tolerances (trace distance relative to the distance, fidelity / relative entropy scaled by the
reference lambda_min of the input), shard `regimes` (near pairs, rounding-noise dense matrices, nearly rank-deficient Choi operators,
zero_eps / with_rho0 options, hf_channel_* with Kraus rank above dim_in^2, batches with one degenerate item), torch autograd modes
(same value with / without requires_grad, under no_grad, Pade route of the entropies, lazily conjugated tensors), contracts on
get_purity, gellmann_basis_to_matrix, ChannelCapacity1InfModel.forward (+ lifecycle histories), consumers get_Werner_ree / get_Isotropic_ree.
"""
import importlib.util
import math
import os

import numpy as np

from vmon.ref import channel as rc
from vmon.ref import qinfo as rq

RULE = ('a case is one channel (Kraus operators from numqi.random or from the reference Stinespring generator / a special '
        'family) pushed through every conversion, applied in all representations to 6 input states (full-rank, numqi '
        'rand_density_matrix, low-rank, pure, maximally mixed, basis/real) and used for the data-processing inequalities on up to 8 '
        'state pairs (generic, low-rank vs full, full vs low-rank, kets, identical, orthogonal kets, nearby, pure vs full); other cases: one (noise channel, rate) '
        'pair, one (noise channel, rate, equal-valued rate) edit-then-recall history, one state pair / batch for the functionals, one torch channel (all conversions / functionals '
        'in the autograd modes plain / requires-grad / no_grad / lazy-conj), one optimiser run, one capacity-model lifecycle (two instances, deepcopy, load_state_dict, channel replaced), '
        'one repository test; shard regimes: one near pair (eps 1e-3..1e-12 around I/d, a full-rank or a skewed state), one rounding-noise state pair / channel (1e-13..1e-16, no symmetry), '
        'one nearly rank-deficient channel (weight 1e-3..1e-9), one callable channel with Kraus rank above dim_in^2, one batch with one degenerate item. '
        'A channel case is non-trivial when dim_in*dim_out > 1 (the 1->1 channel is the scalar identity), a functional '
        'case when d >= 2; distinct by digest of (family, Kraus array) resp. (kind, arrays)')
EXHAUSTIVE = {'quick': True, 'thorough': True}
EXHAUSTIVE_DOMAINS = {
    'quick': ['all 25 (dim_in, dim_out) pairs in 1..5 x 1..5, each with the smallest admissible and the largest (din*dout) '
              'number of Kraus terms, complex and real: 90 configurations (the channel inside a configuration is sampled)',
              'built-in noise channels: 3 channels x 29 grid rates incl. 0 and 1 and their float neighbours (the rate itself is a continuum: 60 more random rates)'],
    'thorough': ['all 416 admissible configurations (dim_in, dim_out, #Kraus terms in ceil(din/dout)..din*dout, real/complex) '
                 'for dims 1..5 (the channel inside a configuration is sampled)',
                 'built-in noise channels: 3 channels x 29 grid rates incl. 0 and 1 and their float neighbours + 300 random rates'],
}
ASSUMPTIONS = [
    'conventions as documented in numqi: Kraus (terms, dim_out, dim_in); Choi index order (in, out, in, out) = sum_ij |i><j| (x) E(|i><j|); '
    'super-operator (dout*dout, din*din) acting on the row-major vectorisation; Bloch vector r_m = Tr(G_m rho)/2 in the '
    'order symmetric, antisymmetric, diagonal of the generalised Gell-Mann matrices with Tr G_m G_n = 2 delta_mn',
    'tolerances: 1e-10 (relative to max(1, |ref|)) for linear-algebra identities, exact equality for pure index permutations, '
    '1e-9 + N*zero_eps for Kraus operators recovered by eigen-decomposition, 1e-6 for fidelity when any state has an '
    'eigenvalue < 1e-6, else min(1e-9, 1e-12 + 1e2*eps/sqrt(lambda_min)); relative entropy min(1e-8, 1e-12 + 1e2*eps/lambda_min(sigma)), judged only '
    'when the second argument (and its image for the inequality) has lambda_min >= 1e-6; lambda_min is the reference spectrum of the INPUT; '
    'arguments that are hermitian only up to rounding noise keep the flat 1e-9 / 1e-8; trace distance is judged relative to the distance '
    '(1e-9*T + 1e-17 + d*hermitian defect of the difference, at most 1e-10); von Neumann entropy 1e-11 on the double-precision eigen route '
    '(measured on the unchanged tree: 3.2e-14 = d*eps*|log eps| of the machine-eps clip), 1e-6 on the Pade route, 1e-4 single precision',
    'ChannelCapacity1InfModel.forward is compared with the Holevo quantity of the ensemble its own manifolds produce (read under torch.no_grad() '
    'inside the contract) for the channel handed to set_channel_kraus_op of that instance; the manifolds themselves are judged by C01/C02',
    'rand_kraus_op(num_term, dim_in, dim_out) is only driven with num_term*dim_out >= dim_in; noise rates only in [0,1]',
    'get_Renyi_entropy: finiteness and the range [0, log d] are judged for every valid state; the value is compared with the reference '
    'only where the map is Lipschitz (alpha > 1, or lambda_min >= 1e-6): for alpha < 1 a rounding eigenvalue 1e-17 legitimately moves the result',
]
TECHNIQUE = ('runtime monitoring: reference-model contracts on every channel conversion / apply routine / functional, plus a '
             'ghost-state monitor that re-evaluates each functional on the images under the channel registered by the workload '
             '(data-processing inequalities)')
LEVEL_NOTE = ('Trusted base: numpy/torch/scipy numerics, the reference models vmon/ref/channel.py and vmon/ref/qinfo.py, the '
              'tolerance policy of DESIGN.md section 3. The configuration grid is enumerated completely, the channels and states '
              'inside a configuration are sampled: nothing is claimed about channels the workloads did not produce.')

P_CH = 'channel.'
DECIDING = [P_CH + n for n in (
    'kraus_op_to_choi_op', 'kraus_op_to_super_op', 'choi_op_to_kraus_op', 'choi_op_to_super_op', 'super_op_to_choi_op',
    'super_op_to_kraus_op', 'apply_kraus_op', 'apply_choi_op', 'apply_super_op', 'choi_op_to_bloch_map',
    'hf_dephasing_kraus_op', 'hf_depolarizing_kraus_op', 'hf_amplitude_damping_kraus_op', 'hf_channel_to_kraus_op',
    'hf_channel_to_choi_op')] + [
    'utils.get_fidelity', 'utils.get_trace_distance', 'utils.get_relative_entropy', 'utils.get_von_neumann_entropy',
    'utils.get_Renyi_entropy',
    'random.rand_kraus_op', 'random.rand_choi_op', 'gellmann.matrix_to_gellmann_basis', 'gellmann.dm_to_gellmann_basis',
    'equiv/all-representations', 'dpi/trace_distance', 'dpi/fidelity', 'dpi/relative_entropy',
    'fidelity/symmetric', 'fidelity/range', 'entropy/range', 'noise/cptp', 'noise/history', 'history/result-aliasing',
    'history/edit-then-recall',
    # lesson 3: numerical / shape regimes, torch evaluation modes, less prominent entry points, lifecycle of the consumer
    'regime/near-pair', 'entropy-batch/one-degenerate-item', 'torch-modes/same-value', 'utils.get_purity',
    'gellmann.gellmann_basis_to_matrix', 'channel.ChannelCapacity1InfModel.forward', 'capacity-model/lifecycle']

TOL = 1e-10
EPS = float(np.finfo(np.float64).eps)
DIMS = (1, 2, 3, 4, 5)


# ------------------------------------------------------------------------------------------------ shards
_LAYOUT_KINDS = set()


def _layout_variants(a):
    """same values, different memory layout / flags (numpy only)"""
    a = np.asarray(a)
    out = [('fortran', np.asfortranarray(a))]
    if a.ndim >= 2:
        perm = tuple(range(a.ndim - 2)) + (a.ndim - 1, a.ndim - 2)
        out.append(('transposed-view', np.ascontiguousarray(a.transpose(perm)).transpose(perm)))
    big = np.zeros(tuple(2 * n for n in a.shape), dtype=a.dtype)
    sl = tuple(slice(None, None, 2) for _ in a.shape)
    big[sl] = a
    out.append(('strided-view', big[sl]))
    ro = a.copy()
    ro.setflags(write=False)
    out.append(('read-only', ro))
    return out



def all_configs():
    ret = []
    for din in DIMS:
        for dout in DIMS:
            for nterm in range(-(-din // dout), din * dout + 1):
                for cplx in (True, False):
                    ret.append((din, dout, nterm, cplx))
    return ret


def shards(tier, seed):
    if tier == 'quick':
        ret = [{'name': 'grid-0', 'part': 0, 'nparts': 2}, {'name': 'grid-1', 'part': 1, 'nparts': 2},
               {'name': 'random-0', 'n': 60}, {'name': 'random-1', 'n': 60},
               {'name': 'special', 'n': 60}, {'name': 'choi-lowrank', 'n': 40},
               {'name': 'noise'}, {'name': 'functionals', 'n': 300}, {'name': 'torch', 'n': 40},
               {'name': 'realistic'}, {'name': 'repo-tests'}, {'name': 'regimes', 'n': 40}]
    else:
        ret = [{'name': f'grid-{i}', 'part': i, 'nparts': 4} for i in range(4)]
        ret += [{'name': f'random-{i}', 'n': 600} for i in range(8)]
        ret += [{'name': f'special-{i}', 'n': 450} for i in range(3)]
        ret += [{'name': f'choi-lowrank-{i}', 'n': 400} for i in range(2)]
        ret += [{'name': f'functionals-{i}', 'n': 2500} for i in range(3)]
        ret += [{'name': f'torch-{i}', 'n': 300} for i in range(2)]
        ret += [{'name': 'noise'}, {'name': 'realistic'}, {'name': 'repo-tests'}]
        ret += [{'name': f'regimes-{i}', 'n': 300} for i in range(2)]
    return ret


# ------------------------------------------------------------------------------------------------ helpers
def _np(x):
    try:
        import torch
        if isinstance(x, torch.Tensor):
            return x.detach().resolve_conj().cpu().numpy()
    except ImportError:  # pragma: no cover
        pass
    return np.asarray(x)


def _is_torch(x):
    try:
        import torch
        return isinstance(x, torch.Tensor)
    except ImportError:  # pragma: no cover
        return False


def _numeric(a):
    return isinstance(a, np.ndarray) and a.dtype.kind in 'fciub'


def _square(a, ndim=2):
    return _numeric(a) and a.ndim == ndim and a.shape[-1] == a.shape[-2] and a.shape[-1] >= 1


def _scale(*arrs):
    m = 1.0
    for a in arrs:
        a = np.asarray(a)
        if a.size and np.all(np.isfinite(a)):
            m = max(m, float(np.abs(a).max()))
    return m


class Ghost:
    """what only the workload knows: the channel it built last (used by the data-processing monitors)."""

    def __init__(self):
        self.kop = None
        self.din = None
        self.label = None
        self.tp_defect = 0.0
        self.model_kop = {}  # id(ChannelCapacity1InfModel instance) -> (instance, copy of the Kraus operators it was given)

    def set(self, kop, label):
        kop = np.asarray(kop)
        if rc.kraus_tp_defect(kop) <= 1e-9:  # the inequalities are claimed for CPTP maps only
            self.kop, self.din, self.label = kop, kop.shape[2], label
            self.tp_defect = float(rc.kraus_tp_defect(kop))  # (a producer's ill-conditioned draw may miss TP by up to 1e-10: enters the DPI tolerances)
        else:
            self.clear()

    def clear(self):
        self.kop = self.din = self.label = None


# ------------------------------------------------------------------------------------------------ monitors
def install(ctx, numqi, gh):
    Ch = numqi.channel._internal
    U = numqi.utils
    GM = numqi.gellmann
    R = numqi.random._internal
    worst = ctx.extra.setdefault('worst_abs_err', {})
    margins = ctx.extra.setdefault('smallest_margin', {})
    judged = ctx.extra.setdefault('judged', {})

    def count(name, n=1):
        judged[name] = judged.get(name, 0) + n

    def margin(name, val):
        val = float(val)
        if np.isfinite(val) and (name not in margins or val < margins[name]):
            margins[name] = val

    def make_alias_monitor(name, key):
        """history monitor: the array handed out by this call must not be (share memory with) an array handed out by an
        earlier call that its caller has edited in place since (a memoised / module-level result buffer). A result that
        is a view of one of the current arguments is plain numpy view semantics and is not judged."""
        earlier = []  # (reference to the returned array, snapshot of its value at return time)

        def observe(c, point='history/result-aliasing'):
            res = c.result
            parts = [r for r in (res if isinstance(res, tuple) else (res,)) if isinstance(r, np.ndarray) and r.size]
            if not parts:
                return
            arg_arrays = [a for a in list(c.args) + list(c.kwargs.values()) if isinstance(a, np.ndarray)]
            bad = None
            for r in parts:
                if any(np.shares_memory(r, a) for a in arg_arrays):
                    continue
                for ref, snap in earlier:
                    if (ref is r or np.shares_memory(ref, r)) and not (ref.shape == snap.shape and np.array_equal(ref, snap, equal_nan=True)):
                        bad = {'function': name, 'result_is_same_object': ref is r, 'value_at_earlier_return': snap, 'value_now': r}
                        break
            ctx.check(bad is None, key, f'{name}: the returned array is (shares memory with) the array returned by an earlier call, '
                      'which the caller has edited in place since: the edit leaks into this result', bad, point=point)
            for r in parts:
                earlier.append((r, r.copy()))
            del earlier[:-48]
        return observe

    def cmp(got, ref, tol, key, what, witness=None, point=None):
        g = _np(got)
        r = np.asarray(ref)
        if _numeric(g) and g.shape == r.shape and g.size:
            with np.errstate(all='ignore'):
                err = float(np.abs(g.astype(np.complex128) - r).max())
            if np.isfinite(err) and err > worst.get(key, -1.0):
                worst[key] = err
        if not _numeric(g):
            return ctx.check(False, key + '/type', f'{what}: result is not a numeric array', {'type': repr(type(got))}, point)
        return ctx.close(g, r, tol, key, what, witness, point)

    # ------------------------------------------------------------ conversions
    def post_kraus_to_choi(c):
        if c.exc is not None:
            return
        op = _np(c.args[0])
        if not (_numeric(op) and op.ndim == 3 and op.size):
            return
        ref = rc.choi_from_kraus(op)
        cmp(c.result, ref, TOL * _scale(ref), 'kraus_to_choi/value',
            'kraus_op_to_choi_op differs from C[i,a,j,b] = E(|i><j|)[a,b] of sum_k K rho K^dagger', {'kraus': op})
        if _is_torch(c.args[0]):
            ctx.check(_is_torch(c.result), 'kraus_to_choi/torch-type', 'torch input must give a torch result', {'type': repr(type(c.result))})

    _alias_kraus_op_to_choi_op = make_alias_monitor('kraus_op_to_choi_op', 'kraus_op_to_choi_op/result-aliases-earlier-call')

    def post_kraus_to_choi_h(c, _inner=post_kraus_to_choi, _alias=_alias_kraus_op_to_choi_op):
        if c.exc is None:
            _alias(c)
        _inner(c)

    ctx.attach(Ch, 'kraus_op_to_choi_op', post=post_kraus_to_choi_h, point=P_CH + 'kraus_op_to_choi_op')

    def post_kraus_to_super(c):
        if c.exc is not None:
            return
        op = _np(c.args[0])
        if not (_numeric(op) and op.ndim == 3 and op.size):
            return
        ref = rc.super_from_kraus(op)
        cmp(c.result, ref, TOL * _scale(ref), 'kraus_to_super/value',
            'kraus_op_to_super_op differs from S[(a,b),(i,j)] = E(|i><j|)[a,b] (row-major vectorisation)', {'kraus': op})

    _alias_kraus_op_to_super_op = make_alias_monitor('kraus_op_to_super_op', 'kraus_op_to_super_op/result-aliases-earlier-call')

    def post_kraus_to_super_h(c, _inner=post_kraus_to_super, _alias=_alias_kraus_op_to_super_op):
        if c.exc is None:
            _alias(c)
        _inner(c)

    ctx.attach(Ch, 'kraus_op_to_super_op', post=post_kraus_to_super_h, point=P_CH + 'kraus_op_to_super_op')

    def post_choi_to_super(c):
        if c.exc is not None:
            return
        op = _np(c.args[0])
        din = c.arg(1, 'dim_in')
        if not (_square(op) and isinstance(din, (int, np.integer)) and din >= 1 and op.shape[0] % din == 0):
            return
        dout = op.shape[0] // din
        ref = rc.super_from_choi4(op.reshape(din, dout, din, dout))
        cmp(c.result, ref, 0.0, 'choi_to_super/value',
            'choi_op_to_super_op is not the index permutation S[(a,b),(i,j)] = C[(i,a),(j,b)]', {'choi': op, 'dim_in': int(din)})

    _alias_choi_op_to_super_op = make_alias_monitor('choi_op_to_super_op', 'choi_op_to_super_op/result-aliases-earlier-call')

    def post_choi_to_super_h(c, _inner=post_choi_to_super, _alias=_alias_choi_op_to_super_op):
        if c.exc is None:
            _alias(c)
        _inner(c)

    ctx.attach(Ch, 'choi_op_to_super_op', post=post_choi_to_super_h, point=P_CH + 'choi_op_to_super_op')

    def _super_dims(op):
        if not (_numeric(op) and op.ndim == 2 and op.size):
            return None
        dout, din = rc.isqrt_exact(op.shape[0]), rc.isqrt_exact(op.shape[1])
        return None if (din is None or dout is None) else (din, dout)

    def post_super_to_choi(c):
        if c.exc is not None:
            return
        op = _np(c.args[0])
        dims = _super_dims(op)
        if dims is None:
            return
        din, dout = dims
        ref = rc.choi4_from_super(op, din, dout).reshape(din * dout, din * dout)
        cmp(c.result, ref, 0.0, 'super_to_choi/value',
            'super_op_to_choi_op is not the index permutation C[(i,a),(j,b)] = S[(a,b),(i,j)]', {'super': op})

    _alias_super_op_to_choi_op = make_alias_monitor('super_op_to_choi_op', 'super_op_to_choi_op/result-aliases-earlier-call')

    def post_super_to_choi_h(c, _inner=post_super_to_choi, _alias=_alias_super_op_to_choi_op):
        if c.exc is None:
            _alias(c)
        _inner(c)

    ctx.attach(Ch, 'super_op_to_choi_op', post=post_super_to_choi_h, point=P_CH + 'super_op_to_choi_op')

    def _kraus_back(res, target, din, dout, zero_eps, key, name, build):
        """`res` must be Kraus operators (r, dout, din) of the completely positive map whose Choi matrix is `target`."""
        n = din * dout
        ok = _numeric(res) and res.ndim == 3 and res.shape[1:] == (dout, din) and res.shape[0] <= n
        ctx.check(ok, key + '/shape', f'{name}: result is not (terms<=din*dout, dim_out, dim_in)',
                  {'shape': list(np.shape(res)), 'din': din, 'dout': dout})
        if not ok:
            return
        evl = np.linalg.eigvalsh(rq.herm(target))
        if np.all(np.abs(evl - zero_eps) > 1e-12):
            ctx.check(res.shape[0] == int((evl >= zero_eps).sum()), key + '/num-term-vs-rank',
                      f'{name}: number of Kraus terms differs from the number of Choi eigenvalues >= zero_eps',
                      {'terms': int(res.shape[0]), 'eigenvalues': evl, 'zero_eps': zero_eps})
        back = build(res)
        cmp(back, target if build is rc.choi_from_kraus else rc.super_from_choi4(target.reshape(din, dout, din, dout)),
            1e-9 * _scale(target) + n * abs(zero_eps), key + '/channel',
            f'{name}: the returned Kraus operators do not represent the input channel (reference sum_k K . K^dagger)',
            {'din': din, 'dout': dout, 'terms': int(res.shape[0]), 'choi': target})

    def post_choi_to_kraus(c):
        if c.exc is not None:
            return
        op = _np(c.args[0])
        din = c.arg(1, 'dim_in')
        zero_eps = c.arg(2, 'zero_eps', 1e-10)
        if not (_square(op) and isinstance(din, (int, np.integer)) and din >= 1 and op.shape[0] % din == 0):
            return
        if rc.hermitian_defect(op) > 1e-9 or rc.min_eig(op) < -1e-9:
            ctx.inconclusive('choi_to_kraus/input-not-psd')
            return
        _kraus_back(_np(c.result), op.astype(np.complex128), int(din), op.shape[0] // int(din), float(zero_eps), 'choi_to_kraus',
                    'choi_op_to_kraus_op', rc.choi_from_kraus)

    _alias_choi_op_to_kraus_op = make_alias_monitor('choi_op_to_kraus_op', 'choi_op_to_kraus_op/result-aliases-earlier-call')

    def post_choi_to_kraus_h(c, _inner=post_choi_to_kraus, _alias=_alias_choi_op_to_kraus_op):
        if c.exc is None:
            _alias(c)
        _inner(c)

    ctx.attach(Ch, 'choi_op_to_kraus_op', post=post_choi_to_kraus_h, point=P_CH + 'choi_op_to_kraus_op')

    def post_super_to_kraus(c):
        if c.exc is not None:
            return
        op = _np(c.args[0])
        zero_eps = c.arg(1, 'zero_eps', 1e-10)
        dims = _super_dims(op)
        if dims is None:
            return
        din, dout = dims
        choi = rc.choi4_from_super(op, din, dout).reshape(din * dout, din * dout)
        if rc.hermitian_defect(choi) > 1e-9 or rc.min_eig(choi) < -1e-9:
            ctx.inconclusive('super_to_kraus/input-not-cp')
            return
        _kraus_back(_np(c.result), choi, din, dout, float(zero_eps), 'super_to_kraus', 'super_op_to_kraus_op', rc.super_from_kraus)

    _alias_super_op_to_kraus_op = make_alias_monitor('super_op_to_kraus_op', 'super_op_to_kraus_op/result-aliases-earlier-call')

    def post_super_to_kraus_h(c, _inner=post_super_to_kraus, _alias=_alias_super_op_to_kraus_op):
        if c.exc is None:
            _alias(c)
        _inner(c)

    ctx.attach(Ch, 'super_op_to_kraus_op', post=post_super_to_kraus_h, point=P_CH + 'super_op_to_kraus_op')

    # ------------------------------------------------------------ apply
    def _torch_type(c, key):
        if _is_torch(c.args[0]) and _is_torch(c.args[1]):
            ctx.check(_is_torch(c.result), key + '/torch-type', 'torch inputs must give a torch result', {'type': repr(type(c.result))})

    def post_apply_kraus(c):
        if c.exc is not None:
            return
        op, rho = _np(c.args[0]), _np(c.args[1])
        if not (_numeric(op) and op.ndim == 3 and op.size and _square(rho) and rho.shape[0] == op.shape[2]):
            return
        ref = rc.apply_kraus(op, rho)
        cmp(c.result, ref, TOL * _scale(ref), 'apply_kraus/value', 'apply_kraus_op differs from sum_k K rho K^dagger',
            {'kraus': op, 'rho': rho})
        _torch_type(c, 'apply_kraus')
        if rc.kraus_tp_defect(op) <= 1e-9 and rc.is_state(rho):
            out = _np(c.result)
            ok = _square(out) and rc.is_state(out, 1e-8)
            ctx.check(ok, 'apply_kraus/output-not-a-state', 'a trace-preserving Kraus family maps a density matrix to a non-state',
                      {'kraus': op, 'rho': rho, 'out': out})

    _alias_apply_kraus_op = make_alias_monitor('apply_kraus_op', 'apply_kraus_op/result-aliases-earlier-call')

    def post_apply_kraus_h(c, _inner=post_apply_kraus, _alias=_alias_apply_kraus_op):
        if c.exc is None:
            _alias(c)
        _inner(c)

    ctx.attach(Ch, 'apply_kraus_op', post=post_apply_kraus_h, point=P_CH + 'apply_kraus_op')

    def post_apply_choi(c):
        if c.exc is not None:
            return
        op, rho = _np(c.args[0]), _np(c.args[1])
        if not (_square(op) and _square(rho) and op.shape[0] % rho.shape[0] == 0):
            return
        din = rho.shape[0]
        dout = op.shape[0] // din
        ref = rc.apply_choi4(op.reshape(din, dout, din, dout), rho)
        cmp(c.result, ref, TOL * _scale(ref), 'apply_choi/value',
            'apply_choi_op differs from sum_ij rho[i,j] C[i,:,j,:] (documented (in,out,in,out) order)', {'choi': op, 'rho': rho})
        _torch_type(c, 'apply_choi')

    _alias_apply_choi_op = make_alias_monitor('apply_choi_op', 'apply_choi_op/result-aliases-earlier-call')

    def post_apply_choi_h(c, _inner=post_apply_choi, _alias=_alias_apply_choi_op):
        if c.exc is None:
            _alias(c)
        _inner(c)

    ctx.attach(Ch, 'apply_choi_op', post=post_apply_choi_h, point=P_CH + 'apply_choi_op')

    def post_apply_super(c):
        if c.exc is not None:
            return
        op, rho = _np(c.args[0]), _np(c.args[1])
        if not (_square(rho) and _super_dims(op) is not None and op.shape[1] == rho.shape[0]**2):
            return
        ref = rc.apply_super(op, rho)
        cmp(c.result, ref, TOL * _scale(ref), 'apply_super/value',
            'apply_super_op differs from out[a,b] = sum_ij S[(a,b),(i,j)] rho[i,j]', {'super': op, 'rho': rho})
        _torch_type(c, 'apply_super')

    _alias_apply_super_op = make_alias_monitor('apply_super_op', 'apply_super_op/result-aliases-earlier-call')

    def post_apply_super_h(c, _inner=post_apply_super, _alias=_alias_apply_super_op):
        if c.exc is None:
            _alias(c)
        _inner(c)

    ctx.attach(Ch, 'apply_super_op', post=post_apply_super_h, point=P_CH + 'apply_super_op')

    # ------------------------------------------------------------ Bloch picture
    def post_bloch_map(c):
        if c.exc is not None:
            return
        op = _np(c.args[0])
        if not (_numeric(op) and op.ndim == 4 and op.shape[0] == op.shape[2] and op.shape[1] == op.shape[3] and op.size):
            return
        din, dout = op.shape[:2]
        if rc.hermitian_defect(op.reshape(din * dout, din * dout)) > 1e-9 or rc.choi4_tp_defect(op) > 1e-9:
            ctx.inconclusive('bloch_map/input-not-hermitian-TP')
            return
        res = c.result
        ok = isinstance(res, tuple) and len(res) == 2
        ctx.check(ok, 'bloch_map/shape', 'choi_op_to_bloch_map must return (matA, vecb)', {'type': repr(type(res))})
        if not ok:
            return
        aref, bref = rc.bloch_map_from_choi4(op.astype(np.complex128))
        if np.abs(aref.imag).max(initial=0) > 1e-9 or np.abs(bref.imag).max(initial=0) > 1e-9:
            ctx.inconclusive('bloch_map/reference-not-real')
            return
        matA, vecb = _np(res[0]), _np(res[1])
        ctx.check(_numeric(matA) and _numeric(vecb) and matA.dtype.kind == 'f' and vecb.dtype.kind == 'f', 'bloch_map/real-dtype',
                  'Bloch map of a hermiticity-preserving map must be real', {'dtypes': [str(getattr(matA, 'dtype', None)), str(getattr(vecb, 'dtype', None))]})
        w = {'din': din, 'dout': dout, 'choi': op.reshape(din * dout, din * dout)}
        cmp(matA, aref.real, TOL * _scale(aref), 'bloch_map/matA', 'matA differs from A[m,n] = Tr(G_m E(G_n))/2 (explicit basis expansion)', w)
        cmp(vecb, bref.real, TOL * _scale(bref), 'bloch_map/vecb', 'vecb differs from b[m] = Tr(G_m E(I/d_in))/2 (explicit basis expansion)', w)

    _alias_choi_op_to_bloch_map = make_alias_monitor('choi_op_to_bloch_map', 'choi_op_to_bloch_map/result-aliases-earlier-call')

    def post_bloch_map_h(c, _inner=post_bloch_map, _alias=_alias_choi_op_to_bloch_map):
        if c.exc is None:
            _alias(c)
        _inner(c)

    ctx.attach(Ch, 'choi_op_to_bloch_map', post=post_bloch_map_h, point=P_CH + 'choi_op_to_bloch_map')

    def post_matrix_to_gm(c):
        if c.exc is not None:
            return
        a = _np(c.args[0])
        if not (_numeric(a) and a.ndim >= 2 and a.shape[-1] == a.shape[-2] and 1 <= a.shape[-1] <= 8 and a.size):
            return
        res = _np(c.result)
        d = a.shape[-1]
        ok = _numeric(res) and res.shape == a.shape[:-2] + (d * d,)
        ctx.check(ok, 'gellmann/matrix_to_basis/shape', 'matrix_to_gellmann_basis must return (..., d*d)', {'in': a.shape, 'out': np.shape(res)})
        if not ok:
            return
        mats = a.reshape(-1, d, d)
        vecs = res.reshape(-1, d * d)
        idx = range(len(mats)) if len(mats) <= 32 else [int(t) for t in np.linspace(0, len(mats) - 1, 32)]
        tol = 1e-4 if a.dtype in (np.float32, np.complex64) else TOL
        for t in idx:
            ref = rc.gellmann_coefficients(mats[t])
            if not cmp(vecs[t], ref, tol * _scale(ref), 'gellmann/matrix_to_basis/value',
                       'matrix_to_gellmann_basis differs from v_m = Tr(G_m A)/2 (own Gell-Mann basis, documented order)', {'A': mats[t]}):
                break

    ctx.attach(GM, 'matrix_to_gellmann_basis', post=post_matrix_to_gm, point='gellmann.matrix_to_gellmann_basis')

    def post_dm_to_gm(c):
        if c.exc is not None:
            return
        a = _np(c.args[0])
        with_rho0 = c.arg(1, 'with_rho0', False)
        if with_rho0:
            # less prominent option: the identity coefficient Tr(rho)/sqrt(2d) is kept as last entry
            if _square(a) and 1 <= a.shape[0] <= 8:
                ref = rc.gellmann_coefficients(a)
                cmp(c.result, ref.real, TOL * _scale(ref), 'gellmann/dm_to_basis(with_rho0)/value',
                    'dm_to_gellmann_basis(with_rho0=True) differs from (Tr(G_m rho)/2 ..., Tr(rho)/sqrt(2d))', {'rho': a})
            return
        if not (_square(a) and 2 <= a.shape[0] <= 8):
            return
        ref = rc.bloch_vector(a)
        cmp(c.result, ref.real, TOL * _scale(ref), 'gellmann/dm_to_basis/value', 'dm_to_gellmann_basis differs from r_m = Tr(G_m rho)/2', {'rho': a})

    ctx.attach(GM, 'dm_to_gellmann_basis', post=post_dm_to_gm, point='gellmann.dm_to_gellmann_basis')

    def post_gm_to_matrix(c):
        if c.exc is not None:
            return
        v = _np(c.args[0])
        if not (_numeric(v) and v.ndim >= 1 and v.size and v.shape[-1] >= 1):
            return
        d = rc.isqrt_exact(v.shape[-1])
        if d is None or d > 8:
            return
        res = _np(c.result)
        ok = _numeric(res) and res.shape == v.shape[:-1] + (d, d)
        ctx.check(ok, 'gellmann/basis_to_matrix/shape', 'gellmann_basis_to_matrix must return (..., d, d)', {'in': v.shape, 'out': np.shape(res)})
        if not ok:
            return
        vecs, mats = v.reshape(-1, d * d), res.reshape(-1, d, d)
        basis = rc.gellmann_basis(d) + [np.sqrt(2 / d) * np.eye(d)]
        tol = 1e-4 if v.dtype in (np.float32, np.complex64) else TOL
        for t in (range(len(vecs)) if len(vecs) <= 16 else [int(x) for x in np.linspace(0, len(vecs) - 1, 16)]):
            ref = sum(cf * g for cf, g in zip(vecs[t].astype(np.complex128), basis))
            if not cmp(mats[t], ref, tol * _scale(ref), 'gellmann/basis_to_matrix/value',
                       'gellmann_basis_to_matrix differs from sum_m v_m G_m (own Gell-Mann basis, identity element sqrt(2/d) I last)', {'v': vecs[t]}):
                break

    ctx.attach(GM, 'gellmann_basis_to_matrix', post=post_gm_to_matrix, point='gellmann.gellmann_basis_to_matrix')

    def post_gm_to_dm(c):
        if c.exc is not None:
            return
        v = _np(c.args[0])
        if not (_numeric(v) and v.ndim == 1 and v.size >= 3):
            return
        d = rc.isqrt_exact(v.size + 1)
        if d is None or d > 8:
            return
        ref = rc.bloch_to_dm(v, d)
        cmp(c.result, ref, TOL * _scale(ref), 'gellmann/basis_to_dm/value', 'gellmann_basis_to_dm differs from I/d + sum r_m G_m', {'r': v})

    ctx.attach(GM, 'gellmann_basis_to_dm', post=post_gm_to_dm, point='gellmann.gellmann_basis_to_dm')

    # ------------------------------------------------------------ built-in noise channels
    def make_post_noise(name):
        alias = make_alias_monitor(f'hf_{name}_kraus_op', 'hf_kraus_op/result-aliases-earlier-call')

        def post(c):
            rate = c.arg(0, 'noise_rate')
            if c.exc is None:
                alias(c, point='noise/history')
            try:
                admissible = 0 <= float(rate) <= 1
            except Exception:
                return
            if not admissible:
                return
            w = {'channel': name, 'rate': float(rate), 'rate_type': type(rate).__name__}
            if c.exc is not None:
                ctx.check(False, f'noise/{name}/raises/{type(c.exc).__name__}', f'{name} raises for a rate in [0,1]',
                          {**w, 'exception': repr(c.exc)[:300]}, point='noise/cptp')
                return
            k = _np(c.result)
            ok = _numeric(k) and k.ndim == 3 and k.shape[1:] == (2, 2) and k.shape[0] >= 1
            ctx.check(ok, f'noise/{name}/shape', f'{name} must return (terms,2,2)', {**w, 'shape': list(np.shape(k))}, point='noise/cptp')
            if not ok:
                return
            if not ctx.check(bool(np.all(np.isfinite(k))), f'noise/{name}/non-finite', f'{name} returns NaN/Inf for a rate in [0,1]', {**w, 'kraus': k}):
                return
            # precision of the *input*: a float32 rate gives float32 square roots (DESIGN section 3)
            single = isinstance(rate, np.floating) and np.finfo(type(rate)).eps > 1e-10
            tol = 1e2 * float(np.finfo(type(rate)).eps) if single else 1e-12
            d = rc.kraus_tp_defect(k)
            if not single:
                worst[f'noise/{name}/tp-defect'] = max(worst.get(f'noise/{name}/tp-defect', 0.0), d)
            ctx.check(d <= tol, f'noise/{name}/not-trace-preserving', f'{name}: sum_k K^dagger K != I for a rate in [0,1]',
                      {**w, 'tp_defect': d, 'kraus': k})
            choi = rc.choi_from_kraus(k)
            ctx.check(rc.min_eig(choi) >= -tol and rc.hermitian_defect(choi) <= tol and rc.choi4_tp_defect(choi.reshape(2, 2, 2, 2)) <= tol,
                      f'noise/{name}/choi-not-cptp', f'{name}: reference Choi operator is not PSD with Tr_out = I', {**w, 'kraus': k})
        return post

    for nm in ('dephasing', 'depolarizing', 'amplitude_damping'):
        ctx.attach(Ch, f'hf_{nm}_kraus_op', post=make_post_noise(nm), point=P_CH + f'hf_{nm}_kraus_op')

    # ------------------------------------------------------------ hf_channel_to_*
    def _choi4_of_callable(hf, din):
        outs = {}
        for i in range(din):
            for j in range(din):
                u = np.zeros((din, din), dtype=np.float64)
                u[i, j] = 1
                o = _np(hf(u))
                if not _square(o):
                    return None
                outs[(i, j)] = o
        dout = outs[(0, 0)].shape[0]
        c4 = np.zeros((din, dout, din, dout), dtype=np.complex128)
        for (i, j), o in outs.items():
            if o.shape != (dout, dout):
                return None
            c4[i, :, j, :] = o
        return c4

    def post_hf_to_choi(c):
        if c.exc is not None:
            return
        hf, din = c.args[0], c.arg(1, 'dim_in')
        if not (callable(hf) and isinstance(din, (int, np.integer)) and 1 <= din <= 8):
            return
        c4 = _choi4_of_callable(hf, int(din))
        if c4 is None:
            return
        cmp(c.result, c4, TOL * _scale(c4), 'hf_channel_to_choi/value', 'hf_channel_to_choi_op differs from C[i,a,j,b] = hf(|i><j|)[a,b]', {'din': int(din)})

    ctx.attach(Ch, 'hf_channel_to_choi_op', post=post_hf_to_choi, point=P_CH + 'hf_channel_to_choi_op')

    def post_hf_to_kraus(c):
        if c.exc is not None:
            return
        hf, din = c.args[0], c.arg(1, 'dim_in')
        if not (callable(hf) and isinstance(din, (int, np.integer)) and 1 <= din <= 8):
            return
        c4 = _choi4_of_callable(hf, int(din))
        if c4 is None:
            return
        dout = c4.shape[1]
        choi = c4.reshape(din * dout, din * dout)
        if rc.hermitian_defect(choi) > 1e-9 or rc.min_eig(choi) < -1e-9:
            ctx.inconclusive('hf_channel_to_kraus/input-not-cp')
            return
        _kraus_back(_np(c.result), choi, int(din), dout, 1e-10, 'hf_channel_to_kraus', 'hf_channel_to_kraus_op', rc.choi_from_kraus)

    ctx.attach(Ch, 'hf_channel_to_kraus_op', post=post_hf_to_kraus, point=P_CH + 'hf_channel_to_kraus_op')

    # ------------------------------------------------------------ producers
    def pre_rand_kraus(c):
        # condition estimate only (never an oracle): the Gaussian block the documented construction orthonormalises
        seed = c.arg(4, 'seed')
        try:
            nterm, din, dout = int(c.arg(0, 'num_term')), int(c.arg(1, 'dim_in')), int(c.arg(2, 'dim_out'))
            cplx = bool(c.arg(3, 'tag_complex', True))
        except Exception:
            return None
        if isinstance(seed, (int, np.integer)) and not isinstance(seed, bool):
            g = np.random.default_rng(int(seed))
            z = g.normal(size=(nterm, dout, din * 2 if cplx else din))
            z = z.view(np.complex128) if cplx else z
            sv = np.linalg.svd(z.reshape(-1, din), compute_uv=False)
            return float(sv.max() / sv.min()) if sv.min() > 0 else float('inf')
        return None

    def post_rand_kraus(c):
        try:
            nterm, din, dout = int(c.arg(0, 'num_term')), int(c.arg(1, 'dim_in')), int(c.arg(2, 'dim_out'))
        except Exception:
            return
        cplx = bool(c.arg(3, 'tag_complex', True))
        if nterm * dout < din or min(nterm, din, dout) < 1:
            return  # inadmissible arguments: completeness is impossible
        w = {'num_term': nterm, 'dim_in': din, 'dim_out': dout, 'tag_complex': cplx, 'seed': repr(c.arg(4, 'seed'))}
        if c.exc is not None:
            if c.snap is not None and c.snap > 1e5:
                ctx.inconclusive('rand_kraus_op/ill-conditioned-draw')
            return
        k = _np(c.result)
        ok = _numeric(k) and k.shape == (nterm, dout, din) and k.dtype == (np.complex128 if cplx else np.float64)
        ctx.check(ok, 'rand_kraus_op/shape-dtype', 'rand_kraus_op must return (num_term, dim_out, dim_in) complex128 / float64',
                  {**w, 'shape': list(np.shape(k)), 'dtype': str(getattr(k, 'dtype', None))})
        if not ok:
            return
        kappa = c.snap
        tol = 1e-6 if kappa is None else 1e3 * np.finfo(np.float64).eps * kappa**2
        if tol > 1e-6:
            ctx.inconclusive('rand_kraus_op/ill-conditioned-draw')
            return
        d = rc.kraus_tp_defect(k)
        worst['rand_kraus_op/tp-defect'] = max(worst.get('rand_kraus_op/tp-defect', 0.0), d)
        ctx.check(d <= max(tol, 1e-10), 'rand_kraus_op/not-trace-preserving', 'rand_kraus_op: sum_k K^dagger K != I',
                  {**w, 'tp_defect': d, 'cond_estimate': kappa})

    ctx.attach(R, 'rand_kraus_op', post=post_rand_kraus, pre=pre_rand_kraus, point='random.rand_kraus_op')

    def post_rand_choi(c):
        if c.exc is not None:
            return
        try:
            din, dout = int(c.arg(0, 'dim_in')), int(c.arg(1, 'dim_out'))
        except Exception:
            return
        rank = c.arg(2, 'rank')
        n = din * dout
        if rank is not None and int(rank) * dout < din:
            return  # the partial trace cannot be made invertible: inadmissible
        op = _np(c.result)
        ok = _numeric(op) and op.shape == (n, n)
        w = {'dim_in': din, 'dim_out': dout, 'rank': rank}
        ctx.check(ok, 'rand_choi_op/shape', 'rand_choi_op must return (din*dout, din*dout)', {**w, 'shape': list(np.shape(op))})
        if not ok:
            return
        hd, me, tp = rc.hermitian_defect(op), rc.min_eig(op), rc.choi4_tp_defect(op.reshape(din, dout, din, dout))
        worst['rand_choi_op/tp-defect'] = max(worst.get('rand_choi_op/tp-defect', 0.0), tp)
        ctx.check(hd <= 1e-6 and me >= -1e-6 and tp <= 1e-6, 'rand_choi_op/not-cptp', 'rand_choi_op: result is not PSD with Tr_out = I',
                  {**w, 'hermitian_defect': hd, 'min_eig': me, 'tp_defect': tp})

    ctx.attach(R, 'rand_choi_op', post=post_rand_choi, point='random.rand_choi_op')

    # ------------------------------------------------------------ functionals + data processing
    def _state_arg(x, tol=1e-9):
        """numpy density matrix of an argument (ket or dm) or None when it is not a valid state."""
        a = _np(x)
        if not _numeric(a) or not np.all(np.isfinite(a)):
            return None
        if a.ndim == 1 and a.size >= 1:
            if abs(np.vdot(a, a).real - 1) > tol:
                return None
            return rq.as_dm(a)
        if _square(a) and rc.is_state(a, tol):
            return a.astype(np.complex128)
        return None

    def _like(img, proto):
        if _is_torch(proto):
            import torch
            return torch.tensor(img, dtype=torch.complex128)
        return img

    def _images(*dms):
        """images under the registered channel, produced by numqi's own apply_kraus_op (quiet: not self-observed)."""
        if gh.kop is None or any(d.shape[0] != gh.din for d in dms):
            return None
        outs = [_np(Ch.apply_kraus_op(gh.kop, d)) for d in dms]
        for o, d in zip(outs, dms):
            if not (_square(o) and rc.is_state(o, 1e-8)):
                return None  # reported by the apply_kraus_op contract, not here
        return [o.astype(np.complex128) for o in outs]

    def _scalar(x):
        a = _np(x)
        if _numeric(a) and a.size == 1:
            v = complex(a.reshape(-1)[0])
            if abs(v.imag) <= 1e-12:
                return float(v.real)
        return None

    def post_fidelity(c):
        if c.exc is not None or len(c.args) + len(c.kwargs) < 2:
            return
        x0, x1 = c.arg(0, 'rho0'), c.arg(1, 'rho1')
        d0, d1 = _state_arg(x0), _state_arg(x1)
        if d0 is None or d1 is None or d0.shape != d1.shape:
            ctx.inconclusive('fidelity/argument-not-a-state')
            return
        f = _scalar(c.result)
        w = {'rho0': _np(x0), 'rho1': _np(x1), 'got': repr(c.result)[:80]}
        if not ctx.check(f is not None and np.isfinite(f), 'fidelity/not-a-real-scalar', 'get_fidelity must return a finite real scalar', w):
            return
        lam_min = float(min(rq.spectrum(d0).min(), rq.spectrum(d1).min()))
        lowrank = lam_min < 1e-6
        # condition of the sqrt-type formula at THIS input (DESIGN section 3): 1/sqrt(lambda_min) of the arguments, computed by the
        # reference; arguments that are hermitian only up to rounding noise keep the flat tolerance (eigh reads one triangle)
        exact_herm = max(rc.hermitian_defect(d0), rc.hermitian_defect(d1)) <= 1e-16
        tol = 1e-6 if lowrank else (min(1e-9, 1e-12 + 1e2 * EPS / math.sqrt(lam_min)) if exact_herm else 1e-9)
        ref = rq.fidelity(d0, d1)
        worst_key = 'fidelity/value(low-rank)' if lowrank else 'fidelity/value(full-rank)'
        worst[worst_key] = max(worst.get(worst_key, 0.0), abs(f - ref))
        ctx.check(abs(f - ref) <= tol, 'fidelity/value', 'get_fidelity differs from ||sqrt(rho) sqrt(sigma)||_1^2 (reference, SVD)',
                  {**w, 'got': f, 'expected': ref, 'tol': tol})
        tol_r = max(tol, 1e-9)  # (arguments are states up to 1e-9 in trace)
        ctx.check(-tol_r <= f <= 1 + tol_r, 'fidelity/out-of-[0,1]', 'fidelity outside [0,1]', {**w, 'got': f}, point='fidelity/range')
        f_sw = _scalar(c.func(x1, x0))
        ctx.check(f_sw is not None and abs(f_sw - f) <= tol, 'fidelity/not-symmetric', 'F(rho,sigma) != F(sigma,rho)',
                  {**w, 'got': f, 'swapped': f_sw}, point='fidelity/symmetric')
        if _is_torch(x0) and _is_torch(x1):
            ctx.check(_is_torch(c.result), 'fidelity/torch-type', 'torch inputs must give a torch result', {'type': repr(type(c.result))})
        im = _images(d0, d1)
        if im is not None:
            lr_img = min(rq.spectrum(im[0]).min(), rq.spectrum(im[1]).min()) < 1e-6
            tol2 = (1e-6 if (lowrank or lr_img) else 1e-9) + 10 * gh.tp_defect
            f_img = _scalar(c.func(_like(im[0], x0), _like(im[1], x1)))
            if f_img is not None:
                margin('F(E rho,E sigma) - F(rho,sigma)', f_img - f)
                count('dpi/fidelity')
            ctx.check(f_img is not None and f_img >= f - tol2, 'dpi/fidelity-decreased',
                      'fidelity decreased under a CPTP channel (images by apply_kraus_op)',
                      {**w, 'channel': gh.label, 'kraus': gh.kop, 'F_in': f, 'F_out': f_img}, point='dpi/fidelity')

    ctx.attach(U, 'get_fidelity', post=post_fidelity, point='utils.get_fidelity')

    def post_trace_distance(c):
        if c.exc is not None or len(c.args) + len(c.kwargs) < 2:
            return
        x0, x1 = c.arg(0, 'rho'), c.arg(1, 'sigma')
        a0, a1 = _np(x0), _np(x1)
        if not (_square(a0) and _square(a1) and a0.shape == a1.shape and rc.hermitian_defect(a0 - a1) <= 1e-10):
            return
        t = _scalar(c.result)
        w = {'rho': a0, 'sigma': a1, 'got': repr(c.result)[:80]}
        if not ctx.check(t is not None and np.isfinite(t), 'trace_distance/not-a-real-scalar', 'get_trace_distance must return a finite real scalar', w):
            return
        ref = rq.trace_distance(a0, a1)
        worst['trace_distance/value'] = max(worst.get('trace_distance/value', 0.0), abs(t - ref))
        # the difference rho - sigma is formed identically by every implementation: the eigen-solver error is relative to ||rho-sigma||
        # (measured on the unchanged tree: <= 1e-15 * ||rho-sigma||_1 for distances 1e-4 .. 1e-14), so nearby states are judged relatively
        tol_t = min(TOL * _scale(ref), 1e-9 * ref + 1e-17 + a0.shape[0] * rc.hermitian_defect(a0 - a1))  # (eigvalsh reads one triangle)
        ctx.check(abs(t - ref) <= tol_t, 'trace_distance/value', 'get_trace_distance differs from ||rho-sigma||_1/2 (reference, SVD)',
                  {**w, 'got': t, 'expected': ref, 'tol': tol_t})
        d0, d1 = _state_arg(a0), _state_arg(a1)
        if d0 is None or d1 is None:
            return
        ctx.check(-TOL <= t <= 1 + 1e-9, 'trace_distance/out-of-[0,1]', 'trace distance of two states outside [0,1]', {**w, 'got': t})
        im = _images(d0, d1)
        if im is not None:
            t_img = _scalar(c.func(im[0], im[1]))
            if t_img is not None:
                margin('T(rho,sigma) - T(E rho,E sigma)', t - t_img)
                count('dpi/trace_distance')
            ctx.check(t_img is not None and t_img <= t + 1e-9 * t + 1e-13 + 10 * gh.tp_defect, 'dpi/trace-distance-increased',
                      'trace distance increased under a CPTP channel (images by apply_kraus_op)',
                      {**w, 'channel': gh.label, 'kraus': gh.kop, 'T_in': t, 'T_out': t_img}, point='dpi/trace_distance')

    ctx.attach(U, 'get_trace_distance', post=post_trace_distance, point='utils.get_trace_distance')

    def post_relative_entropy(c):
        if c.exc is not None or len(c.args) + len(c.kwargs) < 2:
            return
        x0, x1 = c.arg(0, 'rho'), c.arg(1, 'sigma')
        d0, d1 = _state_arg(x0), _state_arg(x1)
        if d0 is None or d1 is None or d0.ndim != 2 or _np(x0).ndim != 2 or _np(x1).ndim != 2 or d0.shape != d1.shape:
            ctx.inconclusive('relative_entropy/argument-not-a-state')
            return
        if rq.spectrum(d1).min() < 1e-6:
            ctx.inconclusive('relative_entropy/second-argument-not-full-rank(numqi clips instead of +inf)')
            return
        s = _scalar(c.result)
        w = {'rho': d0, 'sigma': d1, 'got': repr(c.result)[:80]}
        if not ctx.check(s is not None and np.isfinite(s), 'relative_entropy/not-a-real-scalar', 'get_relative_entropy must return a finite real scalar', w):
            return
        # condition of log(sigma) at THIS input: 1/lambda_min(sigma) (reference spectrum); flat 1e-8 beyond, and for arguments that are
        # hermitian only up to rounding noise
        exact_herm = max(rc.hermitian_defect(d0), rc.hermitian_defect(d1)) <= 1e-16
        tol_s = min(1e-8, 1e-12 + 1e2 * EPS / float(rq.spectrum(d1).min())) if exact_herm else 1e-8
        given = c.arg(2, 'tr_rho_log_rho')
        if given is None:
            ref = rq.relative_entropy(d0, d1)
            worst['relative_entropy/value'] = max(worst.get('relative_entropy/value', 0.0), abs(s - ref))
            ctx.check(abs(s - ref) <= tol_s * _scale(ref), 'relative_entropy/value',
                      'get_relative_entropy differs from Tr rho(log rho - log sigma) (reference, 0 log 0 = 0)', {**w, 'got': s, 'expected': ref, 'tol': tol_s})
            tr_def = abs(np.trace(d0).real - 1) + abs(np.trace(d1).real - 1)  # Klein's inequality needs equal traces: arguments are states up to 1e-9
            ctx.check(s >= -tol_s - 10 * tr_def, 'relative_entropy/negative', 'relative entropy of two states is negative (Klein)', {**w, 'got': s, 'tol': tol_s})
        else:
            g = _scalar(given)
            if g is None:
                return
            ref = g + rq.entropy(d0) + rq.relative_entropy(d0, d1)
            ctx.check(abs(s - ref) <= tol_s * _scale(ref, g), 'relative_entropy/value-with-given-term',
                      'get_relative_entropy(tr_rho_log_rho=t) differs from t - Tr rho log sigma', {**w, 'got': s, 'expected': ref, 'given': g})
            return
        if _is_torch(x0):
            ctx.check(_is_torch(c.result), 'relative_entropy/torch-type', 'torch inputs must give a torch result', {'type': repr(type(c.result))})
        im = _images(d0, d1)
        if im is not None:
            if rq.spectrum(im[1]).min() < 1e-6:
                ctx.inconclusive('dpi-relative-entropy/image-of-second-argument-not-full-rank')
                return
            s_img = _scalar(c.func(_like(im[0], x0), _like(im[1], x1)))
            if s_img is not None:
                margin('S(rho||sigma) - S(E rho||E sigma)', s - s_img)
                count('dpi/relative_entropy')
            tol_img = tol_s + min(1e-8, 1e-12 + 1e2 * EPS / float(rq.spectrum(im[1]).min())) + 1e2 * gh.tp_defect
            ctx.check(s_img is not None and s_img <= s + tol_img * _scale(s), 'dpi/relative-entropy-increased',
                      'relative entropy increased under a CPTP channel (images by apply_kraus_op)',
                      {**w, 'channel': gh.label, 'kraus': gh.kop, 'S_in': s, 'S_out': s_img}, point='dpi/relative_entropy')

    ctx.attach(U, 'get_relative_entropy', post=post_relative_entropy, point='utils.get_relative_entropy')

    def post_entropy(c):
        if c.exc is not None:
            return
        x = c.arg(0, 'rho')
        a = _np(x)
        if not (_numeric(a) and a.ndim >= 2 and a.shape[-1] == a.shape[-2] and a.size):
            return
        method = c.arg(1, '_torch_logm', 'eigen')
        res = _np(c.result)
        d = a.shape[-1]
        single = a.dtype in (np.float32, np.complex64)
        ok = _numeric(res) and res.shape == a.shape[:-2]
        ctx.check(ok, 'entropy/shape', 'get_von_neumann_entropy must return the batch shape', {'in': a.shape, 'out': np.shape(res)})
        if not ok:
            return
        mats = a.reshape(-1, d, d)
        vals = res.reshape(-1)
        pade = _is_torch(x) and bool(getattr(x, 'requires_grad', False)) and method != 'eigen'
        # eigen route in double precision: the only legitimate deviation from 0 log 0 = 0 is the machine-eps clip, d*eps*|log eps| = 4e-14
        tol0 = 1e-4 if single else (1e-6 if pade else 1e-11)
        for t in range(min(len(mats), 32)):
            if not rc.is_state(mats[t], 1e-5 if single else 1e-9):
                ctx.inconclusive('entropy/argument-not-a-state')
                continue
            v = complex(vals[t])
            w = {'rho': mats[t], 'got': [v.real, v.imag]}
            if not ctx.check(np.isfinite(v.real) and abs(v.imag) <= 1e-12, 'entropy/not-a-real-scalar', 'entropy must be a finite real number', w):
                continue
            ref = rq.entropy(mats[t])
            tol = tol0 if (tol0 > 1e-11 or rc.hermitian_defect(mats[t]) <= 1e-14) else 1e-9  # rounding-noise input: eigvalsh reads one triangle
            worst['entropy/value'] = max(worst.get('entropy/value', 0.0), abs(v.real - ref)) if not single else worst.get('entropy/value', 0.0)
            ctx.check(abs(v.real - ref) <= tol, 'entropy/value', 'get_von_neumann_entropy differs from -sum l log l (reference, 0 log 0 = 0)',
                      {**w, 'expected': ref, 'tol': tol})
            tol_r = max(tol, 1e-9)  # the argument is a state only up to 1e-9 in trace (image under a channel with a TP defect): -x log x at x = 1+delta
            ctx.check(-tol_r <= v.real <= math.log(d) + tol_r, 'entropy/out-of-[0,log d]', 'von Neumann entropy outside [0, log d]',
                      {**w, 'log_d': math.log(d)}, point='entropy/range')

    ctx.attach(U, 'get_von_neumann_entropy', post=post_entropy, point='utils.get_von_neumann_entropy')

    def post_renyi(c):
        if c.exc is not None:
            return
        x, alpha = c.arg(0, 'rho'), c.arg(1, 'alpha')
        d0 = _state_arg(x)
        try:
            alpha = float(alpha)
        except Exception:
            return
        if d0 is None or _np(x).ndim != 2 or not (alpha > 0 and alpha != 1):
            return
        d = d0.shape[0]
        v = _scalar(c.result)
        evl = rq.spectrum(d0)
        w = {'rho': d0, 'alpha': alpha, 'got': repr(c.result)[:80], 'eigenvalues': evl}
        if not ctx.check(v is not None and np.isfinite(v), 'renyi_entropy/non-finite',
                         'get_Renyi_entropy of a valid density matrix is NaN/Inf (rounding-negative eigenvalue raised to a fractional power)',
                         w, point='entropy/range'):
            return
        ctx.check(-1e-9 <= v <= math.log(d) + 1e-9, 'renyi_entropy/out-of-[0,log d]', 'Renyi entropy outside [0, log d]',
                  {**w, 'got': v, 'log_d': math.log(d)}, point='entropy/range')
        if evl.min() >= 1e-6 or alpha > 1:
            # (for alpha < 1 the map is not Lipschitz at eigenvalue 0: rank-deficient states are not compared)
            lam = np.clip(evl, 0, None)
            ref = float(np.log((lam**alpha).sum()) / (1 - alpha))
            worst['renyi_entropy/value'] = max(worst.get('renyi_entropy/value', 0.0), abs(v - ref))
            ctx.check(abs(v - ref) <= 1e-9 * max(1.0, 1 / abs(1 - alpha)), 'renyi_entropy/value',
                      'get_Renyi_entropy differs from log(sum l^alpha)/(1-alpha)', {**w, 'got': v, 'expected': ref})
        else:
            ctx.inconclusive('renyi_entropy/value-not-compared(alpha<1, rank-deficient)')

    ctx.attach(U, 'get_Renyi_entropy', post=post_renyi, point='utils.get_Renyi_entropy')

    def post_purity(c):
        # less prominent entropy-type functional of the anchored range: Tr rho^2 = exp(-H_2(rho)), in [1/d, 1]
        if c.exc is not None:
            return
        x = c.arg(0, 'rho')
        d0 = _state_arg(x)
        if d0 is None or _np(x).ndim != 2:
            return
        v = _scalar(c.result)
        lam = np.clip(rq.spectrum(d0), 0, None)
        ref = float((lam**2).sum())
        w = {'rho': d0, 'got': repr(c.result)[:80], 'expected': ref}
        if not ctx.check(v is not None and np.isfinite(v), 'purity/not-a-real-scalar', 'get_purity must return a finite real scalar', w):
            return
        ctx.check(abs(v - ref) <= 1e-10, 'purity/value', 'get_purity differs from sum lambda_i^2 (reference spectrum)', w)
        ctx.check(1 / d0.shape[0] - 1e-10 <= v <= 1 + 1e-10, 'purity/out-of-[1/d,1]', 'purity of a state outside [1/d, 1]', w, point='entropy/range')
        h2 = _scalar(U.get_Renyi_entropy(x, 2))
        ctx.check(h2 is not None and abs(math.exp(-h2) - v) <= 1e-9, 'purity/vs-renyi-2', 'exp(-get_Renyi_entropy(rho,2)) != get_purity(rho)',
                  {**w, 'renyi2': h2})

    ctx.attach(U, 'get_purity', post=post_purity, point='utils.get_purity')

    # ------------------------------------------------------------ the library's consumer: ChannelCapacity1InfModel
    Cap = numqi.channel.ChannelCapacity1InfModel

    def post_cap_set(c):
        if c.exc is None and len(c.args) >= 1:
            kop = _np(c.arg(1, 'kop'))
            if _numeric(kop) and kop.ndim == 3:
                gh.model_kop[id(c.args[0])] = (c.args[0], np.array(kop, dtype=np.complex128, copy=True))

    ctx.attach(Cap, 'set_channel_kraus_op', post=post_cap_set, point='channel.ChannelCapacity1InfModel.set_channel_kraus_op')

    def post_cap_forward(c):
        """forward() = -(H(E(rho)) - sum_i p_i H(E(psi_i))) for the ensemble (p, psi) the model's own manifolds produce from ITS
        parameters and the channel handed to set_channel_kraus_op of THIS instance (ghost copy taken at that call)."""
        if c.exc is not None or not c.args:
            return
        m = c.args[0]
        ent = gh.model_kop.get(id(m))
        if ent is None or ent[0] is not m:
            return
        kop = ent[1]
        import torch
        with torch.no_grad():
            prob, psi = _np(m.manifold_prob()), _np(m.manifold_psi())
        if not (_numeric(prob) and _numeric(psi) and prob.ndim == 1 and psi.ndim == 2 and psi.shape == (prob.shape[0], kop.shape[2])
                and np.all(np.isfinite(prob)) and np.all(np.isfinite(psi))):
            return
        if abs(prob.sum() - 1) > 1e-9 or prob.min() < -1e-12 or np.abs(np.linalg.norm(psi, axis=1) - 1).max() > 1e-9:
            ctx.inconclusive('capacity-model/ensemble-not-normalised(judged by C01/C02)')
            return
        v = _scalar(c.result)
        rho = (psi.T * prob) @ psi.conj()
        hol = rq.entropy(rc.apply_kraus(kop, rho)) - sum(float(p) * rq.entropy(rc.apply_kraus(kop, np.outer(x, x.conj()))) for p, x in zip(prob, psi))
        w = {'kraus': kop, 'prob': prob, 'psi': psi, 'got': repr(c.result)[:80], 'expected': -hol,
             'grad_mode': bool(torch.is_grad_enabled()), 'params_require_grad': [bool(q.requires_grad) for q in m.parameters()]}
        if not ctx.check(v is not None and np.isfinite(v), 'capacity-model/forward-not-a-real-scalar', 'ChannelCapacity1InfModel.forward must return a finite real scalar', w):
            return
        worst['capacity-model/forward'] = max(worst.get('capacity-model/forward', 0.0), abs(v + hol))
        ctx.check(abs(v + hol) <= 1e-9, 'capacity-model/forward-vs-holevo-of-own-ensemble',
                  'ChannelCapacity1InfModel.forward differs from -(H(E(sum p_i psi_i)) - sum p_i H(E(psi_i))) of its own ensemble and its own channel (reference)', w)

    ctx.attach(Cap, 'forward', post=post_cap_forward, point='channel.ChannelCapacity1InfModel.forward')


# ------------------------------------------------------------------------------------------------ workloads
def input_states(rng, numqi, d, cplx):
    """6 input states of dimension d with their kind."""
    ret = [('full-rank', rc.rand_state(rng, d, None, cplx)),
           ('numqi-rand-dm', numqi.random.rand_density_matrix(d, k=int(rng.integers(1, d + 1)), kind=('haar', 'bures')[int(rng.integers(2))],
                                                              seed=int(rng.integers(2**31)))),
           ('low-rank', rc.rand_state(rng, d, int(rng.integers(1, max(2, d))), cplx)),
           ('pure', rc.rand_state(rng, d, 1, cplx)),
           ('maximally-mixed', np.eye(d, dtype=np.complex128) / d)]
    if rng.random() < 0.5:
        ret.append(('basis', np.diag(np.eye(d)[int(rng.integers(d))]).astype(np.complex128)))
    else:
        spec = np.sort(rng.dirichlet(np.ones(d) * 0.3))
        ret.append(('skewed-spectrum', rc.rand_state_spectrum(rng, d, spec / spec.sum(), cplx)))
    return ret


def state_pairs(rng, d, cplx):
    """(kind, rho, sigma[, as_kets]) pairs for the data-processing monitors"""
    full0, full1 = rc.rand_state(rng, d, None, cplx), rc.rand_state(rng, d, None, cplx)
    low = rc.rand_state(rng, d, int(rng.integers(1, max(2, d))), cplx)
    u = rc.rand_isometry(rng, d, d, cplx)
    k0 = u[:, 0]
    k1 = u[:, 1] if d >= 2 else u[:, 0]
    psi = rc.rand_isometry(rng, d, 1, cplx)[:, 0]
    near = 0.999 * full0 + 0.001 * full1
    return [('full/full', full0, full1), ('low-rank/full', low, full1), ('full/low-rank', full0, low), ('ket/ket', psi, k0),
            ('identical', full0, full0.copy()), ('orthogonal-kets', k0, k1), ('nearby', full0, near),
            ('pure/full', rq.as_dm(psi), full0)]


# relative entropy is +inf (numqi: a clipped finite number) when the second argument is rank deficient: such calls are
# outside what can be judged, one representative kind is still driven so that the monitor's refusal is visible
RENYI_ALPHAS = (0.5, 2, 0.1, 2.5, 0.9, 3, 1.5, 10.0)
RELENT_KINDS = ('full/full', 'low-rank/full', 'full/low-rank', 'identical', 'nearby', 'pure/full')


def _edit_in_place(rng, arr):
    """what a caller may legitimately do with an array it was handed: scale / zero / shift / overwrite a block"""
    how = int(rng.integers(4))
    if how == 0:
        arr *= np.sqrt(0.25)
    elif how == 1:
        arr[...] = 0
    elif how == 2:
        arr += 1
    else:
        arr[-1] = arr[0] * 2 + 3
    return ('scale', 'zero', 'shift', 'overwrite-last-block')[how]


def edit_then_recall(ctx, name, fn, make_args, key_prefix=None):
    """history: r1 = fn(args); the caller edits r1 in place; r2 = fn(equal args). The contracts judge r2 like any call; here r2
    must in addition equal what r1 was when it was returned (no state shared between calls)."""
    key_prefix = key_prefix or name
    args = make_args()
    r1 = fn(*args)
    parts1 = [r for r in (r1 if isinstance(r1, tuple) else (r1,)) if isinstance(r, np.ndarray)]
    if not parts1 or not all(p.flags.writeable and p.size for p in parts1):
        return None
    snaps = [p.copy() for p in parts1]
    how = [_edit_in_place(ctx.rng, p) for p in parts1]
    args2 = make_args()  # fresh, equal-valued arguments (an edit of r1 that reaches the old arguments through a view is the caller's business)
    r2 = fn(*args2)
    parts2 = [r for r in (r2 if isinstance(r2, tuple) else (r2,)) if isinstance(r, np.ndarray)]
    same = len(parts2) == len(snaps) and all(a.shape == b.shape and np.array_equal(a, b, equal_nan=True) for a, b in zip(parts2, snaps))
    aliased = len(parts2) == len(parts1) and any(a is b or np.shares_memory(a, b) for a, b in zip(parts2, parts1))
    key = f'{key_prefix}/result-aliases-earlier-call' if aliased else f'{key_prefix}/second-call-differs-after-editing-first-result'
    ctx.check(same, key, f'{name}: after the caller edited the first result in place ({"/".join(how)}), a second call with equal arguments '
              'returns something else than the first call did', lambda: {'function': name, 'edit': how, 'first_result_when_returned': snaps[0],
                                                                         'second_result': parts2[0] if parts2 else None, 'shares_memory': aliased},
              point='history/edit-then-recall')
    return r2


def drive_channel(ctx, numqi, gh, kop, family, cplx, n_pairs=8, wl='random'):
    """one channel through every conversion, every apply routine and the functionals."""
    Ch = numqi.channel
    U = numqi.utils
    rng = ctx.rng
    kop = np.asarray(kop)
    nterm, dout, din = kop.shape
    n = din * dout
    desc = {'family': family, 'din': din, 'dout': dout, 'terms': nterm, 'complex': bool(np.iscomplexobj(kop))}
    ctx.set_case(desc)
    if rc.kraus_tp_defect(kop) > 1e-10:
        # the producer's contract allows a defect proportional to its conditioning: such a draw is not a float64-exact channel
        ctx.inconclusive('channel/input-kraus-not-trace-preserving-to-1e-10(ill-conditioned draw)')
        return
    ctx.case('channel', family, kop, nontrivial=n > 1)
    ctx.workload(wl)
    gh.set(kop, desc)
    ref_choi = rc.choi_from_kraus(kop)
    worst_equiv = 0.0
    with ctx.guard('channel'):
        choi = Ch.kraus_op_to_choi_op(kop)
        sup = Ch.kraus_op_to_super_op(kop)
        if not (isinstance(choi, np.ndarray) and choi.shape == (n, n) and isinstance(sup, np.ndarray) and sup.shape == (dout * dout, din * din)):
            return  # reported by the contracts
        sup_b = Ch.choi_op_to_super_op(choi, din)
        choi_b = Ch.super_op_to_choi_op(sup)
        ctx.close(sup_b, sup, TOL, 'compose/kraus-choi-super', 'choi_op_to_super_op(kraus_op_to_choi_op(K)) != kraus_op_to_super_op(K)', desc)
        ctx.close(choi_b, choi, TOL, 'compose/kraus-super-choi', 'super_op_to_choi_op(kraus_op_to_super_op(K)) != kraus_op_to_choi_op(K)', desc)
        ctx.close(Ch.super_op_to_choi_op(sup_b), choi, 0.0, 'compose/choi-super-choi', 'choi -> super -> choi is not the identity', desc)
        ctx.close(Ch.choi_op_to_super_op(choi_b, din), sup, 0.0, 'compose/super-choi-super', 'super -> choi -> super is not the identity', desc)
        kop_c = Ch.choi_op_to_kraus_op(choi, din)
        kop_s = Ch.super_op_to_kraus_op(sup)
        if not all(isinstance(k, np.ndarray) and k.ndim == 3 and k.shape[1:] == (dout, din) and k.shape[0] >= 1 for k in (kop_c, kop_s)):
            return
        ctx.close(Ch.kraus_op_to_choi_op(kop_c), choi, 1e-8, 'compose/choi-kraus-choi', 'choi -> kraus -> choi is not the identity', desc)
        ctx.close(Ch.kraus_op_to_super_op(kop_s), sup, 1e-8, 'compose/super-kraus-super', 'super -> kraus -> super is not the identity', desc)
        ctx.check(rc.kraus_tp_defect(kop_c) <= 1e-8 and rc.kraus_tp_defect(kop_s) <= 1e-8, 'compose/kraus-back-not-trace-preserving',
                  'Kraus operators recovered from Choi / super-operator of a CPTP map are not trace preserving', desc)
        matA, vecb = Ch.choi_op_to_bloch_map(choi.reshape(din, dout, din, dout))
        bloch_ok = isinstance(matA, np.ndarray) and isinstance(vecb, np.ndarray) and matA.shape == (dout * dout - 1, din * din - 1) \
            and vecb.shape == (dout * dout - 1,)
        states = input_states(rng, numqi, din, cplx)
        for kind, rho in states:
            ctx.set_case({**desc, 'input': kind})
            ref = rc.apply_kraus(kop, rho)
            outs = {'apply_kraus_op(K)': Ch.apply_kraus_op(kop, rho), 'apply_choi_op(choi)': Ch.apply_choi_op(choi, rho),
                    'apply_super_op(super)': Ch.apply_super_op(sup, rho), 'apply_kraus_op(kraus<-choi)': Ch.apply_kraus_op(kop_c, rho),
                    'apply_kraus_op(kraus<-super)': Ch.apply_kraus_op(kop_s, rho),
                    'apply_super_op(super<-choi)': Ch.apply_super_op(sup_b, rho), 'apply_choi_op(choi<-super)': Ch.apply_choi_op(choi_b, rho)}
            for name, o in outs.items():
                tol = 1e-8 if 'kraus<-' in name else TOL
                if isinstance(o, np.ndarray) and o.shape == ref.shape:
                    worst_equiv = max(worst_equiv, float(np.abs(o - ref).max()))
                ctx.close(o, ref, tol, 'equiv/' + name, f'{name} gives a different output state than the reference sum_k K rho K^dagger',
                          {'input_kind': kind, 'rho': rho, 'kraus': kop}, point='equiv/all-representations')
            # memory layout of the arguments is not part of their value: Fortran-ordered copies, transposed views of a transposed copy,
            # strided views into a larger buffer and read-only arrays must give the same output state (round 5, seeded C12-i)
            if kind in _LAYOUT_KINDS or len(_LAYOUT_KINDS) < 3:
                _LAYOUT_KINDS.add(kind)
                for lname, rl in _layout_variants(rho):
                    for name, fn, op in (('apply_kraus_op', Ch.apply_kraus_op, kop), ('apply_choi_op', Ch.apply_choi_op, choi),
                                         ('apply_super_op', Ch.apply_super_op, sup)):
                        ctx.close(fn(op, rl), ref, TOL, f'layout/{name}/rho-{lname}',
                                  f'{name} depends on the memory layout of rho ({lname})', {'input_kind': kind, 'rho': rho, 'kraus': kop},
                                  point='equiv/memory-layout')
                for name, fn, op in (('apply_kraus_op', Ch.apply_kraus_op, kop), ('apply_choi_op', Ch.apply_choi_op, choi),
                                     ('apply_super_op', Ch.apply_super_op, sup)):
                    for lname, ol in _layout_variants(op):
                        ctx.close(fn(ol, rho), ref, TOL, f'layout/{name}/op-{lname}',
                                  f'{name} depends on the memory layout of the channel representation ({lname})',
                                  {'input_kind': kind, 'rho': rho, 'kraus': kop}, point='equiv/memory-layout')
            if bloch_ok:
                r_in = rc.bloch_vector(rho).real
                r_out = rc.bloch_vector(ref).real
                pred = matA @ r_in + vecb
                ctx.close(pred, r_out, TOL, 'equiv/bloch-map', 'A r + b differs from the Bloch vector (explicit basis expansion) of the output state',
                          {'input_kind': kind, 'rho': rho, 'kraus': kop}, point='equiv/all-representations')
                if din >= 2 and dout >= 2:
                    r_nq = numqi.gellmann.dm_to_gellmann_basis(rho)
                    if isinstance(r_nq, np.ndarray) and r_nq.shape == r_in.shape:
                        back = numqi.gellmann.gellmann_basis_to_dm(matA @ r_nq + vecb)
                        ctx.close(back, ref, TOL, 'equiv/bloch-map-via-numqi-gellmann',
                                  'gellmann_basis_to_dm(A dm_to_gellmann_basis(rho) + b) differs from the output state',
                                  {'input_kind': kind, 'rho': rho, 'kraus': kop}, point='equiv/all-representations')
            U.get_von_neumann_entropy(rho)
            U.get_von_neumann_entropy(outs['apply_kraus_op(K)'])
        ctx.set_case(desc)
        sample = None
        pairs = state_pairs(rng, din, cplx)[:n_pairs]
        for kind, a, b in pairs:
            ctx.set_case({**desc, 'pair': kind})
            if a.ndim == 1:
                f = U.get_fidelity(a, b)
                a, b = rq.as_dm(a), rq.as_dm(b)
                U.get_fidelity(a, b)
            else:
                f = U.get_fidelity(a, b)
            t = U.get_trace_distance(a, b)
            s = U.get_relative_entropy(a, b) if kind in RELENT_KINDS else None
            if kind == 'full/full':
                ia, ib = rc.apply_kraus(kop, a), rc.apply_kraus(kop, b)
                sample = {**desc, 'pair': kind, 'T_in': float(t), 'T_out': rq.trace_distance(ia, ib), 'F_in': float(f), 'F_out': rq.fidelity(ia, ib),
                          'S_in': float(s), 'S_out': rq.relative_entropy(ia, ib) if rq.spectrum(ib).min() >= 1e-6 else 'image not full rank',
                          'choi_rank': int((np.linalg.eigvalsh(ref_choi) > 1e-10).sum())}
        # histories: call -> the caller edits the returned array in place -> call again with equal arguments
        ctx.set_case({**desc, 'history': 'edit-then-recall'})
        k0, c0, s0 = kop.copy(), np.array(choi, copy=True), np.array(sup, copy=True)
        rho0 = states[0][1].copy()
        for nm, fn, mk in (('kraus_op_to_choi_op', Ch.kraus_op_to_choi_op, lambda: (k0.copy(),)),
                           ('kraus_op_to_super_op', Ch.kraus_op_to_super_op, lambda: (k0.copy(),)),
                           ('choi_op_to_super_op', Ch.choi_op_to_super_op, lambda: (c0.copy(), din)),
                           ('super_op_to_choi_op', Ch.super_op_to_choi_op, lambda: (s0.copy(),)),
                           ('choi_op_to_kraus_op', Ch.choi_op_to_kraus_op, lambda: (c0.copy(), din)),
                           ('super_op_to_kraus_op', Ch.super_op_to_kraus_op, lambda: (s0.copy(),)),
                           ('choi_op_to_bloch_map', Ch.choi_op_to_bloch_map, lambda: (c0.copy().reshape(din, dout, din, dout),)),
                           ('apply_kraus_op', Ch.apply_kraus_op, lambda: (k0.copy(), rho0.copy())),
                           ('apply_choi_op', Ch.apply_choi_op, lambda: (c0.copy(), rho0.copy())),
                           ('apply_super_op', Ch.apply_super_op, lambda: (s0.copy(), rho0.copy()))):
            edit_then_recall(ctx, nm, fn, mk)
        ctx.set_case(desc)
    ex = ctx.extra.setdefault('worst_abs_err', {})
    ex['equiv/all-representations'] = max(ex.get('equiv/all-representations', 0.0), worst_equiv)
    if sample is not None and len(ctx.samples) < 2 and ctx.rng.random() < 0.2:
        sample['max_abs_err_over_representations'] = worst_equiv
        ctx.sample(sample)
    gh.clear()


def random_config(rng):
    din, dout = int(rng.integers(1, 6)), int(rng.integers(1, 6))
    lo = -(-din // dout)
    nterm = int(rng.integers(lo, din * dout + 1))
    if rng.random() < 0.25:
        nterm = lo
    return din, dout, nterm, bool(rng.random() < 0.6)


def make_channel(ctx, numqi, source, din, dout, nterm, cplx):
    rng = ctx.rng
    if source == 'numqi':
        return numqi.random.rand_kraus_op(nterm, din, dout, tag_complex=cplx, seed=int(rng.integers(2**31)))
    return rc.rand_kraus(rng, nterm, din, dout, cplx)


def special_channels(ctx, numqi):
    """generator of (family, kraus, complex?) for the structured families"""
    rng = ctx.rng
    Ch = numqi.channel
    while True:
        cplx = bool(rng.random() < 0.6)
        din = int(rng.integers(1, 6))
        dout = int(rng.integers(din, 6))
        yield 'isometry', rc.rand_isometry(rng, dout, din, cplx).reshape(1, dout, din), cplx
        d = int(rng.integers(1, 6))
        yield 'unitary', rc.rand_isometry(rng, d, d, cplx).reshape(1, d, d), cplx
        yield 'numqi-haar-unitary', numqi.random.rand_haar_unitary(d, seed=int(rng.integers(2**31))).reshape(1, d, d), True
        din, dout = int(rng.integers(1, 6)), int(rng.integers(1, 6))
        yield 'replacement', rc.replacement_kraus(rc.rand_state(rng, dout, int(rng.integers(1, dout + 1)), cplx), din), cplx
        yield 'measure-prepare', rc.measure_prepare_kraus(rng, din, dout, cplx), cplx
        yield 'identity', np.eye(d).reshape(1, d, d), False
        yield 'trace-out', rc.partial_trace_kraus(1, d, True), False
        yield 'partial-trace(2x2->2)', rc.partial_trace_kraus(2, 2, bool(rng.random() < 0.5)), False
        yield 'completely-dephasing', np.stack([rc.matrix_unit(d, i, i) for i in range(d)]), False
        perm = rng.permutation(d)
        yield 'permutation', np.eye(d)[perm].reshape(1, d, d), False
        # redundant Kraus family: linearly dependent terms and an explicit zero operator
        base = rc.rand_kraus(rng, int(rng.integers(-(-din // dout), max(-(-din // dout), 3) + 1)), din, dout, cplx)
        p = float(rng.random())
        red = np.concatenate([np.sqrt(p) * base, np.sqrt(1 - p) * base, np.zeros((1, dout, din))], axis=0)
        yield 'redundant-kraus', red, cplx
        # convex mixture of a unitary channel and a replacement channel (d -> d)
        q = float(rng.random())
        uni = rc.rand_isometry(rng, d, d, cplx).reshape(1, d, d)
        rep = rc.replacement_kraus(rc.rand_state(rng, d, None, cplx), d)
        yield 'mixture(unitary,replacement)', np.concatenate([np.sqrt(q) * uni, np.sqrt(1 - q) * rep]), cplx
        # compositions and tensor products of the built-in noise channels
        rate = [float(x) for x in rng.random(3)]
        k_dp, k_dl, k_ad = Ch.hf_dephasing_kraus_op(rate[0]), Ch.hf_depolarizing_kraus_op(rate[1]), Ch.hf_amplitude_damping_kraus_op(rate[2])
        yield 'noise-composition', rc.compose_kraus(k_ad, rc.compose_kraus(k_dl, k_dp)), True
        yield 'noise-tensor(4->4)', rc.tensor_kraus(k_ad, k_dp), False
        a, b = rc.rand_kraus(rng, 2, din, 3, cplx), rc.rand_kraus(rng, 3, 3, dout, cplx)
        yield 'composition', rc.compose_kraus(b, a), cplx


def _drivable(kop):
    """a noise-channel result that can be pushed through the channel workload (float32 rates give float32-accurate Kraus
    operators: their CPTP clause is judged at that precision by the contract, they are not used as float64 channels)."""
    return isinstance(kop, np.ndarray) and kop.ndim == 3 and kop.shape[1:] == (2, 2) and bool(np.all(np.isfinite(kop))) \
        and rc.kraus_tp_defect(kop) <= 1e-12


RATE_GRID = [0, 1, 0.0, 1.0, 0.5, 0.25, 0.75, 1e-300, 1e-16, 1e-12, 1e-8, 1e-4, 1 - 1e-16, 1 - 1e-12, 1 - 1e-8, 1 - 1e-4, 1 / 3, 2 / 3, 0.1, 0.9,
             np.float64(0.3), np.float32(0.5), np.float32(1.0), np.nextafter(1.0, 0.0), np.nextafter(0.0, 1.0), 0.999, 0.001, True, False]


def _seed_unseeded_generators(ctx):
    """determinism: numqi (and the repository's tests) call np.random.default_rng() without a seed; while this shard runs
    such calls draw their seed from the shard's generator. Seeded calls are untouched."""
    orig = np.random.default_rng
    if getattr(orig, '_vmon_seeded', False):
        return
    sub = np.random.default_rng(int(ctx.rng.integers(2**63)))

    def default_rng(seed=None):
        return orig(int(sub.integers(2**63))) if seed is None else orig(seed)

    default_rng._vmon_seeded = True
    np.random.default_rng = default_rng


def _rand_herm_dir(rng, d, cplx):
    """traceless hermitian direction of spectral norm 1"""
    while True:
        h = rng.normal(size=(d, d)) + (1j * rng.normal(size=(d, d)) if cplx else 0)
        h = (h + h.conj().T) / 2
        h = h - np.trace(h) / d * np.eye(d)
        nrm = np.abs(np.linalg.eigvalsh(h)).max()
        if nrm > 1e-3:
            return h / nrm


def _round_noise(rng, shape, amp):
    """dense rounding noise that preserves no symmetry"""
    return amp * (rng.normal(size=shape) + 1j * rng.normal(size=shape))


HF_CONFIGS = [(1, 2, 2), (1, 3, 3), (2, 3, 6), (2, 5, 9), (3, 4, 11), (3, 2, 2), (2, 1, 2), (1, 1, 1), (2, 2, 4), (4, 5, 18)]


def run_regimes(ctx, numqi, gh, n):
    """numerical regimes (states / channels within 1e-3 .. 1e-12 of a special point, rounding-noise dense matrices, nearly
    rank-deficient Choi operators), shape regimes (one degenerate item in a batch, Kraus rank above dim_in^2 through the callable
    entry points) and the less prominent options (zero_eps, with_rho0, get_purity, gellmann_basis_to_matrix)."""
    import torch
    Ch, U, GM = numqi.channel, numqi.utils, numqi.gellmann
    rng = ctx.rng
    for i in range(n):
        d = int(rng.integers(2, 6))
        cplx = bool(rng.random() < 0.6)
        # ---- (a) pairs of states within eps of each other / of the maximally mixed state
        eps = float(10.0**(-rng.uniform(3, 12)))
        base_kind = ('maximally-mixed', 'full-rank', 'skewed')[i % 3]
        if base_kind == 'maximally-mixed':
            base = np.eye(d, dtype=np.complex128) / d
        elif base_kind == 'full-rank':
            base = rc.rand_state(rng, d, None, cplx)
        else:
            spec = np.sort(rng.dirichlet(np.ones(d) * 0.5)) + 1e-3
            base = rc.rand_state_spectrum(rng, d, spec / spec.sum(), cplx)
        lam = float(rq.spectrum(base).min())
        a = base + 0.5 * eps * lam * _rand_herm_dir(rng, d, cplx)
        b = base if i % 2 else base + 0.5 * eps * lam * _rand_herm_dir(rng, d, cplx)
        if not cplx and i % 4 < 2:
            a, b = np.ascontiguousarray(a.real), np.ascontiguousarray(np.asarray(b).real)
        dout = int(rng.integers(1, 6))
        kop = rc.rand_kraus(rng, int(rng.integers(-(-d // dout), d * dout + 1)), d, dout, cplx)
        gh.set(kop, {'family': 'regimes/ref', 'din': d, 'dout': dout, 'terms': int(kop.shape[0])})
        ctx.set_case({'regime': 'near-pair', 'base': base_kind, 'd': d, 'complex': cplx, 'log10_eps': round(math.log10(eps), 2), 'second': 'base' if i % 2 else 'perturbed'})
        ctx.case('near-pair', a, b, nontrivial=True)
        ctx.workload('corner')
        ctx.hit('regime/near-pair')
        with ctx.guard('regimes/near-pair'):
            U.get_trace_distance(a, b)
            U.get_trace_distance(b, a)
            U.get_fidelity(a, b)
            U.get_relative_entropy(a, b)
            U.get_relative_entropy(b, a)
            U.get_von_neumann_entropy(a)
            U.get_Renyi_entropy(a, RENYI_ALPHAS[i % 8])
            U.get_purity(a)
            if i % 2 == 0:
                at, bt = torch.tensor(a), torch.tensor(b)
                U.get_fidelity(at, bt)
                U.get_relative_entropy(at, bt)
                U.get_von_neumann_entropy(torch.stack([at, bt]))
                U.get_purity(at.to(torch.complex128))  # (a real-dtype torch tensor raises in get_purity: `.imag` of a real tensor; purity is outside the C12 statement, not driven)
        # ---- (a) dense matrices equal to an exact object only up to rounding noise (no symmetry preserved)
        amp = float(10.0**(-rng.uniform(13, 16)))
        kind, rho = input_states(rng, numqi, d, cplx)[int(rng.integers(6))]
        rho_n = np.asarray(rho, dtype=np.complex128) + _round_noise(rng, (d, d), amp)
        sig_n = rc.rand_state(rng, d, None, cplx) + _round_noise(rng, (d, d), amp)
        ctx.set_case({'regime': 'rounding-noise-state', 'kind': kind, 'd': d, 'log10_amp': round(math.log10(amp), 2)})
        ctx.case('rounding-noise-state', rho_n, sig_n, nontrivial=True)
        with ctx.guard('regimes/rounding-noise'):
            U.get_fidelity(rho_n, sig_n)
            U.get_trace_distance(rho_n, sig_n)
            U.get_relative_entropy(rho_n, sig_n)
            U.get_von_neumann_entropy(rho_n)
            U.get_purity(rho_n)
        gh.clear()
        din, dout = int(rng.integers(1, 6)), int(rng.integers(1, 6))
        fam = ('identity', 'unitary', 'random', 'isometry')[i % 4]
        if fam == 'identity':
            dout = din
            k0 = np.eye(din, dtype=np.complex128).reshape(1, din, din)
        elif fam == 'unitary':
            dout = din
            k0 = rc.rand_isometry(rng, din, din, cplx).reshape(1, din, din)
        elif fam == 'isometry':
            dout = max(din, dout)
            k0 = rc.rand_isometry(rng, dout, din, cplx).reshape(1, dout, din)
        else:
            k0 = rc.rand_kraus(rng, int(rng.integers(-(-din // dout), din * dout + 1)), din, dout, cplx)
        nn = din * dout
        choi_n = rc.choi_from_kraus(k0) + _round_noise(rng, (nn, nn), amp)
        sup_n = rc.super_from_kraus(k0) + _round_noise(rng, (dout * dout, din * din), amp)
        rho_in = rc.rand_state(rng, din, None, cplx)
        ctx.set_case({'regime': 'rounding-noise-channel', 'family': fam, 'din': din, 'dout': dout, 'log10_amp': round(math.log10(amp), 2)})
        ctx.case('rounding-noise-channel', choi_n, nontrivial=nn > 1)
        with ctx.guard('regimes/rounding-noise'):
            ref = rc.apply_kraus(k0, rho_in)
            kc = Ch.choi_op_to_kraus_op(choi_n, din)
            ks = Ch.super_op_to_kraus_op(sup_n)
            outs = {'apply_choi_op': Ch.apply_choi_op(choi_n, rho_in), 'apply_super_op': Ch.apply_super_op(sup_n, rho_in),
                    'apply_super_op(choi_op_to_super_op)': Ch.apply_super_op(Ch.choi_op_to_super_op(choi_n, din), rho_in),
                    'apply_choi_op(super_op_to_choi_op)': Ch.apply_choi_op(Ch.super_op_to_choi_op(sup_n), rho_in)}
            if isinstance(kc, np.ndarray) and kc.ndim == 3 and kc.shape[1:] == (dout, din):
                outs['apply_kraus_op(kraus<-choi)'] = Ch.apply_kraus_op(kc, rho_in)
            if isinstance(ks, np.ndarray) and ks.ndim == 3 and ks.shape[1:] == (dout, din):
                outs['apply_kraus_op(kraus<-super)'] = Ch.apply_kraus_op(ks, rho_in)
            for nm, o in outs.items():
                ctx.close(o, ref, 1e-8, 'equiv/rounding-noise/' + nm, f'{nm} on a representation that carries rounding noise of 1e-13..1e-16 differs from the '
                          'reference output state of the exact channel', {'family': fam, 'din': din, 'dout': dout, 'noise_amplitude': amp, 'rho': rho_in, 'kraus': k0},
                          point='equiv/all-representations')
            Ch.choi_op_to_bloch_map(choi_n.reshape(din, dout, din, dout))
        # ---- (a) nearly (not exactly) rank-deficient Choi operator: a dominant channel + weight q of a high-rank one
        if i % 2 == 0:
            q = float(10.0**(-rng.uniform(3, 9)))
            k1 = rc.rand_kraus(rng, int(rng.integers(-(-din // dout), din * dout + 1)), din, dout, cplx)
            kmix = np.concatenate([np.sqrt(1 - q) * k0.astype(np.complex128), np.sqrt(q) * k1.astype(np.complex128)])
            with ctx.guard('regimes/nearly-rank-deficient'):
                drive_channel(ctx, numqi, gh, kmix, f'nearly-rank-deficient({fam}+q*random)', True, n_pairs=2, wl='corner')
                choi = rc.choi_from_kraus(kmix)
                sup = rc.super_from_kraus(kmix)
                ctx.set_case({'regime': 'zero_eps-option', 'din': din, 'dout': dout, 'log10_q': round(math.log10(q), 2)})
                for ze in (1e-6, 1e-13):
                    Ch.choi_op_to_kraus_op(choi, din, zero_eps=ze)
                    Ch.choi_op_to_kraus_op(choi, din, ze)
                    Ch.super_op_to_kraus_op(sup, zero_eps=ze)
                    Ch.super_op_to_kraus_op(sup, ze)
        # ---- (b)/(d) callable entry points, Kraus rank above dim_in^2 for dim_out > dim_in
        if i % 2 == 1:
            hin, hout, hterm = HF_CONFIGS[(i // 2) % len(HF_CONFIGS)]
            kh = rc.rand_kraus(rng, hterm, hin, hout, cplx)
            ctx.set_case({'regime': 'hf_channel', 'din': hin, 'dout': hout, 'terms': hterm, 'complex': cplx})
            ctx.case('hf-channel', kh, nontrivial=hin * hout > 1)
            with ctx.guard('regimes/hf_channel'):
                kb = Ch.hf_channel_to_kraus_op(lambda r: Ch.apply_kraus_op(kh, r), hin)
                c4 = Ch.hf_channel_to_choi_op(lambda r: rc.apply_kraus(kh, r), hin)
                if isinstance(kb, np.ndarray) and kb.ndim == 3 and kb.shape[1:] == (hout, hin) and isinstance(c4, np.ndarray) and c4.shape == (hin, hout, hin, hout):
                    r0 = rc.rand_state(rng, hin, None, cplx)
                    ref = rc.apply_kraus(kh, r0)
                    ctx.close(Ch.apply_kraus_op(kb, r0), ref, 1e-8, 'equiv/hf_channel_to_kraus_op', 'Kraus operators from hf_channel_to_kraus_op give a different '
                              'output state than the channel they were extracted from', {'din': hin, 'dout': hout, 'terms': hterm, 'kraus': kh}, point='equiv/all-representations')
                    ctx.close(Ch.apply_choi_op(c4.reshape(hin * hout, hin * hout), r0), ref, 1e-8, 'equiv/hf_channel_to_choi_op', 'Choi operator from hf_channel_to_choi_op '
                              'gives a different output state than the channel it was extracted from', {'din': hin, 'dout': hout, 'terms': hterm, 'kraus': kh},
                              point='equiv/all-representations')
                if i % 8 == 1:
                    Ch.hf_channel_to_kraus_op(lambda r: U.partial_trace(r, (2, 2), [int(i // 8) % 2]), 4)
                    Ch.hf_channel_to_choi_op(lambda r: U.partial_trace(r, (2, 3), [0]), 6)
        # ---- (b) one degenerate item inside a batch must not leak into the other items
        shape = [(1,), (4,), (2, 3)][i % 3]
        nb = int(np.prod(shape))
        items = [rc.rand_state(rng, d, None, cplx) for _ in range(nb)]
        pos = int(rng.integers(nb))
        dk = ('pure', 'maximally-mixed', 'rank-deficient', 'basis')[(i // 3) % 4]
        items[pos] = {'pure': lambda: rc.rand_state(rng, d, 1, cplx), 'maximally-mixed': lambda: np.eye(d, dtype=np.complex128) / d,
                      'rank-deficient': lambda: rc.rand_state(rng, d, max(1, d - 1), cplx),
                      'basis': lambda: np.diag(np.eye(d)[int(rng.integers(d))]).astype(np.complex128)}[dk]()
        batch = np.stack([np.asarray(x, dtype=np.complex128) for x in items]).reshape(shape + (d, d))
        if i % 5 == 4:
            batch = batch.astype(np.complex64)
        single = batch.dtype == np.complex64
        ctx.set_case({'regime': 'batch-one-degenerate-item', 'd': d, 'shape': list(shape), 'degenerate': dk, 'position': pos, 'dtype': str(batch.dtype)})
        ctx.case('batch-one-degenerate', batch, nontrivial=True)
        with ctx.guard('regimes/batch'):
            for backend in ('numpy', 'torch'):
                xb = batch if backend == 'numpy' else torch.tensor(batch)
                res = _np(U.get_von_neumann_entropy(xb))
                if not (_numeric(res) and res.shape == shape):
                    continue  # reported by the contract
                per = np.array([float(_np(U.get_von_neumann_entropy(xb.reshape((nb, d, d))[t]))) for t in range(nb)]).reshape(shape)
                ctx.close(res, per, 1e-5 if single else 1e-12, f'entropy-batch/{backend}/differs-from-per-sample',
                          'get_von_neumann_entropy of a batch with one degenerate item differs from the per-sample evaluation',
                          {'d': d, 'shape': list(shape), 'degenerate': dk, 'position': pos, 'batched': res, 'per_sample': per}, point='entropy-batch/one-degenerate-item')
            gb = batch.astype(np.complex128).copy().reshape(nb, d, d)
            gb[pos] = 0 if i % 2 else np.eye(d)
            gb = gb.reshape(shape + (d, d)) + (0 if i % 4 < 2 else _rand_herm_dir(rng, d, True) * 1j)  # non-hermitian items on odd rounds
            for xb in (gb, torch.tensor(gb)):
                vec = GM.matrix_to_gellmann_basis(xb)
                if tuple(np.shape(_np(vec))) == shape + (d * d,):
                    back = GM.gellmann_basis_to_matrix(vec)
                    ctx.close(_np(back), gb, 1e-12, 'gellmann/basis_to_matrix(matrix_to_basis)-not-identity',
                              'gellmann_basis_to_matrix(matrix_to_gellmann_basis(A)) != A for a batch with one zero / identity item', {'d': d, 'shape': list(shape)})
            GM.dm_to_gellmann_basis(items[0], with_rho0=True)
            GM.dm_to_gellmann_basis(items[pos], True)
    ctx.sample({'regimes': 'near pairs eps=1e-3..1e-12 (around I/d, a full-rank state, a skewed spectrum); rounding noise 1e-13..1e-16 on states / Choi / super-operator; '
                           'nearly rank-deficient Choi q=1e-3..1e-9; zero_eps in (1e-6, 1e-13); hf_channel_* with Kraus rank above dim_in^2; batches with one degenerate item'})


def torch_modes(ctx, numqi, kop, rho, pair, i):
    """the same VALUE whatever the autograd mode: plain tensors, tensors that require grad (the Pade logm route of the entropies is
    only taken then), one of two arguments requiring grad, evaluation under torch.no_grad(), lazily conjugated tensors."""
    import torch
    Ch, U = numqi.channel, numqi.utils
    kop = np.asarray(kop, dtype=np.complex128)
    _, dout, din = kop.shape
    kind, a, b = pair
    a, b = rq.as_dm(a), rq.as_dm(b)
    desc = {'family': 'torch-modes', 'din': din, 'dout': dout, 'terms': int(kop.shape[0]), 'pair': kind}
    ctx.set_case(desc)
    ctx.workload('corner')
    ref_out = rc.apply_kraus(kop, rho)
    choi, sup = rc.choi_from_kraus(kop), rc.super_from_kraus(kop)

    def T(x, grad=False, lazy_conj=False):
        t = torch.tensor(np.asarray(x, dtype=np.complex128).conj() if lazy_conj else np.asarray(x, dtype=np.complex128))
        if lazy_conj:
            t = t.conj()  # conj bit set, same value
        return t.requires_grad_(True) if grad else t

    def same(name, values, ref, tol):
        """values: {mode: result}"""
        for mode, v in values.items():
            g = _np(v)
            ok = _numeric(g) and g.shape == np.shape(ref) and bool(np.all(np.isfinite(g))) and float(np.abs(g - ref).max(initial=0)) <= tol
            ctx.check(ok, f'torch-modes/{name}/{mode}', f'{name}: torch evaluation in mode "{mode}" differs from the reference value '
                      '(the value must not depend on the autograd mode)', lambda: {**desc, 'mode': mode, 'got': g, 'expected': np.asarray(ref)}, point='torch-modes/same-value')

    with ctx.guard('torch-modes'):
        vals = {}
        for mode, gk, gr, lazy in (('plain', False, False, False), ('op-requires-grad', True, False, False), ('rho-requires-grad', False, True, False),
                                   ('both-require-grad', True, True, False), ('lazy-conj', False, False, True)):
            vals[mode] = Ch.apply_kraus_op(T(kop, gk, lazy), T(rho, gr, lazy))
        with torch.no_grad():
            vals['no_grad(both-require-grad)'] = Ch.apply_kraus_op(T(kop, True), T(rho, True))
        same('apply_kraus_op', vals, ref_out, TOL)
        vals = {'op-requires-grad': Ch.apply_choi_op(T(choi, True), T(rho)), 'rho-requires-grad': Ch.apply_choi_op(T(choi), T(rho, True)),
                'lazy-conj': Ch.apply_choi_op(T(choi, lazy_conj=True), T(rho, lazy_conj=True))}
        with torch.no_grad():
            vals['no_grad(both-require-grad)'] = Ch.apply_choi_op(T(choi, True), T(rho, True))
        same('apply_choi_op', vals, ref_out, TOL)
        vals = {'op-requires-grad': Ch.apply_super_op(T(sup, True), T(rho)), 'rho-requires-grad': Ch.apply_super_op(T(sup), T(rho, True)),
                'lazy-conj': Ch.apply_super_op(T(sup, lazy_conj=True), T(rho, lazy_conj=True))}
        same('apply_super_op', vals, ref_out, TOL)
        vals = {'requires-grad': Ch.kraus_op_to_choi_op(T(kop, True)), 'lazy-conj': Ch.kraus_op_to_choi_op(T(kop, lazy_conj=True))}
        with torch.no_grad():
            vals['no_grad(requires-grad)'] = Ch.kraus_op_to_choi_op(T(kop, True))
        same('kraus_op_to_choi_op', vals, choi, TOL)
        # functionals (the contracts judge every call against the reference; here: all modes give one value)
        lam = float(min(rq.spectrum(a).min(), rq.spectrum(b).min()))
        vals = {'plain': U.get_fidelity(T(a), T(b)), 'first-requires-grad': U.get_fidelity(T(a, True), T(b)), 'second-requires-grad': U.get_fidelity(T(a), T(b, True)),
                'both-require-grad': U.get_fidelity(T(a, True), T(b, True)), 'lazy-conj': U.get_fidelity(T(a, lazy_conj=True), T(b, lazy_conj=True))}
        with torch.no_grad():
            vals['no_grad(both-require-grad)'] = U.get_fidelity(T(a, True), T(b, True))
        same('get_fidelity', vals, np.asarray(rq.fidelity(a, b)), 1e-6 if lam < 1e-6 else 1e-9)
        hs = np.array([rq.entropy(a), rq.entropy(b)])
        ab = np.stack([a, b])
        vals = {'plain': U.get_von_neumann_entropy(T(ab)), 'requires-grad(eigen)': U.get_von_neumann_entropy(T(ab, True)),
                'requires-grad(pade)': U.get_von_neumann_entropy(T(ab, True), _torch_logm=('pade', 6, 8)),
                'plain(pade-requested)': U.get_von_neumann_entropy(T(ab), ('pade', 6, 8)), 'lazy-conj': U.get_von_neumann_entropy(T(ab, lazy_conj=True))}
        with torch.no_grad():
            vals['no_grad(requires-grad, pade)'] = U.get_von_neumann_entropy(T(ab, True), _torch_logm=('pade', 6, 8))
        if lam >= 1e-6:
            same('get_von_neumann_entropy', vals, hs, 1e-8)
        else:
            ctx.inconclusive('torch-modes/entropy-pade-on-rank-deficient-state(not Lipschitz)')
        U.get_Renyi_entropy(T(a, True), RENYI_ALPHAS[i % 8])
        U.get_purity(T(a, True))
        if float(rq.spectrum(b).min()) >= 1e-6:
            sref = np.asarray(rq.relative_entropy(a, b))
            given = -rq.entropy(a)
            vals = {'plain': U.get_relative_entropy(T(a), T(b)), 'both-require-grad(pade)': U.get_relative_entropy(T(a, True), T(b, True)),
                    'second-requires-grad(pade)': U.get_relative_entropy(T(a), T(b, True)), 'first-requires-grad(pade)': U.get_relative_entropy(T(a, True), T(b)),
                    'both-require-grad(eigen)': U.get_relative_entropy(T(a, True), T(b, True), _torch_logm='eigen'),
                    'second-requires-grad(pade,6,8 positional, given tr_rho_log_rho)': U.get_relative_entropy(T(a), T(b, True), given, ('pade', 6, 8)),
                    'given-tr_rho_log_rho-as-tensor': U.get_relative_entropy(T(a), T(b, True), torch.tensor(given, dtype=torch.float64)),
                    'lazy-conj': U.get_relative_entropy(T(a, lazy_conj=True), T(b, lazy_conj=True))}
            with torch.no_grad():
                vals['no_grad(both-require-grad)'] = U.get_relative_entropy(T(a, True), T(b, True))
            same('get_relative_entropy', vals, sref, 1e-8 * max(1.0, float(abs(sref))))
        else:
            ctx.inconclusive('torch-modes/relative-entropy-second-argument-not-full-rank')


def run(ctx, shard):
    import numqi
    _seed_unseeded_generators(ctx)
    gh = Ghost()
    install(ctx, numqi, gh)
    Ch = numqi.channel
    U = numqi.utils
    rng = ctx.rng
    name = shard['name']

    if name.startswith('grid'):
        cfgs = all_configs()
        if ctx.tier == 'quick':
            cfgs = [c for c in cfgs if c[2] in (-(-c[0] // c[1]), c[0] * c[1])]
            # de-duplicate (min == max happens for 1->1)
            cfgs = sorted(set(cfgs))
        ctx.extra['configurations_total'] = len(cfgs)
        mine = [c for i, c in enumerate(cfgs) if i % shard['nparts'] == shard['part']]
        for i, (din, dout, nterm, cplx) in enumerate(mine):
            src = 'numqi' if i % 2 == 0 else 'ref'
            with ctx.guard('make-channel'):
                kop = make_channel(ctx, numqi, src, din, dout, nterm, cplx)
                drive_channel(ctx, numqi, gh, kop, f'grid/{src}', cplx, n_pairs=5, wl='exhaustive')
        ctx.extra['configurations_driven'] = len(mine)

    elif name.startswith('random'):
        for i in range(shard['n']):
            din, dout, nterm, cplx = random_config(rng)
            src = 'numqi' if rng.random() < 0.5 else 'ref'
            with ctx.guard('make-channel'):
                kop = make_channel(ctx, numqi, src, din, dout, nterm, cplx)
                drive_channel(ctx, numqi, gh, kop, f'random/{src}', cplx)

    elif name.startswith('special'):
        gen = special_channels(ctx, numqi)
        for i in range(shard['n']):
            with ctx.guard('make-channel'):
                family, kop, cplx = next(gen)
                drive_channel(ctx, numqi, gh, kop, family, cplx, wl='corner')

    elif name.startswith('choi-lowrank'):
        for i in range(shard['n']):
            din, dout = int(rng.integers(1, 6)), int(rng.integers(1, 6))
            lo = -(-din // dout)
            rank = None if rng.random() < 0.2 else int(rng.integers(lo, din * dout + 1))
            if rng.random() < 0.3:
                rank = lo
            ctx.set_case({'family': 'rand_choi_op', 'din': din, 'dout': dout, 'rank': rank})
            with ctx.guard('choi-first'):
                choi = numqi.random.rand_choi_op(din, dout, rank=rank, seed=int(rng.integers(2**31)))
                if not (isinstance(choi, np.ndarray) and choi.shape == (din * dout, din * dout)):
                    continue
                # Choi-first chain: the only oracle available is the Choi operator itself
                sup = Ch.choi_op_to_super_op(choi, din)
                kop = Ch.choi_op_to_kraus_op(choi, din)
                if not (isinstance(kop, np.ndarray) and kop.ndim == 3 and kop.shape[1:] == (dout, din) and kop.shape[0] >= 1):
                    continue
                for kind, rho in input_states(rng, numqi, din, True)[:3]:
                    ref = rc.apply_choi4(choi.reshape(din, dout, din, dout), rho)
                    for nm, o in (('apply_choi_op', Ch.apply_choi_op(choi, rho)), ('apply_super_op', Ch.apply_super_op(sup, rho)),
                                  ('apply_kraus_op(kraus<-choi)', Ch.apply_kraus_op(kop, rho))):
                        ctx.close(o, ref, 1e-8, 'equiv/choi-first/' + nm, f'{nm} differs from the reference action of the Choi operator',
                                  {'input_kind': kind, 'rho': rho, 'choi': choi}, point='equiv/all-representations')
                # hf_channel_* on the real apply routine
                if i % 4 == 0:
                    Ch.hf_channel_to_kraus_op(lambda r: Ch.apply_choi_op(choi, r), din)
                    Ch.hf_channel_to_choi_op(lambda r: Ch.apply_super_op(sup, r), din)
                drive_channel(ctx, numqi, gh, kop, f'rand_choi_op(rank={"full" if rank is None else "r"})', True, n_pairs=5)

    elif name.startswith('regimes'):
        run_regimes(ctx, numqi, gh, shard['n'])

    elif name == 'noise':
        fns = {'dephasing': Ch.hf_dephasing_kraus_op, 'depolarizing': Ch.hf_depolarizing_kraus_op, 'amplitude_damping': Ch.hf_amplitude_damping_kraus_op}
        for nm, fn in fns.items():
            for rate in RATE_GRID:
                ctx.set_case({'noise': nm, 'rate': repr(rate)})
                ctx.case('noise', nm, repr(rate), nontrivial=True)
                ctx.workload('exhaustive')
                with ctx.guard('noise/' + nm):
                    kop = fn(rate)
                    if _drivable(kop):
                        drive_channel(ctx, numqi, gh, kop, f'noise/{nm}', True, n_pairs=4, wl='exhaustive')
        for i in range(60 if ctx.tier == 'quick' else 300):
            nm = list(fns)[i % 3]
            rate = float(rng.random()) if i % 5 else float(10.0**(-rng.uniform(0, 20)))
            ctx.set_case({'noise': nm, 'rate': rate})
            ctx.case('noise', nm, rate)
            ctx.workload('random')
            with ctx.guard('noise/' + nm):
                kop = fns[nm](rate)
                if i % 6 == 0 and _drivable(kop):
                    drive_channel(ctx, numqi, gh, kop, f'noise/{nm}', True, n_pairs=4)
        # histories: call(rate) -> the caller edits the returned Kraus array in place (e.g. `kop *= sqrt(w)` while building a
        # mixture) -> call again with the same / an equal-valued rate object. The CPTP contract judges every call.
        import torch
        hist_rates = [0, 1, 0.5, 0.125, 0.875, 0.3] + [float(x) for x in rng.random(6 if ctx.tier == 'quick' else 60)]
        for nm, fn in fns.items():
            for rate in hist_rates:
                equal_rates = [rate, float(rate), np.float64(rate), np.array(float(rate)), torch.tensor(float(rate), dtype=torch.float64)]
                if rate in (0, 1):
                    equal_rates += [int(rate), bool(rate), np.int64(rate)]
                for again in equal_rates:
                    ctx.set_case({'noise': nm, 'history': 'edit-then-recall', 'first_rate': repr(rate), 'second_rate': repr(again)})
                    ctx.case('noise-history', nm, repr(rate), repr(again))
                    ctx.workload('corner')
                    with ctx.guard('noise/' + nm):
                        seq = iter([rate, again])
                        k2 = edit_then_recall(ctx, f'hf_{nm}_kraus_op', fn, lambda: (next(seq),), key_prefix='hf_kraus_op')
                        if isinstance(k2, np.ndarray) and _drivable(k2) and again is equal_rates[0] and rate in (0.5, 0.3):
                            drive_channel(ctx, numqi, gh, k2.copy(), f'noise-history/{nm}', True, n_pairs=4, wl='corner')
        ctx.sample({'noise-history': 'hf_*_kraus_op(r) -> result edited in place -> hf_*_kraus_op(equal r)',
                    'rates': [repr(r) for r in hist_rates[:8]], 'equal_rate_objects': ['same object', 'float', 'np.float64', '0-d ndarray', '0-d torch tensor', 'int/bool for 0 and 1']})
        ctx.sample({'noise': 'amplitude_damping', 'rates_driven': [repr(r) for r in RATE_GRID[:8]], 'note': 'every grid rate for the three channels'})

    elif name.startswith('functionals'):
        # consumers in other modules (closed forms built on get_relative_entropy): driven under the contracts
        for d in (2, 3, 4, 5):
            for alpha in (1 / d + (1 - 1 / d) * float(rng.random()), 1 / d + 1e-7, 1 - 1e-3):
                ctx.set_case({'consumer': 'numqi.state.get_Werner_ree / get_Isotropic_ree', 'd': d, 'alpha': alpha})
                ctx.case('ree-consumer', d, alpha)
                ctx.workload('realistic')
                with ctx.guard('functionals/consumer'):
                    numqi.state.get_Werner_ree(d, alpha)
                    numqi.state.get_Isotropic_ree(d, 1 / (d + 1) + (alpha - 1 / d) * (d / (d + 1)) / (1 - 1 / d) * 0.999)
        # the functionals on hostile state pairs; a random channel is registered so that the data-processing monitors run too
        for i in range(shard['n']):
            d = int(rng.integers(1, 6))
            cplx = bool(rng.random() < 0.6)
            dout = int(rng.integers(1, 6))
            nterm = int(rng.integers(-(-d // dout), d * dout + 1))
            kop = rc.rand_kraus(rng, nterm, d, dout, cplx)
            gh.set(kop, {'family': 'functionals/ref', 'din': d, 'dout': dout, 'terms': nterm})
            for kind, a, b in state_pairs(rng, d, cplx):
                ctx.set_case({'functional-pair': kind, 'd': d, 'complex': cplx, 'channel': gh.label})
                ctx.case('pair', kind, a, b, nontrivial=d >= 2)
                ctx.workload('random')
                with ctx.guard('functionals'):
                    f = U.get_fidelity(a, b)
                    if a.ndim == 1:
                        # mixed ket / density-matrix signatures
                        U.get_fidelity(a, rq.as_dm(b))
                        U.get_fidelity(rq.as_dm(a), b)
                        a, b = rq.as_dm(a), rq.as_dm(b)
                    t = U.get_trace_distance(a, b)
                    if kind in RELENT_KINDS:
                        s = U.get_relative_entropy(a, b)
                        U.get_relative_entropy(a, b, tr_rho_log_rho=-rq.entropy(a))
                    U.get_von_neumann_entropy(a)
                    for alpha in RENYI_ALPHAS[(i % 4) * 2:(i % 4) * 2 + 2]:
                        U.get_Renyi_entropy(a, alpha)
                    if i % 4 == 0:
                        U.get_purity(a)
                    if i < 3 and kind == 'full/full':
                        ctx.sample({'functional-pair': kind, 'd': d, 'F': float(f), 'T': float(t), 'S': float(s), 'H(rho)': rq.entropy(a)})
            # batched entropy, shapes (k,), (k,l), (1,)
            for shape in [(3,), (2, 2), (1,)]:
                batch = np.stack([rc.rand_state(rng, d, int(rng.integers(1, d + 1)), cplx) for _ in range(int(np.prod(shape)))]).reshape(shape + (d, d))
                ctx.set_case({'functional': 'entropy-batch', 'd': d, 'shape': list(shape)})
                ctx.case('entropy-batch', batch, nontrivial=d >= 2)
                ctx.workload('corner')
                with ctx.guard('functionals'):
                    U.get_von_neumann_entropy(batch)
            # spectra at the end points of [0, log d]
            with ctx.guard('functionals'):
                U.get_von_neumann_entropy(np.eye(d) / d)
                U.get_von_neumann_entropy(np.diag(np.eye(d)[int(rng.integers(d))]))
                if i % 10 == 0:
                    U.get_von_neumann_entropy((np.eye(d) / d).astype(np.complex64))
            gh.clear()

    elif name.startswith('torch'):
        import torch
        for i in range(shard['n']):
            din, dout, nterm, cplx = random_config(rng)
            kop = make_channel(ctx, numqi, 'numqi' if i % 2 else 'ref', din, dout, nterm, True)
            desc = {'family': 'torch', 'din': din, 'dout': dout, 'terms': nterm}
            ctx.set_case(desc)
            ctx.case('torch-channel', kop, nontrivial=din * dout > 1)
            ctx.workload('random')
            gh.set(kop, desc)
            with ctx.guard('torch'):
                kt = torch.tensor(np.asarray(kop, dtype=np.complex128))
                choi_t = Ch.kraus_op_to_choi_op(kt)
                sup_t = torch.tensor(Ch.kraus_op_to_super_op(np.asarray(kop)))
                if not (isinstance(choi_t, torch.Tensor) and tuple(choi_t.shape) == (din * dout, din * dout)):
                    continue
                for kind, rho in input_states(rng, numqi, din, True)[:4]:
                    ctx.set_case({**desc, 'input': kind})
                    rt = torch.tensor(np.asarray(rho, dtype=np.complex128))
                    ref = rc.apply_kraus(kop, rho)
                    for nm, o in (('apply_kraus_op', Ch.apply_kraus_op(kt, rt)), ('apply_choi_op', Ch.apply_choi_op(choi_t, rt)),
                                  ('apply_super_op', Ch.apply_super_op(sup_t, rt))):
                        ctx.close(_np(o), ref, TOL, 'equiv/torch/' + nm, f'torch {nm} gives a different output state than the reference',
                                  {'input_kind': kind, 'rho': rho, 'kraus': kop}, point='equiv/all-representations')
                    U.get_von_neumann_entropy(rt)
                    numqi.gellmann.matrix_to_gellmann_basis(rt)
                for kind, a, b in state_pairs(rng, din, True):
                    ctx.set_case({**desc, 'pair': kind})
                    at, bt = torch.tensor(a), torch.tensor(b)
                    U.get_fidelity(at, bt)
                    if a.ndim == 1:
                        U.get_fidelity(at, torch.tensor(rq.as_dm(b)))
                        at, bt = torch.tensor(rq.as_dm(a)), torch.tensor(rq.as_dm(b))
                    if kind in RELENT_KINDS:
                        U.get_relative_entropy(at, bt)
                        U.get_relative_entropy(at, bt, _torch_logm='eigen')
                    U.get_von_neumann_entropy(torch.stack([at, bt]))
                    U.get_Renyi_entropy(at, RENYI_ALPHAS[i % 8])
                torch_modes(ctx, numqi, kop, rc.rand_state(rng, din, None, True), state_pairs(rng, din, True)[(0, 4, 6, 1, 2)[i % 5]], i)
            gh.clear()

    elif name == 'realistic':
        # the library's own consumer of the channel code: Holevo-capacity optimisation (L-BFGS through numqi.optimize)
        jobs = [('dephasing', Ch.hf_dephasing_kraus_op(0.5), 2), ('amplitude_damping', Ch.hf_amplitude_damping_kraus_op(0.3), 2),
                ('depolarizing', Ch.hf_depolarizing_kraus_op(0.7), 2)]
        for d in ((3,) if ctx.tier == 'quick' else (3, 4, 5)):
            jobs.append((f'rand_kraus_op({d})', numqi.random.rand_kraus_op(2, d, d, seed=int(rng.integers(2**31))), d))
        for nm, kop, d in jobs:
            ctx.set_case({'realistic': 'ChannelCapacity1InfModel', 'channel': nm})
            ctx.case('capacity', nm, kop)
            ctx.workload('realistic')
            with ctx.guard('realistic'):
                model = Ch.ChannelCapacity1InfModel(dim_in=d, num_state=d)
                model.set_channel_kraus_op(kop)
                res = numqi.optimize.minimize(model, theta0='uniform', num_repeat=1 if ctx.tier == 'quick' else 3, tol=1e-9, print_every_round=0,
                                              seed=int(rng.integers(2**31)))
                cap = -float(res.fun)
                ctx.check(-1e-7 <= cap <= math.log(d) + 1e-7, 'realistic/holevo-capacity-out-of-[0,log d]',
                          'optimised Holevo quantity of a channel outside [0, log d_in]', {'channel': nm, 'capacity': cap})
                ctx.sample({'realistic': 'ChannelCapacity1InfModel', 'channel': nm, 'holevo_lower_bound': cap})
                drive_channel(ctx, numqi, gh, kop, 'realistic/' + nm, True, n_pairs=4, wl='realistic')

        # object lifecycle of the consumer (the forward contract judges every call against the ghost channel of THAT instance)
        import copy
        import torch
        for rep in range(3 if ctx.tier == 'quick' else 12):
            d = int(rng.integers(2, 5))
            ns = int(rng.integers(2, d + 2))  # (DiscreteProbability needs >= 2 outcomes)
            douts = [int(rng.integers(1, 6)) for _ in range(3)]
            ks = [rc.rand_kraus(rng, int(rng.integers(-(-d // do), d * do + 1)), d, do, bool(rng.random() < 0.7)) for do in douts]
            if rep % 2 == 0:  # same shape as the first channel: nothing shape-keyed may survive set_channel_kraus_op
                ks[2] = rc.rand_kraus(rng, ks[0].shape[0], d, ks[0].shape[1], True)
                douts[2] = douts[0]
            ctx.set_case({'realistic': 'ChannelCapacity1InfModel lifecycle', 'dim_in': d, 'num_state': ns, 'dim_out': douts, 'terms': [int(k.shape[0]) for k in ks]})
            ctx.case('capacity-lifecycle', *ks)
            ctx.workload('corner')

            def randomise(model, scale=1.0):
                with torch.no_grad():
                    for q in model.parameters():
                        q.copy_(torch.tensor(rng.normal(size=tuple(q.shape)) * scale, dtype=q.dtype))

            def val(model):
                return float(model().detach())

            def lc(cond, key, what, w):
                ctx.check(cond, 'capacity-model/lifecycle/' + key, what, {'dim_in': d, 'num_state': ns, **w}, point='capacity-model/lifecycle')

            with ctx.guard('realistic/lifecycle'):
                ma, mb = Ch.ChannelCapacity1InfModel(d, ns), Ch.ChannelCapacity1InfModel(d, ns)
                ma.set_channel_kraus_op(ks[0])
                mb.set_channel_kraus_op(ks[1])  # a second instance with another channel must not reach into the first
                randomise(ma)
                randomise(mb, 1e-7 if rep % 3 == 2 else 1.0)  # (tiny parameters: the manifolds normalise their argument)
                va, vb = val(ma), val(mb)
                lc(val(ma) == va, 'first-instance-changed-by-second', 'model A evaluates differently after model B (other channel) was evaluated', {'before': va})
                # evaluation modes
                with torch.no_grad():
                    v_ng = float(ma())
                for q in ma.parameters():
                    q.requires_grad_(False)
                v_fr = float(ma())
                for q in ma.parameters():
                    q.requires_grad_(True)
                lc(abs(v_ng - va) <= 1e-12 and abs(v_fr - va) <= 1e-12, 'value-depends-on-autograd-mode',
                   'forward() under torch.no_grad() / with frozen parameters differs from the recorded evaluation', {'recorded': va, 'no_grad': v_ng, 'frozen': v_fr})
                # deepcopy, then new parameters in the copy
                mc = copy.deepcopy(ma)
                gh.model_kop[id(mc)] = (mc, np.array(ks[0], dtype=np.complex128))
                lc(val(mc) == va, 'deepcopy-differs', 'a deepcopy evaluates differently from its original', {'original': va})
                randomise(mc)
                vc = val(mc)  # judged by the forward contract against the copy's OWN parameters
                lc(val(ma) == va, 'original-changed-after-copy-used', 'the original evaluates differently after its deepcopy got new parameters', {'before': va})
                # a new channel for the same instance (other dim_out / number of terms): everything cached must follow
                ma.set_channel_kraus_op(ks[2])
                v2 = val(ma)
                lc(val(mc) == vc, 'copy-changed-by-set_channel-on-original', 'the deepcopy evaluates differently after the original was given a new channel', {'before': vc})
                ma.set_channel_kraus_op(ks[0])
                lc(abs(val(ma) - va) <= 1e-12, 'set_channel-not-restoring', 'after set_channel(K0), set_channel(K2), set_channel(K0) the value for K0 is not reproduced',
                   {'first': va, 'other_channel': v2})
                # load_state_dict into a fresh instance with the same channel
                md = Ch.ChannelCapacity1InfModel(d, ns)
                md.set_channel_kraus_op(ks[0])
                md.load_state_dict(mc.state_dict())
                lc(abs(val(md) - vc) <= 1e-12, 'load_state_dict-differs', 'a fresh instance loaded with the state_dict of another one evaluates differently', {'source': vc})
                # in-place parameter update, then call again
                randomise(ma, 10.0)
                val(ma)
                gh.model_kop.clear()

    elif name == 'repo-tests':
        from vmon import core
        tests_dir = os.path.join(os.path.dirname(core.numqi_src()), 'tests')
        if not os.path.isdir(tests_dir):
            tests_dir = '/repo/tests'
        todo = [('test_channel.py', None), ('test_utils.py', ['test_trace_distance_contraction'])]
        reps = 2 if ctx.tier == 'quick' else 20
        for fname, only in todo:
            path = os.path.join(tests_dir, fname)
            spec = importlib.util.spec_from_file_location('vmon_repo_' + fname[:-3], path)
            mod = importlib.util.module_from_spec(spec)
            spec.loader.exec_module(mod)
            for tn in sorted(n for n in dir(mod) if n.startswith('test_') and (only is None or n in only)):
                slow = tn == 'test_ChannelCapacity1InfModel'
                for r in range(1 if slow else reps):
                    ctx.set_case({'repo-test': f'{fname}::{tn}', 'repetition': r})
                    ctx.case('repo-test', fname, tn, r)
                    ctx.workload('repo-tests')
                    try:
                        getattr(mod, tn)()
                    except AssertionError:
                        ctx.inconclusive(f'repo-test-assertion-failed:{tn}')
                    except Exception as e:  # noqa: BLE001 - the test itself broke; the monitors have recorded what they saw
                        ctx.inconclusive(f'repo-test-raised-{type(e).__name__}:{tn}')
        ctx.sample({'repo-tests': [t[0] for t in todo], 'note': 'run with the C12 contracts attached'})
    else:
        raise ValueError(f'unknown shard {name}')


# thorough tier: every random shard is run this many times with independent random streams (see vmon/runner.py get_shards)
THOROUGH_REPEAT = 4
