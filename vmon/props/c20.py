"""C20 - matrix-subspace decomposition is exact and rank certificates are sound.

Monitors (postconditions on the real functions, oracle = vmon/ref/matspace.py + the statement):
  get_matrix_orthogonal_basis          reported class == class of the generators (documented table); basis mutually
                                       orthogonal in the inner product of that class, one common norm, dimension == rank
                                       of the generators, span == span of the generators (residual both ways); complement
                                       inside the class, independent, orthogonal to basis and generators; dim + codim ==
                                       ambient dimension of the class
  has_rank_hierarchical_method         ghost label "contains a planted non-zero element of rank p" and rank > p => not True
  detect_real_matrix_subspace_rank_one ghost label "contains a planted real rank-one element" => tag is not False and the
                                       bound is >= the value of the planted product vector; tag False => bound < 1
  is_ABC_completely_entangled_subspace ghost label "contains a planted product vector" => not True
  get_matrix_numerical_range           every point lies in W(A) (all supporting half planes) and attains the support
                                       function lambda_max((e^{i t}A + h.c.)/2) in its direction t
  get_real_bipartite_numerical_range   kind='max' >= (kind='min' <=) the value of every real product vector the monitor
                                       finds (sampling + alternating eigenvector sweeps)
The ghost labels live in a per-process registry keyed by the content digest of the array that is handed over; a label is
only registered after the reference has verified it (orthonormal basis, planted element inside the span, its rank).

Workloads: random (9 class/dtype/field combinations x dims 2..5 x dependent generators; planted subspaces behind a random
invertible mixing, real and complex, hierarchy k=1..2 quick / 1..3 thorough, control subspaces of the same size; random
matrices of size 2..8), hostile (orthonormal bases rotated such that the planted element has a coefficient 1e-2..1e-6 on the
last basis vector), corner (unit-matrix generators, explicit two-dimensional families), realistic (the library's own
examples and completely-entangled-subspace constructions, the zero-error example whose complement contains |L><R|),
repo-tests (thorough: the repository's matrix_space tests under the contracts), history / layout / call-order (shard
'history'): every monitored function is judged against a snapshot of its argument taken at call time and must leave the
argument untouched (`<fn>/mutates-argument`); work buffers and python lists refilled in place (generic subspace first, then a
planted one in the same object, same and other hierarchy_k, and the reverse order; a new array that gets the id of a freed
argument) must give the answer of a fresh copy of the same values (`<fn>/stale-after-inplace-update`); results are overwritten
by the caller and the call repeated (`<fn>/stale-after-result-edit`, `<fn>/result-aliases-*`); the same values as Fortran-ordered,
strided, sliced, axis-reversed, complex-dtype, integer-dtype and list inputs (`<fn>/layout-dependent`); the same ~100
configurations of all six functions in three call orders inside one process with one repeated at the end
(`<fn>/call-order-dependent`).

Round-4 lesson additions: numerical regime (generator lists whose coordinate matrix has exactly prescribed singular values 1..1e-6, with
exact dependents, fewer / more generators than the ambient dimension, magnitudes 1e-6..1e2; planted elements of rank p >= 2 that are nearly
of rank p-1 (singular ratio down to 1e-6); bases equal to the planted ones only up to 1e-14 rounding noise incl. a complex dtype; numerical
ranges and bipartite ranges at magnitudes 1e-8 / 1e8, c*1+eps*X, nearly degenerate top eigenvalue, all judged relative to the operator norm
without a floor of 1), shapes (all cyclic orders of tripartite (2,3,4), a middle party of dimension 1, symmetric real subspaces with planted
x x^T for the rank-one detector), and the less prominent entry points: reduce_vector_space, get_vector_orthogonal_basis (contracts, reached
on every basis call and directly with tall / square / wide inputs and tag_reduce=False), is_vector_space_equivalent, find_closest_vector_in_space,
is_vector_linear_independent (reference contracts + relation to the basis of get_matrix_orthogonal_basis), has_rank_hierarchical_method options
return_info / zero_eps, get_matrix_numerical_range_along_direction (value = x^H A x e^{-i alpha}, inside W(A), extremal on the ray against the
reference radial function, 2 pi periodic in alpha for |alpha| up to ~20). No torch path and no stateful objects exist in the anchored files.

Defects found with this module and since repaired in /repo (their reversals are mutants): defect 16 (rank-one detector
compared its bound with 1 without tolerance) and the LU-pivot regularity test of both hierarchies (false certificates when
the planted element has a small coefficient on the last basis vector; keys .../false-certificate/k<k>/small-coefficient).
Observed, outside the statement: the Gell-Mann based classes return norm sqrt(2) (R_cT: 2) although the docstring says
Frobenius norm 1; detect_real_matrix_subspace_rank_one builds its projector from that basis, so for real *symmetric*
subspaces its bound is twice the projector bound (still an upper bound: never a false certificate, but it never certifies).
"""
import contextlib
import importlib.util
import itertools
import math
import os
import time

import numpy as np

from vmon import core
from vmon.ref import matspace as rm

RULE = ('cases: (a) basis: one call of get_matrix_orthogonal_basis on generators drawn for each of the 9 '
        '(class, generator dtype, field) combinations x dims 2..5 x spanned dimension (1, full, full-1, random) x number of '
        'generators; non-trivial when the generators are linearly dependent (more generators than their rank); '
        '(b) planted: one certificate call on an orthonormal basis of a subspace with a planted rank-p element / real rank-one '
        'element / product vector hidden by a random invertible mixing; non-trivial when a generic subspace of the same '
        'dimension has no such element (N <= (dA-p)(dB-p), resp. N <= D - sum(d_i) + n - 1), i.e. the answer is not forced '
        'by the size; control subspaces of the same size are run to measure how often the certificate is actually issued; the planted '
        'cases come from a general invertible mixing + orthonormalisation + random rotation (random), from bases rotated such that the '
        'planted element has a coefficient 1e-2..1e-6 on the last basis vector (hostile: this exposed the LU-pivot defect) and from '
        'hand-written two-dimensional families (corner); '
        '(c) numerical range: one call on a random complex matrix of size 2..8 (non-normal, real, Hermitian, normal, '
        'degenerate normal, nilpotent, unitary), non-trivial when the matrix is not a multiple of the identity; '
        '(d) bipartite range: one call on a random symmetric real matrix / subspace projector, non-trivial when the matrix '
        'differs from its partial transpose; (e) histories: one case = one (function, container kind, order, hierarchy levels) history on a '
        'refilled buffer / list / id-reusing array, one (function, layout) variant of the same values, or one position of a configuration in '
        'one of three call orders; always non-trivial (the two fillings differ); distinct by digest of (function, arguments)')
EXHAUSTIVE = {'quick': False, 'thorough': False}
EXHAUSTIVE_DOMAINS = {'quick': [], 'thorough': []}
ASSUMPTIONS = [
    'structure classes, spanning field, ambient dimensions and the real embedding [[re,-im],[im,re]] of R_c / R_cT as documented '
    'in get_matrix_orthogonal_basis; "inner product of the class" = Tr(A^dagger B), real part for the classes spanned over R',
    'common norm is checked as "all basis elements have the same norm" (the Gell-Mann based classes return norm sqrt(2), the '
    'flattening based ones norm 1; the observed norms are in extra)',
    'generators are well conditioned (singular values of the generator matrix either >= 1e-7 or <= 1e-12 relative to the largest); '
    'anything in between is counted inconclusive',
    'certificates are claimed sound only for subspaces handed over as an orthonormal basis (absolute thresholds)',
    'get_matrix_numerical_range(A, n) returns the point of direction t_i = linspace(0, 2 pi, n)[i], maximising Re(e^{i t_i} z) '
    'over W(A) (convention read from the code: the docstring fixes none); membership in W(A) is checked independently of it',
    'get_real_bipartite_numerical_range is judged for method="eigen" only (method="rotation" is documented as possibly wrong)',
    'answers for equal values are compared up to what the contract leaves free: booleans exactly, bounds to 1e-9, numerical-range points by '
    'their support values Re(e^{it}p) (the point itself is not unique for a degenerate top eigenvalue), bases by class name, shapes and the '
    'projectors onto span(basis) and span(complement)',
    'a real-valued generator list stored with complex dtype keeps its class only when spanned over C (documented table), so the complex-dtype '
    'variant of get_matrix_orthogonal_basis is driven for field="complex" only; integer generators are driven for hierarchy_k=1 only (for '
    'hierarchy_k>=2 numqi raises UFuncTypeError on integer dtype: not accepted, not a certificate)',
    'tolerances: 1e-9 relative to the operator norm for numerical ranges and bounds; 1e-9 (relative to the squared norm) for orthogonality and '
    'norm spread; span residuals and complement-vs-generator inner products max(1e-10, 1e3*eps*kappa) with kappa the condition number of the '
    'generators inside their span (observed need: 24*eps*kappa), inconclusive beyond 1e-6',
    'reduce_vector_space / get_vector_orthogonal_basis: the documented threshold zero_eps is absolute; the row count is judged with a decade of slack '
    'around it and span clauses only when no singular value lies in that decade; inputs above 4096 entries are not judged (cost)',
    'get_matrix_numerical_range_along_direction is judged only for size >= 3, when 0 lies well inside W(A) (min support value >= 0.05*norm) and '
    'the returned vector reproduces the value (otherwise the documented "non-smooth boundary" caveat applies); extremality to 1e-6*norm',
    'is_vector_linear_independent is judged only for clear-cut inputs (singular values in [1e-2, 10], or exactly dependent / more rows than columns): '
    'its Gram-pivot threshold 1e-7 is absolute',
    'a ghost label is registered only when the reference finds the handed basis orthonormal to 1e-12 and the planted element inside its '
    'span to 1e-12 (otherwise the case is inconclusive); "contains" is therefore meant up to 1e-12, far below the 1e-7 thresholds of the certificates',
]
TECHNIQUE = ('postconditions on the real matrix_space functions against an independent numpy reference; ghost-label registry '
             '(content digest -> verified planted element) for the one-sided certificates; control runs to measure certificate reach')
LEVEL_NOTE = ('Sampling only: every clause is judged on the generated subspaces / matrices. Completeness of the certificates is out of '
              'reach (a non-certificate answer is never judged). Subspace sizes for hierarchy level 3 are bounded by cost. The zero '
              'matrix (ARPACK "starting vector is zero" for size >= 5) and real anti-symmetric generators ("not implemented") are '
              'outside the quantified domain and are not generated.')
DECIDING = ['numqi.matrix_space._misc.get_matrix_orthogonal_basis', 'numqi.matrix_space._hierarchy.has_rank_hierarchical_method',
            'numqi.matrix_space._numerical_range.detect_real_matrix_subspace_rank_one',
            'numqi.matrix_space._hierarchy.is_ABC_completely_entangled_subspace',
            'numqi.matrix_space._numerical_range.get_matrix_numerical_range',
            'numqi.matrix_space._numerical_range.get_real_bipartite_numerical_range',
            'basis/span', 'planted/hierarchy', 'planted/rank_one', 'planted/tripartite', 'numerical_range/attained',
            'bipartite_range/bound-vs-product', 'argument-unchanged', 'history/stale-after-inplace-update', 'history/stale-after-result-edit',
            'history/aliasing', 'history/layout-dependent', 'history/call-order-dependent']

TOL_ORTH = 1e-9
TOL_SPAN_FLOOR = 1e-10
TOL_RANGE = 1e-9
SMALL_COEFF = 0.02   # planted element has a component below this along one handed basis vector: 'graded' basis
GRADED_EPS = (1e-2, 1e-3, 3e-4, 1e-4, 1e-6)

REG = {}  # content digest -> verified ghost label


# ----------------------------------------------------------------------------------------------- shards
def shards(tier, seed):
    q = tier == 'quick'
    ret = []
    nb = 2 if q else 6
    for i in range(nb):
        ret.append({'name': f'basis-{i}', 'kind': 'basis', 'part': i, 'nparts': nb})
    ret.append({'name': 'realistic', 'kind': 'realistic'})
    for i in range(1 if q else 4):
        ret.append({'name': f'rank-one-{i}', 'kind': 'rank-one', 'n': 260 if q else 1400})
    for i in range(1 if q else 2):
        ret.append({'name': f'bipartite-{i}', 'kind': 'bipartite', 'n': 120 if q else 1000})
    for i in range(1 if q else 3):
        ret.append({'name': f'hier-k1-{i}', 'kind': 'hier', 'k': 1, 'n': 200 if q else 800, 'max_index': 600 if q else 1000})
    for i in range(3 if q else 6):
        ret.append({'name': f'hier-k2-{i}', 'kind': 'hier', 'k': 2, 'n': 50 if q else 280, 'max_index': 300 if q else 800})
    if not q:
        for i in range(8):
            ret.append({'name': f'hier-k3-{i}', 'kind': 'hier', 'k': 3, 'n': 110, 'max_index': 600})
    for i in range(1 if q else 4):
        ret.append({'name': f'tripartite-{i}', 'kind': 'tripartite', 'n': 110 if q else 400, 'kmax': 2 if q else 3,
                    'max_index': 400 if q else 700})
    for i in range(1 if q else 3):
        ret.append({'name': f'numrange-{i}', 'kind': 'numrange', 'n': 150 if q else 1200})
    for i in range(1 if q else 3):
        ret.append({'name': f'history-{i}', 'kind': 'history', 'part': i})
    if not q:
        ret.append({'name': 'repo-tests', 'kind': 'repo-tests'})
    for s in ret:
        # safety net only (the counts above are sized to finish well inside it on an idle 16-core machine); a shard that runs out of
        # budget stops generating random cases and records extra['truncated']; directed / corner cases always run first
        s.setdefault('budget_s', 45 if q else 240)
    # heavy shards first, so that they do not form the tail of the run
    weight = {'hier': 3, 'tripartite': 4, 'repo-tests': 2, 'history': 2}
    ret.sort(key=lambda s: -(weight.get(s['kind'], 0) * 10 + s.get('k', 0)))
    return ret


# ----------------------------------------------------------------------------------------------- bookkeeping helpers
def _stat(ctx, group, name, n=1):
    d = ctx.extra.setdefault(group, {})
    d[name] = d.get(name, 0) + n


def _worst(ctx, group, name, value, mode='max'):
    d = ctx.extra.setdefault(group, {})
    value = float(value)
    if name not in d:
        d[name] = value
    else:
        d[name] = max(d[name], value) if mode == 'max' else min(d[name], value)


def _dg(arr):
    return core.digest(np.ascontiguousarray(np.asarray(arr)))


def _mon_rng(*arrs):
    """monitor-private generator (the monitors never consume the workload's random stream)"""
    return np.random.default_rng(int(core.digest(*[np.ascontiguousarray(np.asarray(a)) for a in arrs]), 16) % (2**63))


def register(arr, label):
    REG[_dg(arr)] = label


def _truthy(x):
    return isinstance(x, (bool, np.bool_)) and bool(x)


def _is_bool(x):
    return isinstance(x, (bool, np.bool_))


# ----------------------------------------------------------------------------------------------- monitors
def _snapshot(x):
    if isinstance(x, (list, tuple)):
        return [np.array(np.asarray(t), copy=True) for t in x]
    return np.array(np.asarray(x), copy=True)


def _same_content(x, snap):
    try:
        if isinstance(snap, list):
            return isinstance(x, (list, tuple)) and len(x) == len(snap) and all(
                np.asarray(a).shape == b.shape and np.array_equal(np.asarray(a), b) for a, b in zip(x, snap))
        x = np.asarray(x)
        return x.shape == snap.shape and bool(np.array_equal(x, snap))
    except Exception:
        return False


def install(ctx, numqi):
    ms = numqi.matrix_space

    def pre_arg0(name):
        # the argument as it was when the call was made: every clause is judged against this snapshot, and the argument must
        # still hold exactly these values when the call returns
        return lambda c: _snapshot(c.arg(0, name))

    def at_call(c, name, fn):
        x = c.arg(0, name)
        if c.snap is None:
            return np.asarray(x) if not isinstance(x, (list, tuple)) else np.stack([np.asarray(t) for t in x])
        ctx.check(_same_content(x, c.snap), f'{fn}/mutates-argument', f'{fn}: the array argument was modified by the call',
                  lambda: {'before': c.snap if not isinstance(c.snap, list) else c.snap[:2], 'after': x if not isinstance(x, (list, tuple)) else list(x)[:2]},
                  point='argument-unchanged')
        if isinstance(c.snap, list):
            try:
                return np.stack(c.snap)
            except Exception:
                return None
        return c.snap

    # ---------------------------------------------------------------- get_matrix_orthogonal_basis
    def post_basis(c):
        if c.exc is not None:
            return
        mats = at_call(c, 'matrix_subspace', 'basis')
        field = c.arg(1, 'field')
        res = c.result
        if mats is None:
            return
        ok = isinstance(res, tuple) and len(res) == 3 and isinstance(res[2], str) and res[2] in rm.CLASSES
        ctx.check(ok, 'basis/return-form', 'get_matrix_orthogonal_basis must return (basis, complement, class name)',
                  {'type': type(res).__name__, 'class': repr(res[2]) if isinstance(res, tuple) and len(res) == 3 else None})
        if not ok or mats.ndim != 3 or field not in ('real', 'complex'):
            return
        basis, orth, char = np.asarray(res[0]), np.asarray(res[1]), res[2]
        _, m, n = mats.shape
        ref_cls = rm.classify(mats, field)
        if ref_cls is None:
            ctx.inconclusive('basis/class-ambiguous')
            cls = char
        else:
            ctx.check(char == ref_cls, f'basis/class-wrong/{ref_cls}',
                      f'generators of class {ref_cls} (documented table) are reported as another class',
                      {'reported': char, 'expected': ref_cls, 'field': field, 'dtype': str(mats.dtype), 'shape': mats.shape},
                      point='basis/class')
            cls = ref_cls
        wit = lambda **kw: dict(cls=cls, reported=char, field=field, shape=list(mats.shape), dtype=str(mats.dtype),
                                basis_shape=list(basis.shape), orth_shape=list(orth.shape), **kw)
        rep = rm.to_representation(cls, mats)
        shape_ok = basis.ndim == 3 and orth.ndim == 3 and basis.shape[1:] == rep.shape[1:] and orth.shape[1:] == rep.shape[1:]
        ctx.check(shape_ok, f'basis/shape/{cls}', 'basis / complement do not have the matrix shape of the class representation', wit())
        if not shape_ok:
            return
        G = rm.coords(cls, rep)
        rank, ambiguous = rm.rank_decision(G)
        if ambiguous or rank == 0:
            ctx.inconclusive('basis/generators-ill-conditioned' if ambiguous else 'basis/zero-generators')
            return
        realrep = cls in ('R', 'R_T', 'R_c', 'R_cT')
        for nm, arr in (('basis', basis), ('complement', orth)):
            dev = rm.in_class(cls, arr)
            if realrep and np.iscomplexobj(arr) and arr.size:
                dev = max(dev, float(np.abs(arr.imag).max()))
            ctx.check(dev <= TOL_ORTH, f'{nm}/outside-class/{cls}', f'{nm} elements are not members of the structure class (symmetry / embedding)',
                      lambda: wit(deviation=dev))
        B = rm.coords(cls, basis)
        O = rm.coords(cls, orth)
        # dimension
        ctx.check(B.shape[0] == rank, f'basis/dimension-wrong/{cls}', 'number of basis elements differs from the rank of the generators',
                  lambda: wit(rank=rank, singular=rm.singular_values(G)[:12]))
        if B.shape[0] == 0:
            return
        # mutual orthogonality and one common norm
        gram = rm.gram(B)
        nrm2 = np.abs(np.diag(gram))
        scale = float(nrm2.max())
        off = float(np.abs(gram - np.diag(np.diag(gram))).max()) / max(scale, 1e-300)
        ctx.check(scale > 0 and off <= TOL_ORTH, f'basis/not-orthogonal/{cls}', 'basis elements are not mutually orthogonal in the inner product of the class',
                  lambda: wit(max_offdiag_rel=off, gram=gram[:4, :4]))
        spread = float((np.sqrt(nrm2.max()) - np.sqrt(nrm2.min())) / max(np.sqrt(nrm2.max()), 1e-300))
        ctx.check(nrm2.min() > 0 and spread <= TOL_ORTH, f'basis/norm-not-common/{cls}', 'basis elements do not share one common norm',
                  lambda: wit(norms=np.sqrt(nrm2)[:12]))
        _worst(ctx, 'basis_worst_offdiag', cls, off)
        _worst(ctx, 'basis_worst_norm_spread', cls, spread)
        ctx.extra.setdefault('basis_norm_observed', {})[cls] = round(float(np.sqrt(nrm2.max())), 12)
        # span equality, both ways; tolerance C*eps*kappa (kappa = condition of the generators within their span), DESIGN section 3
        sv = rm.singular_values(G)
        kappa = float(sv[0] / sv[rank - 1])
        tol_span = max(TOL_SPAN_FLOOR, 1e3 * 2.3e-16 * kappa)
        if tol_span > 1e-6:
            ctx.inconclusive('basis/generators-ill-conditioned')
            return
        r1 = rm.residual_onto(G, B)
        r2 = rm.residual_onto(B, G)
        ctx.check(r1 <= tol_span, f'basis/span-mismatch/{cls}', 'a basis element lies outside the span of the generators',
                  lambda: wit(residual=r1, tol=tol_span, kappa=kappa), point='basis/span')
        ctx.check(r2 <= tol_span, f'basis/span-not-covered/{cls}', 'a generator lies outside the span of the returned basis',
                  lambda: wit(residual=r2, tol=tol_span, kappa=kappa))
        _worst(ctx, 'basis_worst_span_residual', cls, max(r1, r2))
        _worst(ctx, 'basis_worst_span_residual/(eps*kappa)', cls, max(r1, r2) / (2.3e-16 * kappa))
        # complement
        amb = rm.ambient_dim(cls, m, n)
        ctx.check(B.shape[0] + O.shape[0] == amb, f'basis/dim+codim/{cls}', 'dim + codim differs from the ambient dimension of the class',
                  lambda: wit(dim=B.shape[0], codim=O.shape[0], ambient=amb), point='basis/dim+codim')
        if O.shape[0]:
            on = np.linalg.norm(O, axis=1)
            okn = bool(on.min() > 1e-6 * max(on.max(), 1e-300))
            ctx.check(okn, f'complement/zero-element/{cls}', 'complement contains a (numerically) zero element', lambda: wit(norms=on[:12]))
            if okn:
                On = O / on[:, None]
                Bn = B / np.sqrt(nrm2)[:, None]
                Gn = G / np.maximum(np.linalg.norm(G, axis=1), 1e-300)[:, None]
                cb = float(np.abs(rm.gram(Bn, On)).max())
                cg = float(np.abs(rm.gram(Gn, On)).max())
                ctx.check(cb <= TOL_ORTH, f'complement/not-orthogonal-to-basis/{cls}', 'complement is not orthogonal to the basis in the inner product of the class',
                          lambda: wit(max_inner=cb), point='complement/orthogonal')
                ctx.check(cg <= tol_span, f'complement/not-orthogonal-to-input/{cls}', 'complement is not orthogonal to the generators',
                          lambda: wit(max_inner=cg, tol=tol_span, kappa=kappa))
                rk, _ = rm.rank_decision(On)
                ctx.check(rk == O.shape[0], f'complement/dependent/{cls}', 'complement elements are linearly dependent (codim over-counted)',
                          lambda: wit(rank=rk))
                _worst(ctx, 'complement_worst_inner', cls, max(cb, cg))

    ctx.attach(ms._misc, 'get_matrix_orthogonal_basis', post=post_basis, pre=pre_arg0('matrix_subspace'))

    # ---------------------------------------------------------------- has_rank_hierarchical_method
    def post_hier(c):
        if c.exc is not None:
            return
        space = at_call(c, 'matrix_subspace', 'hierarchy')
        if space is None:
            return
        rank = c.arg(1, 'rank')
        k = c.arg(2, 'hierarchy_k', 1)
        res = c.result
        if c.arg(4, 'return_info', False) and isinstance(res, tuple):
            info = np.asarray(res[1]) if len(res) == 2 else None
            res = res[0]
            ok = info is not None and info.ndim == 2 and info.shape[0] == info.shape[1] and bool(np.all(np.isfinite(info)))
            if ctx.check(ok, 'hierarchy/return-info-form', 'return_info=True must return (bool, square matrix of the linear system)', {'shape': list(np.shape(info))}) and _is_bool(res):
                ev = np.linalg.eigvalsh((info + info.conj().T) / 2)
                ze = c.arg(3, 'zero_eps', 1e-7)
                herm = float(np.abs(info - info.conj().T).max())
                nn = n_index(space.shape[0], rank - 1 + k)
                ctx.check(info.shape[0] == nn and herm <= 1e-9 * max(1.0, float(ev[-1])) and ev[0] >= -1e-9 * max(1.0, float(ev[-1])), 'hierarchy/return-info-not-a-gram-matrix',
                          'the returned matrix is not a Hermitian PSD matrix indexed by the multisets of size rank-1+k of the generators',
                          {'shape': list(info.shape), 'expected_size': nn, 'hermiticity': herm, 'smallest_eigenvalue': float(ev[0])}, point='hierarchy/return-info')
                if abs(ev[0] - ze) > 1e-3 * ze:
                    ctx.check(bool(res) == bool(ev[0] > ze), 'hierarchy/return-info-inconsistent', 'the boolean answer is not "the returned matrix is regular"',
                              {'answer': bool(res), 'smallest_eigenvalue': float(ev[0]), 'zero_eps': ze})
        if not ctx.check(_is_bool(res), 'hierarchy/return-type', 'has_rank_hierarchical_method must return a bool', {'type': type(res).__name__}):
            return
        lab = REG.get(_dg(space))
        if lab is None or lab['kind'] != 'lowrank':
            _stat(ctx, 'hierarchy_unlabelled', f'k{k}/' + ('certified' if res else 'not-certified'))
            return
        if rank <= lab['rank']:
            _stat(ctx, 'hierarchy_unlabelled', f'k{k}/label-not-applicable')
            return
        grp = f"hierarchy_planted/k{k}/{'complex' if lab['complex'] else 'real'}"
        _stat(ctx, grp, 'cases')
        _stat(ctx, grp, 'false_certificate' if res else 'non_certificate')
        small = lab['min_coeff'] < SMALL_COEFF
        _stat(ctx, grp, 'cases_with_small_coefficient', int(small))

        def wit():
            w = {'rank_arg': rank, 'hierarchy_k': k, 'planted_rank': lab['rank'], 'shape': list(space.shape), 'dtype': str(space.dtype),
                 'membership_residual': lab['residual'], 'planted_singular_values': lab['singular'],
                 'smallest_coefficient_of_planted_element_in_basis': lab['min_coeff'], 'basis': space, 'planted_element': lab['element']}
            try:  # diagnosis: is the linear system singular (as theory says) and only the pivot test misreads it?
                import scipy.linalg
                _, G = c.func(space, rank=rank, hierarchy_k=k, return_info=True)
                w['gram_smallest_eigenvalues'] = np.linalg.eigvalsh(G)[:3]
                w['gram_smallest_lu_pivots'] = np.sort(np.abs(np.diag(scipy.linalg.lu(G)[2])))[:3]
            except Exception as e:  # pragma: no cover
                w['diagnosis_failed'] = repr(e)[:200]
            return w

        ctx.check(not res, f'hierarchy/false-certificate/k{k}' + ('/small-coefficient' if small else ''),
                  'has_rank_hierarchical_method returned True (certificate: every non-zero element has rank >= rank) for an orthonormal basis '
                  'of a subspace that contains a planted non-zero element of lower rank'
                  + (' (the planted element has a coefficient < %g on one of the handed basis vectors)' % SMALL_COEFF if small else ''),
                  wit, point='planted/hierarchy')

    ctx.attach(ms._hierarchy, 'has_rank_hierarchical_method', post=post_hier, pre=pre_arg0('matrix_subspace'))

    # ---------------------------------------------------------------- secondary entry points of _misc.py (the reduction / complement
    # machinery of get_matrix_orthogonal_basis is public on its own, and is reached through it on every call)
    def post_reduce(c):
        if c.exc is not None:
            return
        v = at_call(c, 'np0', 'reduce_vector_space')
        zero_eps = c.arg(1, 'zero_eps', 1e-10)
        if v is None or v.ndim != 2 or v.size == 0 or v.size > 4096:      # size limit: the reference costs three SVDs
            return
        res = np.asarray(c.result)
        if not ctx.check(res.ndim == 2 and res.shape[1] == v.shape[1], 'reduce_vector_space/shape', 'must return rows of the same length', {'in': list(v.shape), 'out': list(res.shape)}):
            return
        sv = rm.singular_values(v)
        lo, hi = int((sv > 10 * zero_eps).sum()), int((sv > zero_eps / 10).sum())      # documented: absolute threshold on the singular values
        wit = lambda **kw: dict(shape=list(v.shape), dtype=str(v.dtype), zero_eps=zero_eps, singular=sv[:12], n_returned=int(res.shape[0]), **kw)
        ctx.check(lo <= res.shape[0] <= hi, 'reduce_vector_space/dimension-wrong',
                  'number of returned rows differs from the number of singular values above zero_eps (a decade of slack around zero_eps)',
                  lambda: wit(expected=[lo, hi]), point='reduce_vector_space/dimension')
        if res.shape[0] == 0 or lo != hi:
            return
        od = float(np.abs(rm.gram(res) - np.eye(res.shape[0])).max())
        ctx.check(od <= TOL_ORTH, 'reduce_vector_space/not-orthonormal', 'returned rows are not orthonormal', lambda: wit(defect=od))
        kappa = float(sv[0] / sv[lo - 1])
        tol = max(TOL_SPAN_FLOOR, 1e3 * 2.3e-16 * kappa)
        if tol > 1e-6:
            ctx.inconclusive('reduce_vector_space/ill-conditioned')
            return
        keep = v[np.linalg.norm(v, axis=1) > 1e-3 * sv[0]]      # rows that are themselves of the noise level are not judged for membership
        r1 = rm.residual_onto(v, res)
        r2 = rm.residual_onto(res, keep) if keep.shape[0] else 0.0
        dropped = float(sv[lo]) if lo < len(sv) else 0.0        # what the threshold is allowed to cut off, seen from a row of norm >= 1e-3*sv[0]
        ctx.check(r1 <= tol and r2 <= 1e3 * tol + dropped / (1e-3 * sv[0]), 'reduce_vector_space/span-mismatch', 'span of the returned rows differs from the span of the input rows',
                  lambda: wit(residual_out_in=r1, residual_in_out=r2, tol=tol, kappa=kappa))

    ctx.attach(ms._misc, 'reduce_vector_space', post=post_reduce, pre=pre_arg0('np0'))

    def post_vec_orth(c):
        if c.exc is not None:
            return
        v = at_call(c, 'np0', 'get_vector_orthogonal_basis')
        if v is None or v.ndim != 2 or v.size == 0 or v.size > 4096:
            return
        res = np.asarray(c.result)
        if not ctx.check(res.ndim == 2 and res.shape[1] == v.shape[1], 'vector_complement/shape', 'must return rows of the same length', {'in': list(v.shape), 'out': list(res.shape)}):
            return
        rank, amb = rm.rank_decision(v)
        if amb or rank == 0:
            ctx.inconclusive('vector_complement/ill-conditioned')
            return
        wit = lambda **kw: dict(shape=list(v.shape), dtype=str(v.dtype), rank=rank, n_returned=int(res.shape[0]), tag_reduce=c.arg(1, 'tag_reduce', True), **kw)
        ctx.check(res.shape[0] == v.shape[1] - rank, 'vector_complement/dim+codim', 'rank + number of complement rows differs from the ambient dimension', wit,
                  point='vector_complement/dim+codim')
        if res.shape[0] == 0:
            return
        od = float(np.abs(rm.gram(res) - np.eye(res.shape[0])).max())
        ctx.check(od <= TOL_ORTH, 'vector_complement/not-orthonormal', 'complement rows are not orthonormal', lambda: wit(defect=od))
        q = rm.onb(v)
        cb = float(np.abs(rm.gram(q, res)).max())        # Hermitian inner product <v_i, w> = sum conj(v_i) w
        ctx.check(cb <= TOL_ORTH, 'vector_complement/not-orthogonal-to-input', 'complement rows are not orthogonal (Hermitian inner product) to the input span',
                  lambda: wit(max_inner=cb))

    ctx.attach(ms._misc, 'get_vector_orthogonal_basis', post=post_vec_orth, pre=pre_arg0('np0'))

    def _field_rows(x, field, split=None):
        x = np.asarray(x)
        x = x.reshape(x.shape[0], -1)
        if field == 'real':
            split = np.iscomplexobj(x) if split is None else split
            return np.concatenate([x.real, x.imag], axis=1).astype(np.float64) if split else x.real.astype(np.float64)
        return x.astype(np.complex128)

    def post_equiv(c):
        if c.exc is not None:
            return
        a, b, field = c.arg(0, 'space0'), c.arg(1, 'space1'), c.arg(2, 'field')
        if field not in ('real', 'complex') or not _is_bool(c.result):
            ctx.check(_is_bool(c.result), 'space_equivalent/return-type', 'is_vector_space_equivalent must return a bool', {'type': type(c.result).__name__})
            return
        split = np.iscomplexobj(a) or np.iscomplexobj(b)
        va, vb = _field_rows(a, field, split), _field_rows(b, field, split)
        (ra, amb_a), (rb, amb_b) = rm.rank_decision(va), rm.rank_decision(vb)
        if amb_a or amb_b or ra == 0 or rb == 0:
            ctx.inconclusive('space_equivalent/ill-conditioned')
            return
        r = max(rm.residual_onto(va, vb), rm.residual_onto(vb, va))
        expected = True if r <= 1e-12 else (False if r >= 1e-6 else None)      # the library's threshold is 1e-10 on the residual
        if expected is None:
            ctx.inconclusive('space_equivalent/near-threshold')
            return
        ctx.check(bool(c.result) == expected, 'space_equivalent/wrong-answer/' + ('equal-spans' if expected else 'different-spans'),
                  'is_vector_space_equivalent disagrees with the residual of each span in the other (reference least squares over the field)',
                  lambda: {'answer': bool(c.result), 'residual': r, 'field': field, 'shapes': [list(np.shape(a)), list(np.shape(b))],
                           'dtypes': [str(np.asarray(a).dtype), str(np.asarray(b).dtype)]}, point='space_equivalent/answer')

    ctx.attach(ms._misc, 'is_vector_space_equivalent', post=post_equiv)

    def post_closest(c):
        if c.exc is not None:
            return
        space, vec, field = c.arg(0, 'space'), c.arg(1, 'vec'), c.arg(2, 'field')
        res = c.result
        ok = isinstance(res, tuple) and len(res) == 2
        if not ctx.check(ok, 'closest_vector/return-form', 'find_closest_vector_in_space must return (coefficients, squared residual)', {'type': type(res).__name__}):
            return
        S = np.asarray(space)
        S = S.reshape(S.shape[0], -1)
        w = np.asarray(vec).reshape(-1)
        # documented key table: real coefficients iff field == 'real' and something is complex, else the natural least squares
        split = np.iscomplexobj(S) or np.iscomplexobj(w)
        if field == 'real':
            Sr, wr = _field_rows(S, 'real', split), _field_rows(w[None], 'real', split)[0]
        else:
            Sr, wr = S.astype(np.complex128), w.astype(np.complex128)
        rank, amb = rm.rank_decision(Sr)
        if amb or rank < Sr.shape[0]:
            ctx.inconclusive('closest_vector/dependent-space')
            return
        q = rm.onb(Sr)
        ref = float(np.linalg.norm(wr - (wr @ q.conj().T) @ q)**2)
        sc = float(np.linalg.norm(wr)**2) or 1.0
        sv = rm.singular_values(Sr)
        tol = max(1e-12, 1e3 * 2.3e-16 * float(sv[0] / sv[-1])) * sc
        coeff = np.asarray(res[0]).reshape(-1)
        ok = coeff.shape[0] == S.shape[0]
        ctx.check(ok and abs(float(res[1]) - ref) <= tol, 'closest_vector/residual-wrong', 'squared distance to the span differs from the reference projection',
                  lambda: {'returned': float(res[1]), 'reference': ref, 'tol': tol, 'field': field, 'space': list(S.shape), 'dtypes': [str(S.dtype), str(w.dtype)]},
                  point='closest_vector/residual')
        if ok:
            if field == 'real' and np.iscomplexobj(coeff):
                ctx.check(float(np.abs(coeff.imag).max()) <= 1e-12, 'closest_vector/complex-coefficients-over-R', 'coefficients over the real field are complex', {'coeff': coeff})
            d2 = float(np.linalg.norm(coeff @ S - w)**2)
            ctx.check(abs(d2 - ref) <= tol, 'closest_vector/coefficients-not-optimal', 'the returned coefficients do not attain the minimal distance',
                      lambda: {'attained': d2, 'reference': ref, 'tol': tol, 'field': field})

    ctx.attach(ms._misc, 'find_closest_vector_in_space', post=post_closest)

    def post_indep(c):
        if c.exc is not None:
            return
        v, field = c.arg(0, 'np0'), c.arg(1, 'field')
        if field not in ('real', 'complex'):
            return
        if not ctx.check(_is_bool(c.result), 'linear_independent/return-type', 'is_vector_linear_independent must return a bool', {'type': type(c.result).__name__}):
            return
        rows = _field_rows(v, field)
        sv = rm.singular_values(rows)
        if rows.shape[0] > rows.shape[1]:
            expected = False
        elif sv.size and sv[0] > 0 and 0.1 <= sv[0] <= 10 and sv[-1] >= 1e-2:
            expected = True           # Gram pivots >= sv_min^2 = 1e-4 >> zero_eps = 1e-7
        elif sv.size and sv[0] > 0 and sv[0] <= 10 and sv[-1] <= 1e-12 * sv[0]:
            expected = False
        else:
            ctx.inconclusive('linear_independent/not-clear-cut')
            return
        ctx.check(bool(c.result) == expected, 'linear_independent/wrong-answer/' + ('independent' if expected else 'dependent'),
                  'is_vector_linear_independent disagrees with the singular values of the rows over the field',
                  lambda: {'answer': bool(c.result), 'field': field, 'shape': list(np.shape(v)), 'dtype': str(np.asarray(v).dtype), 'singular': sv[:12]},
                  point='linear_independent/answer')

    ctx.attach(ms._misc, 'is_vector_linear_independent', post=post_indep)

    # ---------------------------------------------------------------- get_matrix_numerical_range_along_direction
    def post_along(c):
        if c.exc is not None:
            return
        A = at_call(c, 'matA', 'numerical_range_along')
        if A is None or A.ndim != 2 or A.shape[0] < 3 or A.shape[0] > 32:
            return                       # size 2: eigsh falls back to a general eigen-solver (k >= N-1), not judged
        alpha = float(c.arg(1, 'alpha'))
        kind = c.arg(2, 'kind', 'max')
        res = c.result
        ok = isinstance(res, tuple) and len(res) == 2 and np.ndim(res[0]) == 0 and np.shape(res[1]) == (A.shape[0],)
        if not ctx.check(ok, 'numerical_range_along/return-form', 'must return (float, eigenvector)', {'type': type(res).__name__}):
            return
        val, x = float(res[0]), np.asarray(res[1])
        sc = float(np.linalg.norm(A, 2)) or 1.0
        p = np.vdot(x, A @ x) / max(float(np.vdot(x, x).real), 1e-300)
        if abs((p / np.exp(1j * alpha)).imag) > 1e-9 * sc:
            ctx.hit('numerical_range_along/not-judged(documented: non-smooth boundary)')
            return
        a_eff = alpha if kind == 'max' else alpha + np.pi
        r, hmin = rm.radial_extent(A, a_eff)
        if hmin < 0.05 * sc:
            ctx.hit('numerical_range_along/not-judged(origin not well inside)')
            return
        w = lambda: {'alpha': alpha, 'kind': kind, 'value': val, 'reference_extent': r, 'size': A.shape[0], 'A': A}
        ctx.check(abs(p - val * np.exp(1j * alpha)) <= 1e-9 * sc, 'numerical_range_along/value-vs-vector', 'x^H A x of the returned vector is not value*e^{i alpha}', w)
        sval = val if kind == 'max' else -val
        ctx.check(sval <= r + 1e-8 * sc, 'numerical_range_along/point-outside-range', 'value*e^{i alpha} lies outside W(A)', w, point='numerical_range_along/inside')
        ctx.check(sval >= r - 1e-6 * sc, 'numerical_range_along/not-extremal', 'value*e^{i alpha} is not the extreme point of W(A) on the ray of direction alpha (smooth boundary, 0 inside)',
                  w, point='numerical_range_along/extremal')
        _worst(ctx, 'numerical_range_along_worst', '|value-extent|/norm', abs(sval - r) / sc)

    ctx.attach(ms._numerical_range, 'get_matrix_numerical_range_along_direction', post=post_along, pre=pre_arg0('matA'))

    # ---------------------------------------------------------------- is_ABC_completely_entangled_subspace
    def post_abc(c):
        if c.exc is not None:
            return
        k = c.arg(1, 'hierarchy_k', 1)
        res = c.result
        if not ctx.check(_is_bool(res), 'tripartite/return-type', 'is_ABC_completely_entangled_subspace must return a bool', {'type': type(res).__name__}):
            return
        space = at_call(c, 'np_list', 'tripartite')
        if space is None:
            return
        lab = REG.get(_dg(space))
        if lab is None or lab['kind'] != 'product':
            _stat(ctx, 'tripartite_unlabelled', f'k{k}/' + ('certified' if res else 'not-certified'))
            return
        grp = f"tripartite_planted/k{k}/{'complex' if lab['complex'] else 'real'}"
        _stat(ctx, grp, 'cases')
        _stat(ctx, grp, 'false_certificate' if res else 'non_certificate')
        small = lab['min_coeff'] < SMALL_COEFF
        _stat(ctx, grp, 'cases_with_small_coefficient', int(small))
        ctx.check(not res, f'tripartite/false-certificate/k{k}' + ('/small-coefficient' if small else ''),
                  'is_ABC_completely_entangled_subspace returned True for an orthonormal basis of a subspace that contains a planted product vector'
                  + (' (the planted vector has a coefficient < %g on one of the handed basis vectors)' % SMALL_COEFF if small else ''),
                  lambda: {'hierarchy_k': k, 'shape': list(space.shape), 'dtype': str(space.dtype), 'membership_residual': lab['residual'],
                           'smallest_coefficient_of_planted_vector_in_basis': lab['min_coeff'], 'basis': space, 'factors': lab['factors']},
                  point='planted/tripartite')

    ctx.attach(ms._hierarchy, 'is_ABC_completely_entangled_subspace', post=post_abc, pre=pre_arg0('np_list'))

    # ---------------------------------------------------------------- get_real_bipartite_numerical_range
    def post_bipartite(c):
        if c.exc is not None:
            return
        mat = at_call(c, 'mat', 'bipartite_range')
        if mat is None:
            return
        kind = c.arg(1, 'kind', 'min')
        method = c.arg(2, 'method', 'eigen')
        if method != 'eigen' or mat.ndim != 4 or kind not in ('min', 'max'):
            ctx.hit('bipartite_range/not-judged(method=rotation)')
            return
        try:
            ret = float(c.result)
        except Exception:
            ctx.check(False, 'bipartite_range/return-type', 'get_real_bipartite_numerical_range must return a float', {'type': type(c.result).__name__})
            return
        dA, dB = mat.shape[:2]
        M = mat.reshape(dA * dB, dA * dB)
        if dA * dB > 64:
            nsample, nstart = 16, 2
        else:
            nsample, nstart = 64, 4
        val, (x, y) = rm.product_extreme(M, dA, dB, _mon_rng(mat), kind, nsample=nsample, nstart=nstart)
        # relative to the operator norm at EVERY magnitude (no floor of 1: a tiny matrix is judged as strictly as an ordinary one;
        # measured on the unchanged tree for scales 1e-8..1e8 and shifts up to 1e6: the bound dominates the product value to 3e-15*norm)
        sc = float(np.linalg.norm(M, 2)) or 1.0
        tol = TOL_RANGE * sc
        if not ctx.check(np.isfinite(ret), 'bipartite_range/not-finite', 'bound is not finite', {'ret': ret, 'kind': kind}):
            return
        w = lambda: {'kind': kind, 'bound': ret, 'product_value': val, 'x': x, 'y': y, 'dims': [dA, dB], 'mat': M}
        if kind == 'max':
            ctx.check(ret >= val - tol, 'bipartite_range/max-below-product-value',
                      'kind="max" bound is smaller than the value (x(x)y)^T M (x(x)y) of a real unit product vector', w, point='bipartite_range/bound-vs-product')
            _worst(ctx, 'bipartite_gap(bound-best_product)/scale', 'max:min', (ret - val) / sc, 'min')
            _worst(ctx, 'bipartite_gap(bound-best_product)/scale', 'max:max', (ret - val) / sc, 'max')
        else:
            ctx.check(ret <= val + tol, 'bipartite_range/min-above-product-value',
                      'kind="min" bound is larger than the value (x(x)y)^T M (x(x)y) of a real unit product vector', w, point='bipartite_range/bound-vs-product')
            _worst(ctx, 'bipartite_gap(best_product-bound)/scale', 'min:min', (val - ret) / sc, 'min')
            _worst(ctx, 'bipartite_gap(best_product-bound)/scale', 'min:max', (val - ret) / sc, 'max')

    ctx.attach(ms._numerical_range, 'get_real_bipartite_numerical_range', post=post_bipartite, pre=pre_arg0('mat'))

    # ---------------------------------------------------------------- detect_real_matrix_subspace_rank_one
    def post_detect(c):
        if c.exc is not None:
            return
        space = at_call(c, 'matrix_subspace', 'rank_one_detector')
        if space is None:
            return
        res = c.result
        ok = isinstance(res, tuple) and len(res) == 2 and _is_bool(res[0])
        if ok:
            try:
                ub = float(res[1])
            except Exception:
                ok = False
        if not ctx.check(ok, 'rank_one_detector/return-form', 'detect_real_matrix_subspace_rank_one must return (bool, float)', {'type': type(res).__name__}):
            return
        tag = bool(res[0])
        ctx.check(tag or ub < 1, 'rank_one_detector/certificate-with-bound>=1', 'tag False (certificate) although the returned bound is >= 1',
                  {'tag': tag, 'bound': ub})
        lab = REG.get(_dg(space))
        if lab is None or lab['kind'] != 'lowrank' or lab['rank'] != 1 or lab['complex']:
            _stat(ctx, 'rank_one_unlabelled', 'certified' if not tag else 'not-certified')
            return
        _stat(ctx, 'rank_one_planted', 'cases')
        _stat(ctx, 'rank_one_planted', 'false_certificate' if not tag else 'non_certificate')
        _stat(ctx, 'rank_one_planted', 'bound<1(rounding)', int(ub < 1))
        _worst(ctx, 'rank_one_planted_bound_minus_1', 'min', ub - 1, 'min')
        _worst(ctx, 'rank_one_planted_bound_minus_1', 'max', ub - 1, 'max')
        w = lambda: {'tag': tag, 'bound': ub, 'bound_minus_1': ub - 1, 'shape': list(space.shape), 'membership_residual': lab['residual'],
                     'planted_singular_values': lab['singular'], 'basis': space, 'planted_element': lab['element']}
        ctx.check(tag, 'rank_one_detector/false-certificate',
                  'detect_real_matrix_subspace_rank_one returned tag False ("all non-zero elements have rank >= 2") for an orthonormal basis of a '
                  'real subspace that contains a planted rank-one element', w, point='planted/rank_one')
        # the bound itself must dominate the value of the planted product vector (= squared norm of its projection = 1)
        V = rm.onb(space.reshape(space.shape[0], -1).astype(np.float64))
        e = lab['element'].reshape(-1).real
        val = float(np.linalg.norm(V @ (e / np.linalg.norm(e)))**2)
        ctx.check(ub >= val - TOL_RANGE, 'rank_one_detector/bound-below-planted-value',
                  'the returned upper bound is smaller than <x(x)y|P|x(x)y> of the planted product vector', lambda: dict(w(), planted_value=val))

    ctx.attach(ms._numerical_range, 'detect_real_matrix_subspace_rank_one', post=post_detect, pre=pre_arg0('matrix_subspace'))

    # ---------------------------------------------------------------- get_matrix_numerical_range
    def post_numrange(c):
        if c.exc is not None:
            return
        A = at_call(c, 'matA', 'numerical_range')
        if A is None:
            return
        npt = c.arg(1, 'num_point', 100)
        pts = np.asarray(c.result)
        ok = pts.shape == (npt,) and bool(np.all(np.isfinite(pts)))
        if not ctx.check(ok, 'numerical_range/return-form', 'must return num_point finite complex points', {'shape': list(pts.shape), 'num_point': npt}):
            return
        if A.ndim != 2 or A.shape[0] > 64:
            return
        th = np.linspace(0, 2 * np.pi, npt)
        h = rm.support_values(A, th)
        # relative to the operator norm at every magnitude (measured: <= 3e-15*norm for scales 1e-8..1e8, c*1+1e-12*X, nearly
        # degenerate top eigenvalues), no floor of 1
        sc = float(np.linalg.norm(A, 2)) or 1.0
        proj = (np.exp(1j * th) * pts).real
        gap = float((h - proj).max()) / sc
        i = int(np.argmax(h - proj))
        ctx.check(gap <= TOL_RANGE, 'numerical_range/not-attained',
                  'a returned point does not attain the support function lambda_max((e^{it}A + h.c.)/2) in its direction t',
                  lambda: {'index': i, 'theta': float(th[i]), 'point': complex(pts[i]), 'Re(e^{it}p)': float(proj[i]), 'support': float(h[i]),
                           'gap_rel': gap, 'size': A.shape[0], 'A': A}, point='numerical_range/attained')
        out = rm.outside_numerical_range(pts, A, 72) / sc
        out = max(out, float((proj - h).max()) / sc)
        ctx.check(out <= TOL_RANGE, 'numerical_range/point-outside-range',
                  'a returned point is outside W(A) (violates a supporting half plane), so it is not x^H A x of a unit vector',
                  lambda: {'excess_rel': out, 'size': A.shape[0], 'A': A, 'points': pts[:8]}, point='numerical_range/inside')
        _worst(ctx, 'numerical_range_worst', 'support_gap_rel', gap)
        _worst(ctx, 'numerical_range_worst', 'outside_rel', out)

    ctx.attach(ms._numerical_range, 'get_matrix_numerical_range', post=post_numrange, pre=pre_arg0('matA'))


# ----------------------------------------------------------------------------------------------- producers of ghost labels
def label_lowrank(ctx, basis, planted, cplx):
    """verify with the reference that `basis` is orthonormal and contains `planted` whose rank is known; register"""
    res = rm.membership_residual(basis, planted)
    rk, s = rm.numerical_rank(planted)
    od = rm.orthonormality_defect(basis)
    if od > 1e-12 or res > 1e-12:
        ctx.inconclusive('planted/label-not-verified')
        return None
    lab = {'kind': 'lowrank', 'rank': rk, 'complex': bool(cplx), 'element': planted, 'residual': res, 'singular': s, 'orthonormality': od,
           'min_coeff': float(rm.coefficient_profile(basis, planted).min())}
    register(basis, lab)
    return lab


def label_product(ctx, basis, planted, factors, cplx):
    res = rm.membership_residual(basis, planted)
    od = rm.orthonormality_defect(basis)
    if od > 1e-12 or res > 1e-12:
        ctx.inconclusive('planted/label-not-verified')
        return None
    lab = {'kind': 'product', 'complex': bool(cplx), 'element': planted, 'factors': [np.asarray(f) for f in factors], 'residual': res,
           'orthonormality': od, 'min_coeff': float(rm.coefficient_profile(basis, planted).min())}
    register(basis, lab)
    return lab


def n_index(N, order):
    return math.comb(N + order - 1, order)


# ----------------------------------------------------------------------------------------------- workloads
def run_basis(ctx, numqi, shard):
    ms = numqi.matrix_space
    rng = ctx.rng
    quick = ctx.tier == 'quick'
    ctx.workload('random')
    reps = 1 if quick else 20
    todo = []
    for ci, combo in enumerate(rm.COMBOS):
        square = combo[0] in ('R_T', 'C_T', 'C_H', 'R_cT')
        if square:
            dims = [(m, m) for m in range(2, 6)]
        else:
            dims = [(m, n) for m in range(2, 6) for n in range(2, 6)]
            if quick:
                dims = [(2, 2), (2, 5), (3, 3), (3, 4), (4, 2), (4, 4), (5, 3), (5, 5)]
        for (m, n) in dims:
            todo.append((combo, m, n))
    todo = [t for i, t in enumerate(todo) if i % shard['nparts'] == shard['part']]
    for combo, m, n in todo:
        cls, dt, field = combo
        D = rm.ambient_dim(cls, m, n)
        for rep in range(reps):
            dims_k = {1, D, max(1, D - 1)}
            if D > 3:
                dims_k.update(int(x) for x in rng.integers(2, D - 1, size=2))
            for k in sorted(dims_k):
                if ctx.time_left() < 3:
                    ctx.extra['truncated'] = True
                    return
                extra = int(rng.choice([0, 1, 2, 3, 5, 8])) if k > 1 else int(rng.choice([0, 1, 3]))
                n_gen = k + extra
                scale = 1.0 if (quick and rep == 0 and extra != 5) else float(10.0 ** rng.integers(-2, 3))
                gens = rm.structured_generators(rng, combo, m, n, k, n_gen, scale)
                desc = {'op': 'basis', 'combo': list(combo), 'm': m, 'n': n, 'spanned_dim': k, 'n_generators': n_gen, 'scale': scale}
                ctx.set_case(desc)
                ctx.case('basis', gens, field, nontrivial=n_gen > k,
                         sample=dict(desc, first_generator=gens[0]) if (k == 2 and m == 3 and rep == 0) else None)
                with ctx.guard(f'basis/{cls}'):
                    ms.get_matrix_orthogonal_basis(gens, field)
                if rep == 0 and k == max(1, D - 1):
                    # hostile variants of the same subspace: permuted + repeated generators, non-contiguous view, explicit zero_eps
                    g2 = np.concatenate([gens[::-1], gens[:1], 0 * gens[:1]], axis=0)
                    ctx.set_case(dict(desc, variant='reversed+repeated+zero generator'))
                    ctx.case('basis', g2, field, nontrivial=True)
                    with ctx.guard(f'basis/{cls}'):
                        ms.get_matrix_orthogonal_basis(g2, field, zero_eps=1e-9)
                    big = np.zeros((n_gen, m + 1, n + 1), dtype=gens.dtype)
                    big[:, :m, :n] = gens
                    view = big[:, :m, :n]
                    ctx.set_case(dict(desc, variant='non-contiguous view'))
                    ctx.case('basis-view', gens, field, nontrivial=n_gen > k)
                    with ctx.guard(f'basis/{cls}'):
                        ms.get_matrix_orthogonal_basis(view, field)
    # hostile / numerical regime: nearly rank-deficient, badly conditioned but admissible generator lists. The coordinate matrix has EXACTLY
    # the prescribed singular values (1,..,1,weak) or a geometric ladder down to 1e-6 (all >= 1e-8 absolute: two decades above the
    # library's absolute zero_eps=1e-10), with exactly dependent extra generators; fewer and more generators than the ambient dimension.
    # The span tolerances are 1e3*eps*kappa with kappa = 1/weak known from the construction and re-measured by the reference.
    ctx.workload('hostile')
    weak_all = (1e-3, 1e-4, 1e-5, 1e-6)
    for ti, (combo, m, n) in enumerate(todo):
        cls, dt, field = combo
        D = rm.ambient_dim(cls, m, n)
        for rep in range(1 if quick else 4):
            if ctx.time_left() < 3:
                ctx.extra['truncated'] = True
                break
            weak = weak_all[(ti + rep + shard['part']) % 4]
            k = int(rng.integers(2, D + 1)) if D > 2 else 2
            if (ti + rep) % 3 == 2 and k >= 3:
                sv = np.geomspace(1.0, 1e-6, k)
                shape_name = 'geometric-ladder'
            else:
                sv = np.ones(k)
                sv[-1] = weak
                shape_name = 'one-weak-direction'
            n_gen = k + int(rng.choice([0, 0, 2, 5]))
            scale = float(rng.choice([1.0, 1e-2, 1e2]))
            gens = rm.graded_generators(rng, combo, m, n, sv, n_gen, scale)
            desc = {'op': 'basis/graded-generators', 'combo': list(combo), 'm': m, 'n': n, 'spanned_dim': k, 'n_generators': n_gen, 'scale': scale,
                    'singular_values': shape_name, 'smallest_relative_singular_value': float(sv.min()), 'fewer_generators_than_ambient': bool(n_gen < D)}
            ctx.set_case(desc)
            ctx.case('basis-graded', gens, field, nontrivial=True, sample=dict(desc, first_generator=gens[0]) if (ti == 1 and rep == 0) else None)
            _stat(ctx, 'basis_graded_cases', f'{cls}/weak={sv.min():.0e}')
            with ctx.guard(f'basis/{cls}'):
                ms.get_matrix_orthogonal_basis(gens, field)
        # small overall magnitude, well conditioned (the library's thresholds are absolute: 1e-6 is four decades above them)
        if ti % 2 == shard['part'] % 2:
            k = max(1, D // 2)
            gens = rm.structured_generators(rng, combo, m, n, k, k + 2, 1e-6)
            ctx.set_case({'op': 'basis/tiny-scale', 'combo': list(combo), 'm': m, 'n': n, 'spanned_dim': k, 'scale': 1e-6})
            ctx.case('basis-tiny', gens, field, nontrivial=True)
            with ctx.guard(f'basis/{cls}'):
                ms.get_matrix_orthogonal_basis(gens, field)
    # corner: generators that are basis-like (unit matrices / a single generator), every class
    ctx.workload('corner')
    if shard['part'] == 0:
        for m in (2, 3):
            E = np.zeros((m * m, m, m))
            for a in range(m):
                for b in range(m):
                    E[a * m + b, a, b] = 1
            sym = np.stack([E[a * m + b] + E[b * m + a] for a in range(m) for b in range(a, m)])
            corner = [(E, 'real'), (E, 'complex'), (E[:m], 'real'), (sym, 'real'), (sym, 'complex'), (sym[:2] * (1 + 0j) * 1j, 'real'),
                      (sym * (1 + 1j), 'complex'), (sym[:2] * (1 + 1j), 'real'), (E * 1j, 'real'), (E[1:3] + 1j * E[2:4], 'complex'),
                      (np.stack([np.eye(m) + 0j, np.diag(np.arange(m)) + 1j * (E[1] - E[m])]), 'real')]
            for g, field in corner:
                ctx.set_case({'op': 'basis-corner', 'm': m, 'field': field, 'dtype': str(g.dtype), 'n_generators': len(g)})
                ctx.case('basis-corner', g, field, nontrivial=False)
                with ctx.guard('basis/corner'):
                    ms.get_matrix_orthogonal_basis(g, field)


def run_realistic(ctx, numqi, shard):
    """the library's own examples and constructions with the contracts on"""
    ms = numqi.matrix_space
    rng = ctx.rng
    run_entrypoints(ctx, numqi, shard)
    ctx.workload('realistic')
    for key in ('XZ_R', 'XZ_C', '0error-eq524', 'hierarchy-ex1', 'hierarchy-ex3', 'hierarchy-ex5'):
        ctx.set_case({'op': 'example', 'key': key})
        with ctx.guard('realistic/example'):
            space, field = ms.get_matrix_subspace_example(key)
            ctx.case('example', key, nontrivial=False)
            b, o, ch = ms.get_matrix_orthogonal_basis(space, field)
            if key.startswith('hierarchy') or key == '0error-eq524':
                for k in (1, 2):
                    ms.has_rank_hierarchical_method(b, rank=2, hierarchy_k=k)
            if field == 'real':
                ms.detect_real_matrix_subspace_rank_one(space)
    # documented example 3 of arXiv:2212.12811: span_R(1, iY) has bound 1/2
    ctx.set_case({'op': 'example', 'key': 'span(1,iY)'})
    with ctx.guard('realistic/example'):
        sp = np.stack([np.eye(2), np.array([[0.0, -1], [1, 0]])])
        ctx.case('example', 'span(1,iY)', nontrivial=True)
        tag, ub = ms.detect_real_matrix_subspace_rank_one(sp)
        ctx.check((not tag) and abs(ub - 0.5) < 1e-6, 'rank_one_detector/documented-example', 'span_R(1, iY): documented bound 1/2, no rank-one element',
                  {'tag': bool(tag), 'bound': float(ub)})
    # the zero-error example: the complement of <A (x) B> contains the rank-one element |L><R| (stated in the source)
    for theta in (0.3, 0.7, 1.2):
        ctx.set_case({'op': 'example', 'key': '0error-eq537', 'theta': theta})
        with ctx.guard('realistic/0error-eq537'):
            npA, npB, npAB, npL, npR, field = ms.get_matrix_subspace_example('0error-eq537', theta)
            ctx.case('example-eq537', theta, nontrivial=True)
            for g in (npA, npB):
                o = ms.get_matrix_orthogonal_basis(g, field)[1]
                ms.detect_real_matrix_subspace_rank_one(o)
            oAB = np.ascontiguousarray(ms.get_matrix_orthogonal_basis(npAB, field)[1])
            planted = np.outer(npL, npR)
            planted = planted / np.linalg.norm(planted)
            lab = label_lowrank(ctx, oAB, planted, False)
            if lab is not None and lab['rank'] == 1:
                ms.detect_real_matrix_subspace_rank_one(oAB)
    # completely entangled subspaces of both constructions; then the same subspace plus one product vector
    for dims in [(2, 2, 2), (2, 2, 3), (2, 3, 2), (3, 2, 2), (2, 2, 4), (2, 3, 3)]:
        for kind in ('quant-ph/0409032', 'quant-ph/0405077'):
            ctx.set_case({'op': 'CES', 'dims': list(dims), 'kind': kind})
            with ctx.guard('realistic/CES'):
                ces = ms.get_completed_entangled_subspace(dims, kind, seed=int(rng.integers(2**31)))[0]
                ctx.case('CES', dims, kind, ces, nontrivial=True)
                if len(ces) > 9:
                    continue
                for k in (1, 2):
                    ms.is_ABC_completely_entangled_subspace(list(ces), hierarchy_k=k)
                cplx = np.iscomplexobj(ces)
                vecs = [rng.normal(size=d) + (1j * rng.normal(size=d) if cplx else 0) for d in dims]
                vecs = [v / np.linalg.norm(v) for v in vecs]
                prod = np.multiply.outer(np.multiply.outer(vecs[0], vecs[1]), vecs[2])
                N = len(ces) + 1
                rows = np.concatenate([ces.reshape(len(ces), -1), prod.reshape(1, -1)], axis=0)
                mixed = rm.random_rotation(rng, N, cplx) @ rm.orthonormal_rows(rm._randn(rng, cplx, N, N) @ rows)
                space = mixed.reshape((N,) + tuple(dims))
                if label_product(ctx, space, prod, vecs, cplx) is not None:
                    for k in (1, 2):
                        ms.is_ABC_completely_entangled_subspace(list(space), hierarchy_k=k)
                    flat = np.ascontiguousarray(space.reshape(N, dims[0], -1))
                    if label_lowrank(ctx, flat, prod.reshape(dims[0], -1), cplx) is not None:
                        ms.has_rank_hierarchical_method(flat, rank=2, hierarchy_k=1)


def run_entrypoints(ctx, numqi, shard):
    """less prominent public entry points of the anchored files that consume the same machinery: the vector-level reduction and
    complement, span equivalence, closest vector, linear independence, the numerical range along a ray. Each is judged by its own
    contract (reference model) and related to get_matrix_orthogonal_basis where the two must agree."""
    ms = numqi.matrix_space
    rng = ctx.rng
    quick = ctx.tier == 'quick'
    ctx.workload('entry-points')
    reps = 1 if quick else 6
    for rep in range(reps):
        # ---- reduce_vector_space / get_vector_orthogonal_basis called directly: wide, square and TALL row matrices, real and complex,
        # exact dependence, one weak direction, full rank (empty complement), rank one
        for (r, c_) in [(2, 5), (4, 4), (7, 3), (3, 3), (1, 4), (6, 6), (9, 4), (3, 8)]:
            for cplx in (False, True):
                kmax = min(r, c_)
                for k, weak in [(kmax, 1.0), (max(1, kmax - 1), 1.0), (kmax, 1e-5), (1, 1.0)]:
                    q = rm.orthonormal_rows(rm._randn(rng, cplx, k, c_))
                    sv = np.ones(k)
                    sv[-1] = weak
                    u = rm.orthonormal_rows(rm._randn(rng, cplx, k, r)).T if r >= k else None
                    if u is None:
                        continue
                    V = (u * sv[None, :]) @ q
                    desc = {'op': 'vector-space', 'rows': r, 'cols': c_, 'rank': k, 'complex': cplx, 'weak': weak}
                    ctx.set_case(desc)
                    ctx.case('vector-space', V, nontrivial=r > k)
                    with ctx.guard('reduce_vector_space'):
                        red = ms.reduce_vector_space(V)
                    with ctx.guard('vector_complement'):
                        o1 = ms.get_vector_orthogonal_basis(V)
                        if isinstance(red, np.ndarray) and red.ndim == 2 and red.shape[0]:
                            o2 = ms.get_vector_orthogonal_basis(np.array(red), tag_reduce=False)
                            same = np.shape(o1) == np.shape(o2) and (np.shape(o1)[0] == 0 or float(np.abs(
                                rm.gram(rm.onb(np.asarray(o1)), np.asarray(o2)) @ rm.gram(rm.onb(np.asarray(o1)), np.asarray(o2)).conj().T - np.eye(len(o2))).max()) <= 1e-8)
                            ctx.check(same, 'vector_complement/tag_reduce-dependent', 'complement of the rows and complement of their reduced rows span different spaces',
                                      dict(desc, shapes=[list(np.shape(o1)), list(np.shape(o2))]))
        # ---- span equivalence and closest vector, related to the basis of get_matrix_orthogonal_basis
        for ci, combo in enumerate(rm.COMBOS):
            cls, dt, field = combo
            m = 2 + (ci + rep) % 3
            n = m if cls in ('R_T', 'C_T', 'C_H', 'R_cT') else 2 + (ci + rep + 1) % 4
            D = rm.ambient_dim(cls, m, n)
            k = max(1, min(D - 2, D // 2))
            gens = rm.structured_generators(rng, combo, m, n, k, k + 2)
            desc = {'op': 'span-equivalence', 'combo': list(combo), 'm': m, 'n': n, 'spanned_dim': k}
            ctx.set_case(desc)
            ctx.case('span-equivalence', gens, field, nontrivial=True)
            with ctx.guard('space_equivalent'):
                b, o, ch = ms.get_matrix_orthogonal_basis(gens, field)
                if cls in rm.EMBEDDED or len(o) == 0:
                    continue                      # the embedded classes return another representation: not comparable entry-wise
                b = np.asarray(b)
                e1 = ms.is_vector_space_equivalent(gens, b, field)
                e2 = ms.is_vector_space_equivalent(b, gens[::-1].copy(), field)
                bigger = np.concatenate([b, np.asarray(o)[:1]], axis=0)
                e3 = ms.is_vector_space_equivalent(gens, bigger, field)
                e4 = ms.is_vector_space_equivalent(bigger, gens, field)
                smaller = b[:-1] if len(b) > 1 else None
                e5 = ms.is_vector_space_equivalent(gens, smaller, field) if smaller is not None else False
                ctx.check(_truthy(e1) and _truthy(e2) and not _truthy(e3) and not _truthy(e4) and not _truthy(e5), f'space_equivalent/disagrees-with-basis/{cls}',
                          'span(generators) must be equivalent to span(basis) in both argument orders, and not to the basis plus a complement element / minus one element',
                          dict(desc, answers=[bool(x) for x in (e1, e2, e3, e4, e5)]), point='space_equivalent/vs-basis')
            with ctx.guard('closest_vector'):
                # a generator has distance 0 from span(basis); a complement element of norm a has squared distance a^2
                t = np.tensordot(rm._randn(rng, field == 'complex' and dt == 'complex', len(gens)), gens, axes=(0, 0))
                c0, d0 = ms.find_closest_vector_in_space(b, t, field)
                comp = np.asarray(o)[0]
                c1, d1 = ms.find_closest_vector_in_space(b, t + 0.5 * comp, field)
                nrm2 = float(np.linalg.norm(comp)**2)
                ctx.check(abs(float(d0)) <= 1e-12 * max(1.0, float(np.linalg.norm(t)**2)) and abs(float(d1) - 0.25 * nrm2) <= 1e-9 * max(1.0, float(np.linalg.norm(t)**2)),
                          f'closest_vector/disagrees-with-basis/{cls}', 'distance of (span element + 0.5*complement element) from span(basis) must be 0.25*|complement element|^2',
                          dict(desc, d_inside=float(d0), d_outside=float(d1), expected_outside=0.25 * nrm2), point='closest_vector/vs-basis')
            with ctx.guard('linear_independent'):
                i1 = ms.is_vector_linear_independent(b / max(float(np.linalg.norm(b[0])), 1e-300), field)
                i2 = ms.is_vector_linear_independent(np.concatenate([b, b[:1] + (b[1:2] if len(b) > 1 else 0)], axis=0) / max(float(np.linalg.norm(b[0])), 1e-300), field)
                ctx.check(_truthy(i1) and not _truthy(i2), f'linear_independent/disagrees-with-basis/{cls}', 'a returned basis must be independent; with a dependent element appended it must not be',
                          dict(desc, answers=[bool(i1), bool(i2)]), point='linear_independent/vs-basis')
        # complex rows that are dependent over C but independent over R (field matters)
        with ctx.guard('linear_independent'):
            z = rm.orthonormal_rows(rm._randn(rng, True, 2, 5))
            zz = np.concatenate([z, 1j * z[:1]], axis=0)
            ctx.set_case({'op': 'independence-over-R-vs-C'})
            ctx.case('independence-over-R-vs-C', zz, nontrivial=True)
            ms.is_vector_linear_independent(zz, 'real')
            ms.is_vector_linear_independent(zz, 'complex')
            ms.is_vector_space_equivalent(zz, z, 'complex')
            ms.is_vector_space_equivalent(zz, z, 'real')
            ms.find_closest_vector_in_space(z, 1j * z[0] + z[1], 'real')
            ms.find_closest_vector_in_space(z, 1j * z[0] + z[1], 'complex')
            ms.find_closest_vector_in_space(z.real, z[0], 'real')
            ms.find_closest_vector_in_space(z.real, z[0].real, 'complex')
        # ---- numerical range along a ray: 0 well inside W(A) (trace removed), smooth boundary (generic non-normal), directions far outside
        # [0, 2 pi) must give the value of the wrapped direction
        for d in (3, 4, 5, 6, 8):
            A = rm.rand_square(rng, d, 'nonnormal' if d % 2 else 'real-nonnormal')
            A = A - np.trace(A) / d * np.eye(d)
            if d == 6:
                A = A * 1e-6
            alpha = float(rng.uniform(0, 2 * np.pi))
            for kind in ('max', 'min'):
                desc = {'op': 'numerical-range-along-direction', 'size': d, 'alpha': alpha, 'kind': kind}
                ctx.set_case(desc)
                ctx.case('numrange-along', A, alpha, kind, nontrivial=True)
                vals = []
                with ctx.guard('numerical_range_along'):
                    for wrap in (0, 3, -2):
                        with contextlib.redirect_stdout(None):
                            r_ = ms.get_matrix_numerical_range_along_direction(A, alpha + 2 * np.pi * wrap, kind=kind)
                        vals.append(float(r_[0]))
                if len(vals) == 3:
                    sc = float(np.linalg.norm(A, 2))
                    ctx.check(max(vals) - min(vals) <= 1e-7 * sc, 'numerical_range_along/direction-not-2pi-periodic',
                              'the value along alpha differs from the value along alpha + 2 pi k', dict(desc, values=vals), point='numerical_range_along/periodic')


def run_rank_one(ctx, numqi, shard):
    ms = numqi.matrix_space
    rng = ctx.rng
    ctx.workload('random')
    dims_all = [(a, b) for a in range(2, 6) for b in range(2, 6)]
    for it in range(shard['n']):
        if ctx.time_left() < 3:
            ctx.extra['truncated'] = it
            break
        dA, dB = dims_all[it % len(dims_all)]
        gen = (dA - 1) * (dB - 1)
        Nmax = max(1, gen // 2 + 1)
        N = int(rng.integers(1, Nmax + 1))
        spread = 1.0
        basis, planted, cond = rm.planted_low_rank(rng, dA, dB, 1, N, False, spread)
        variant = 'general'
        if dA == dB and it % 2 == 1:
            # subspace of SYMMETRIC matrices with planted x x^T: the detector takes the Gell-Mann (R_T) branch of the basis function
            N = int(rng.integers(1, max(1, (dA * (dA - 1)) // 2) + 1))
            basis, planted = rm.planted_symmetric_rank_one(rng, dA, N)
            variant, cond = 'symmetric', None
        elif it % 7 == 3:
            basis = np.ascontiguousarray(basis + 1e-14 * rng.normal(size=basis.shape))     # equal up to rounding noise only
            variant = 'rounding-noise'
        desc = {'op': 'planted-rank-one', 'dA': dA, 'dB': dB, 'N': N, 'mixing_cond': cond, 'variant': variant}
        _stat(ctx, 'rank_one_variants', variant)
        ctx.set_case(desc)
        lab = label_lowrank(ctx, basis, planted, False)
        if lab is None:
            continue
        ctx.case('planted-rank-one', basis, nontrivial=N <= gen, sample=dict(desc, basis=basis, planted=planted) if it == 5 else None)
        with ctx.guard('rank_one_detector'):
            ms.detect_real_matrix_subspace_rank_one(basis)
        if it % 3 == 0:
            ctrl = rm.random_subspace(rng, (dA, dB), N, False)
            ctx.set_case({'op': 'control-rank-one', 'dA': dA, 'dB': dB, 'N': N})
            with ctx.guard('rank_one_detector'):
                tag, ub = ms.detect_real_matrix_subspace_rank_one(ctrl)
            _stat(ctx, 'rank_one_control', f'{dA}x{dB}/N{N}/' + ('certified' if not tag else 'not-certified'))
    ctx.workload('corner')
    for dA, dB in [(2, 2), (2, 3), (3, 3), (4, 4)]:
        E = np.zeros((2, dA, dB))
        E[0, 0, 0] = 1
        E[1, 1, 1] = 1
        for sp, pl in [(E[:1], E[0]), (E, E[0]), (np.stack([(E[0] + E[1]) / np.sqrt(2), (E[0] - E[1]) / np.sqrt(2)]), E[1])]:
            ctx.set_case({'op': 'corner-rank-one', 'dA': dA, 'dB': dB, 'N': len(sp)})
            sp = np.ascontiguousarray(sp)
            if label_lowrank(ctx, sp, pl, False) is None:
                continue
            ctx.case('corner-rank-one', sp, nontrivial=True)
            with ctx.guard('rank_one_detector'):
                ms.detect_real_matrix_subspace_rank_one(sp)


def run_bipartite(ctx, numqi, shard):
    ms = numqi.matrix_space
    rng = ctx.rng
    ctx.workload('random')
    dims_all = [(a, b) for a in range(2, 6) for b in range(2, 6)]
    for it in range(shard['n']):
        if ctx.time_left() < 3:
            ctx.extra['truncated'] = it
            break
        dA, dB = dims_all[it % len(dims_all)]
        D = dA * dB
        flavour = ['symmetric', 'psd', 'projector', 'low-rank', 'product-structured', 'pt-invariant'][it % 6]
        if flavour == 'symmetric':
            M = rng.normal(size=(D, D))
            M = M + M.T
        elif flavour == 'psd':
            X = rng.normal(size=(D, D))
            M = X @ X.T
        elif flavour == 'projector':
            V = rm.random_subspace(rng, (D,), int(rng.integers(1, D)), False)
            M = V.T @ V
        elif flavour == 'low-rank':
            X = rng.normal(size=(D, 2))
            M = X @ np.diag([1.0, -0.5]) @ X.T
        elif flavour == 'product-structured':
            a = rng.normal(size=(dA, dA))
            b = rng.normal(size=(dB, dB))
            M = np.kron(a + a.T, b + b.T) + 0.3 * np.eye(D)
        else:
            M = rng.normal(size=(D, D))
            M = M + M.T
            M4 = M.reshape(dA, dB, dA, dB)
            M = ((M4 + M4.transpose(0, 3, 2, 1)) / 2).reshape(D, D)
            M = (M + M.T) / 2
        M = (M + M.T) / 2
        regime = 'ordinary'
        if it % 7 == 3:
            regime = ['scale=1e-8', 'scale=1e8', 'shift=1e6'][(it // 7) % 3]      # judged relative to the operator norm
            M = M * 1e-8 if regime == 'scale=1e-8' else (M * 1e8 if regime == 'scale=1e8' else M + 1e6 * np.eye(D))
        M4 = np.ascontiguousarray(M.reshape(dA, dB, dA, dB))
        pt = M4.transpose(0, 3, 2, 1).reshape(D, D)
        nontriv = float(np.abs(pt - M).max()) > 1e-9 * float(np.abs(M).max())
        for kind in ('max', 'min'):
            desc = {'op': 'bipartite-range', 'dA': dA, 'dB': dB, 'flavour': flavour, 'kind': kind, 'regime': regime}
            ctx.set_case(desc)
            ctx.case('bipartite', M4, kind, nontrivial=nontriv, sample=dict(desc, mat=M) if it == 7 and kind == 'max' else None)
            with ctx.guard('bipartite_range'):
                ms.get_real_bipartite_numerical_range(M4, kind=kind, method='eigen')


def hier_configs(k, max_index):
    cfgs = []
    for dA in range(2, 6):
        for dB in range(2, 6):
            for p in range(1, min(dA, dB)):
                gen = (dA - p) * (dB - p)
                Ns = [N for N in range(1, gen + 1) if n_index(N, p + k) <= max_index]
                if Ns:
                    cfgs.append((dA, dB, p, Ns))
    return cfgs


def run_hier(ctx, numqi, shard):
    ms = numqi.matrix_space
    rng = ctx.rng
    k = shard['k']
    # hostile: the same kind of subspace, but the orthonormal basis is rotated such that the planted element has a very small
    # component along the LAST basis vector (a random rotation does this with small probability; here it is forced)
    ctx.workload('hostile')
    for (dA, dB, p, N) in [(3, 3, 1, 3), (4, 4, 1, 6), (4, 4, 2, 3), (3, 5, 1, 4)]:
        if n_index(N, p + k) > shard['max_index'] or ctx.time_left() < 10:
            continue
        for eps in GRADED_EPS:
            cplx = bool(rng.integers(2))
            u = rm.random_rotation(rng, dA, cplx)[:, :p]
            v = rm.random_rotation(rng, dB, cplx)[:p]
            planted = u @ v
            cf = rm._randn(rng, cplx, N)
            cf[-1] = 0
            cf = cf / np.linalg.norm(cf) * np.sqrt(1 - eps**2)
            cf[-1] = eps
            basis = np.ascontiguousarray(rm.basis_with_coefficients(rng, planted, N, cplx, cf))
            desc = {'op': 'planted-low-rank/graded-basis', 'dA': dA, 'dB': dB, 'planted_rank': p, 'N': N, 'complex': cplx, 'k': k,
                    'coefficient_on_last_basis_vector': eps}
            ctx.set_case(desc)
            lab = label_lowrank(ctx, basis, planted, cplx)
            if lab is None or lab['rank'] != p:
                continue
            ctx.case('planted-low-rank/graded', basis, p + 1, k, nontrivial=True)
            with ctx.guard('hierarchy'):
                ms.has_rank_hierarchical_method(basis, rank=p + 1, hierarchy_k=k)
    ctx.workload('corner')
    if shard['name'].endswith('-0'):
        # explicit two-dimensional family: span{E00, (E11+E22)/sqrt2} handed over rotated by a small angle
        P0 = np.zeros((3, 3))
        P0[0, 0] = 1
        Q0 = np.diag([0, 1, 1]) / np.sqrt(2)
        for eps in (1e-4, 1e-5, 1e-6):
            sp = np.stack([np.cos(eps) * P0 + np.sin(eps) * Q0, -np.sin(eps) * P0 + np.cos(eps) * Q0])
            ctx.set_case({'op': 'corner-low-rank/rotated-pair', 'basis': 'cos(e)E00+sin(e)(E11+E22)/sqrt2, -sin(e)E00+cos(e)(E11+E22)/sqrt2', 'e': eps, 'k': k})
            if label_lowrank(ctx, sp, P0, False) is None:
                continue
            ctx.case('corner-low-rank/rotated-pair', sp, k, nontrivial=True)
            with ctx.guard('hierarchy'):
                ms.has_rank_hierarchical_method(sp, rank=2, hierarchy_k=k)
        for dA, dB in [(2, 2), (3, 3), (3, 4)]:
            for p in range(1, min(dA, dB)):
                E = np.zeros((dA, dB))
                E[np.arange(p), np.arange(p)] = 1 / np.sqrt(p)
                F = np.zeros((dA, dB))
                F[dA - 1, dB - 1] = 1.0
                for sp in ([E], [E, F]):
                    sp = np.ascontiguousarray(np.stack(sp))
                    if rm.orthonormality_defect(sp) > 1e-12:
                        continue
                    ctx.set_case({'op': 'corner-low-rank', 'dA': dA, 'dB': dB, 'planted_rank': p, 'N': len(sp), 'k': k})
                    lab = label_lowrank(ctx, sp, E, False)
                    if lab is None:
                        continue
                    ctx.case('corner-low-rank', sp, p + 1, k, nontrivial=True)
                    with ctx.guard('hierarchy'):
                        ms.has_rank_hierarchical_method(sp, rank=p + 1, hierarchy_k=k)
    ctx.workload('random')
    cfgs = hier_configs(k, shard['max_index'])
    ctx.extra['configs'] = len(cfgs)
    extras = k == 1 or ctx.tier != 'quick'      # option calls (return_info, zero_eps): level 1 only in the quick tier (cost)
    control_done = {}
    tcost = {}
    for it in range(shard['n']):
        if ctx.time_left() < 10:
            ctx.extra['truncated'] = it
            break
        dA, dB, p, Ns = cfgs[int(rng.integers(len(cfgs)))]
        # favour the larger subspaces (they are the ones where a wrong linear system would issue certificates)
        N = int(Ns[min(len(Ns) - 1, int(len(Ns) * rng.beta(2.0, 1.0)))])
        cplx = bool(it % 2)
        # planted element of rank p >= 2 whose smallest singular value is up to 1e-6 of the largest: nearly of rank p-1, still of rank p < bound
        spread = (1.0, 1.0, 10.0, 10.0, 1.0, 1.0, 1e3, 1e6)[it % 8]
        basis, planted, cond = rm.planted_low_rank(rng, dA, dB, p, N, cplx, spread)
        if it % 6 == 4:
            # the same subspace up to rounding noise (1e-14, not structure preserving; a real basis gets a complex dtype with an imaginary
            # part of that size): the label is registered only if the reference still finds the planted element inside to 1e-12
            noise = 1e-14 * rm._randn(rng, True, *basis.shape)
            basis = np.ascontiguousarray(basis + (noise if (cplx or it % 12 == 4) else noise.real))
            cplx = bool(np.iscomplexobj(basis))
        desc = {'op': 'planted-low-rank', 'dA': dA, 'dB': dB, 'planted_rank': p, 'N': N, 'complex': cplx, 'k': k, 'mixing_cond': cond,
                'singular_spread': spread}
        ctx.set_case(desc)
        lab = label_lowrank(ctx, basis, planted, cplx)
        if lab is None:
            continue
        if lab['rank'] != p:
            ctx.inconclusive('planted/rank-not-as-intended')
            continue
        ranks = [p + 1]
        if p + 2 <= min(dA, dB) and n_index(N, p + 1 + k) <= shard['max_index'] and it % 3 == 0:
            ranks.append(p + 2)
        for r in ranks:
            ctx.set_case(dict(desc, rank_arg=r))
            ctx.case('planted-low-rank', basis, r, k, nontrivial=N <= (dA - p) * (dB - p),
                     sample=dict(desc, rank_arg=r, basis=basis, planted=planted) if it == 3 else None)
            t0 = time.time()
            with ctx.guard('hierarchy'):
                plain = ms.has_rank_hierarchical_method(basis if it % 5 else list(basis), rank=r, hierarchy_k=k)
            _worst(ctx, 'hierarchy_call_seconds', 'max', time.time() - t0)
            if it % 7 == 1 and r == p + 1 and n_index(N, p + k) <= 120 and extras:      # small systems only (cost)
                # option return_info=True: same boolean, and the matrix is the Gram matrix the answer is about (judged in the contract)
                with ctx.guard('hierarchy'):
                    ri = ms.has_rank_hierarchical_method(basis, rank=r, hierarchy_k=k, return_info=True)
                    ctx.check(isinstance(ri, tuple) and len(ri) == 2 and _is_bool(ri[0]) and _is_bool(plain) and bool(ri[0]) == bool(plain),
                              'hierarchy/return-info-changes-answer', 'return_info=True gives another boolean than the plain call', dict(desc, rank_arg=r),
                              point='hierarchy/return-info-vs-plain')
        key = (dA, dB, p, N, cplx)
        if key not in control_done and n_index(N, p + k) <= shard['max_index']:
            control_done[key] = True
            ctrl = rm.random_subspace(rng, (dA, dB), N, cplx)
            ctx.set_case({'op': 'control', 'dA': dA, 'dB': dB, 'rank_arg': p + 1, 'N': N, 'complex': cplx, 'k': k})
            with ctx.guard('hierarchy'):
                res = ms.has_rank_hierarchical_method(ctrl, rank=p + 1, hierarchy_k=k)
                if len(control_done) % 3 == 1 and n_index(N, p + k) <= 120 and extras:
                    # option zero_eps: a stricter regularity threshold can only withdraw a certificate, never create one
                    res_strict = ms.has_rank_hierarchical_method(ctrl, rank=p + 1, hierarchy_k=k, zero_eps=1e-4)
                    ctx.check(_is_bool(res) and _is_bool(res_strict) and (bool(res) or not bool(res_strict)), 'hierarchy/zero_eps-not-monotone',
                              'certificate with zero_eps=1e-4 but none with the default 1e-7 for the same subspace',
                              {'dA': dA, 'dB': dB, 'N': N, 'k': k, 'rank_arg': p + 1, 'default': bool(res), 'strict': bool(res_strict)}, point='hierarchy/zero_eps-monotone')
            _stat(ctx, 'hierarchy_control', f'k{k}/' + ('certified' if res else 'not-certified'))


def run_tripartite(ctx, numqi, shard):
    ms = numqi.matrix_space
    rng = ctx.rng
    ctx.workload('hostile')
    for dims, N in [((2, 2, 2), 3), ((2, 2, 3), 5), ((3, 3, 3), 8)]:
        for k in range(1, shard['kmax'] + 1):
            if n_index(N, 1 + k) > shard['max_index'] or ctx.time_left() < 10:
                continue
            for eps in GRADED_EPS:
                cplx = bool(rng.integers(2))
                vecs = [rm._randn(rng, cplx, d) for d in dims]
                vecs = [x / np.linalg.norm(x) for x in vecs]
                planted = np.multiply.outer(np.multiply.outer(vecs[0], vecs[1]), vecs[2])
                cf = rm._randn(rng, cplx, N)
                cf[-1] = 0
                cf = cf / np.linalg.norm(cf) * np.sqrt(1 - eps**2)
                cf[-1] = eps
                basis = np.ascontiguousarray(rm.basis_with_coefficients(rng, planted, N, cplx, cf))
                ctx.set_case({'op': 'planted-product/graded-basis', 'dims': list(dims), 'N': N, 'complex': cplx, 'k': k,
                              'coefficient_on_last_basis_vector': eps})
                if label_product(ctx, basis, planted, vecs, cplx) is None:
                    continue
                ctx.case('planted-product/graded', basis, k, nontrivial=True)
                with ctx.guard('tripartite'):
                    ms.is_ABC_completely_entangled_subspace(list(basis), hierarchy_k=k)
    ctx.workload('corner')
    # explicit two-dimensional family: span{|000>, (|011>+|101>+|110>)/sqrt3} handed over rotated by a small angle
    P0 = np.zeros((2, 2, 2))
    P0[0, 0, 0] = 1
    Q0 = np.zeros((2, 2, 2))
    Q0[0, 1, 1] = Q0[1, 0, 1] = Q0[1, 1, 0] = 1 / np.sqrt(3)
    for eps in (1e-4, 1e-5, 1e-6):
        sp = np.stack([np.cos(eps) * P0 + np.sin(eps) * Q0, -np.sin(eps) * P0 + np.cos(eps) * Q0])
        ctx.set_case({'op': 'corner-product/rotated-pair', 'basis': 'cos(e)|000>+sin(e)W, -sin(e)|000>+cos(e)W, W=(|011>+|101>+|110>)/sqrt3', 'e': eps})
        if label_product(ctx, sp, P0, [np.eye(2)[0]] * 3, False) is None:
            continue
        ctx.case('corner-product/rotated-pair', sp, nontrivial=True)
        for k in (1, 2, 3):
            with ctx.guard('tripartite'):
                ms.is_ABC_completely_entangled_subspace(list(sp), hierarchy_k=k)
    for dims in [(2, 2, 2), (2, 2, 3)]:
        e = np.zeros(dims)
        e[0, 0, 0] = 1
        f = np.zeros(dims)
        f[1, 1, 1] = 1
        for sp in ([e], [e, f], [(e + f) / np.sqrt(2), (e - f) / np.sqrt(2)]):
            sp = np.ascontiguousarray(np.stack(sp))
            ctx.set_case({'op': 'corner-product', 'dims': list(dims), 'N': len(sp)})
            fac = [np.eye(d)[0] for d in dims]
            if label_product(ctx, sp, e, fac, False) is None:
                continue
            ctx.case('corner-product', sp, nontrivial=True)
            for k in range(1, shard['kmax'] + 1):
                with ctx.guard('tripartite'):
                    ms.is_ABC_completely_entangled_subspace(list(sp), hierarchy_k=k)
    ctx.workload('random')
    # all three cyclic orders of (2,3,4); a middle party of dimension 1 is admissible (the outer ones are not: the library asserts)
    dims_all = [(2, 2, 2), (2, 2, 3), (2, 3, 2), (3, 2, 2), (2, 3, 3), (3, 2, 3), (2, 2, 4), (3, 3, 3), (2, 3, 4), (4, 2, 2),
                (3, 4, 2), (4, 2, 3), (2, 1, 3), (3, 1, 2), (3, 3, 2)]
    control_done = {}
    for it in range(shard['n']):
        if ctx.time_left() < 10:
            ctx.extra['truncated'] = it
            break
        dims = dims_all[it % len(dims_all)]
        D = int(np.prod(dims))
        gen = D - sum(dims) + 2          # maximal dimension of a completely entangled subspace
        k = 1 + (it // len(dims_all)) % shard['kmax']
        Ns = [N for N in range(1, gen + 1) if n_index(N, 1 + k) <= shard['max_index']]
        N = int(Ns[min(len(Ns) - 1, int(len(Ns) * rng.beta(2.0, 1.0)))])
        cplx = bool((it // 2) % 2)
        basis, planted, vecs, cond = rm.planted_product(rng, dims, N, cplx)
        desc = {'op': 'planted-product', 'dims': list(dims), 'N': N, 'complex': cplx, 'k': k, 'mixing_cond': cond}
        ctx.set_case(desc)
        if label_product(ctx, basis, planted, vecs, cplx) is None:
            continue
        ctx.case('planted-product', basis, k, nontrivial=N <= gen, sample=dict(desc, basis=basis, factors=vecs) if it == 4 else None)
        with ctx.guard('tripartite'):
            ms.is_ABC_completely_entangled_subspace(list(basis) if it % 5 else basis, hierarchy_k=k)
        # the same vector is rank one across A|BC: the bipartite hierarchy must not certify rank >= 2 either
        if it % 3 == 0 and n_index(N, 1 + k) <= shard["max_index"]:
            flat = np.ascontiguousarray(basis.reshape(N, dims[0], -1))
            if label_lowrank(ctx, flat, planted.reshape(dims[0], -1), cplx) is not None:
                ctx.set_case(dict(desc, op='planted-product-as-A|BC', rank_arg=2))
                ctx.case('planted-product-as-A|BC', flat, k, nontrivial=N <= (dims[0] - 1) * (D // dims[0] - 1))
                with ctx.guard('hierarchy'):
                    ms.has_rank_hierarchical_method(flat, rank=2, hierarchy_k=k)
        key = (dims, N, cplx, k)
        if key not in control_done:
            control_done[key] = True
            ctrl = rm.random_subspace(rng, dims, N, cplx)
            ctx.set_case({'op': 'control-tripartite', 'dims': list(dims), 'N': N, 'complex': cplx, 'k': k})
            with ctx.guard('tripartite'):
                res = ms.is_ABC_completely_entangled_subspace(list(ctrl), hierarchy_k=k)
            _stat(ctx, 'tripartite_control', f'k{k}/' + ('certified' if res else 'not-certified'))


def run_numrange(ctx, numqi, shard):
    ms = numqi.matrix_space
    rng = ctx.rng
    ctx.workload('random')
    kinds = ['nonnormal', 'hermitian', 'normal', 'real-nonnormal', 'normal-degenerate', 'unitary', 'jordan']
    for it in range(shard['n']):
        if ctx.time_left() < 3:
            ctx.extra['truncated'] = it
            break
        d = 2 + it % 7
        kind = kinds[(it // 7) % len(kinds)]
        A = rm.rand_square(rng, d, kind)
        if it % 4 == 1:
            A = A * float(10.0 ** rng.integers(-2, 3))
        if it % 6 == 2:
            shift = (rng.normal() + 1j * rng.normal()) if np.iscomplexobj(A) else rng.normal()
            A = A + shift * np.eye(d)
        npt = int(rng.choice([1, 2, 7, 33, 100]))
        desc = {'op': 'numerical-range', 'size': d, 'kind': kind, 'num_point': npt}
        ctx.set_case(desc)
        nontriv = float(np.abs(A - np.eye(d) * A[0, 0]).max()) > 1e-12
        ctx.case('numrange', A, npt, nontrivial=nontriv, sample=dict(desc, A=A) if it == 9 else None)
        with ctx.guard('numerical_range'):
            if it % 5 == 0:
                ms.get_matrix_numerical_range(A)
            else:
                ms.get_matrix_numerical_range(A, num_point=npt)
    # numerical regime: magnitudes 1e-8 / 1e8, c*1 + eps*X (the range has diameter eps around c), nearly degenerate top eigenvalue of a
    # normal matrix (the eigenvector is ill-conditioned, the support value is not); all judged relative to the operator norm
    ctx.workload('hostile')
    for d in (2, 3, 4, 5, 6, 8):
        X = rm.rand_square(rng, d, 'nonnormal' if d % 2 else 'real-nonnormal')
        u = rm.random_rotation(rng, d, True)
        fam = [('scale=1e-8', X * 1e-8), ('scale=1e8', X * 1e8)]
        for eps in (1e-6, 1e-9, 1e-12):
            cshift = complex(rng.normal(), rng.normal())
            fam.append((f'c*1+{eps:g}*X', cshift * np.eye(d) + eps * X))
            ev = rm._randn(rng, True, d)
            ev[1] = ev[0] * (1 + eps)
            fam.append((f'top-eigenvalue-gap={eps:g}', (u * ev) @ u.conj().T))
        for name, A in fam:
            ctx.set_case({'op': 'numerical-range-regime', 'size': d, 'regime': name})
            ctx.case('numrange-regime', A, nontrivial=True)
            with ctx.guard('numerical_range'):
                ms.get_matrix_numerical_range(A, num_point=13)
    ctx.workload('corner')
    for d in (2, 4, 5, 8):
        for A in (np.eye(d) * (1 + 2j), np.diag(np.arange(d)).astype(np.complex128), np.diag([1.0] * (d - 1) + [0.5]).astype(np.complex128),
                  np.diag(np.exp(2j * np.pi * np.arange(d) / d))):
            ctx.set_case({'op': 'numerical-range-corner', 'size': d})
            ctx.case('numrange-corner', A, nontrivial=float(np.abs(A - np.eye(d) * A[0, 0]).max()) > 1e-12)
            with ctx.guard('numerical_range'):
                ms.get_matrix_numerical_range(A, num_point=17)


# ----------------------------------------------------------------------------------------------- histories, call order, layouts
_FAILED = object()

FN_KEYS = ('basis', 'hierarchy', 'tripartite', 'rank_one_detector', 'numerical_range', 'bipartite_range')


def _span_projector(cls, x):
    v = rm.coords(cls, np.asarray(x))
    if v.shape[0] == 0:
        return np.zeros((v.shape[1], v.shape[1]))
    q = rm.onb(v)
    return q.conj().T @ q


def answers_agree(fn, r1, r2, extra=None):
    """do two answers of the same function for the same VALUES agree (up to what the contract leaves free)?"""
    if r1 is _FAILED or r2 is _FAILED:
        return r1 is r2
    if fn in ('hierarchy', 'tripartite'):
        return _is_bool(r1) and _is_bool(r2) and bool(r1) == bool(r2)
    if fn == 'rank_one_detector':
        return bool(r1[0]) == bool(r2[0]) and abs(float(r1[1]) - float(r2[1])) <= 1e-9
    if fn == 'bipartite_range':
        return abs(float(r1) - float(r2)) <= 1e-9 * max(1.0, abs(float(r1)))
    if fn == 'numerical_range':
        a, b = np.asarray(r1), np.asarray(r2)
        if a.shape != b.shape:
            return False
        th = np.linspace(0, 2 * np.pi, len(a))
        pa, pb = (np.exp(1j * th) * a).real, (np.exp(1j * th) * b).real   # support values are unique, the points are not
        return bool(np.abs(pa - pb).max() <= (extra or 1e-9) * max(1.0, float(np.abs(a).max())))
    if fn == 'basis':
        if r1[2] != r2[2] or np.shape(r1[0]) != np.shape(r2[0]) or np.shape(r1[1]) != np.shape(r2[1]):
            return False
        for i in (0, 1):
            if np.abs(_span_projector(r1[2], r1[i]) - _span_projector(r2[2], r2[i])).max() > 1e-8:
                return False
        return True
    raise ValueError(fn)


def _brief(r):
    if r is _FAILED:
        return 'raised'
    if isinstance(r, tuple) and len(r) == 3:
        return {'class': r[2], 'dim': int(np.shape(r[0])[0]), 'codim': int(np.shape(r[1])[0])}
    if isinstance(r, tuple):
        return [bool(r[0]), float(r[1])]
    if _is_bool(r):
        return bool(r)
    return r


def run_history(ctx, numqi, shard):
    """histories on one object / in one process: refilled work buffers and lists, an argument that gets the id of a freed one,
    edited results, the same configurations in two call orders, memory layouts and dtypes of the same values.
    Every call is also judged by the ordinary postconditions (against the argument's content at call time)."""
    ms = numqi.matrix_space
    rng = ctx.rng
    quick = ctx.tier == 'quick'
    part = shard.get('part', 0)

    def call(fn, f, *a, **kw):
        ret = [_FAILED]
        with ctx.guard(fn):
            ret[0] = f(*a, **kw)
        return ret[0]

    def relate(cond_fn, fn, key, what, r_got, r_ref, desc):
        ok = answers_agree(cond_fn, r_got, r_ref)
        ctx.check(ok, f'{fn}/{key}', what, lambda: dict(desc, got=_brief(r_got), reference=_brief(r_ref)), point=f'history/{key}')
        return ok

    # ------------------------------------------------------------------ (1) container reuse for the three certificates
    ctx.workload('history')
    tri_cfg = [((2, 2, 3), 3), ((2, 3, 3), 3), ((3, 3, 3), 4), ((2, 2, 2), 2), ((2, 2, 2), 3), ((2, 2, 4), 5)]
    hier_cfg = [(3, 3, 1, 2), (3, 4, 1, 3), (4, 4, 1, 4), (4, 4, 2, 2), (2, 2, 1, 1), (3, 5, 2, 2)]
    det_cfg = [(2, 2, 1), (2, 3, 1), (3, 3, 2), (3, 4, 2), (4, 4, 3), (2, 5, 2)]
    kmax = 2 if quick else 3
    reps = 1 if quick else 3
    idreuse = 0
    for rep in range(reps):
        for ci in range(6):
            for fam in ('tripartite', 'hierarchy', 'rank_one_detector'):
                if ctx.time_left() < 8:
                    ctx.extra['truncated'] = True
                    break
                cplx = bool((ci + rep + part) % 2) and fam != 'rank_one_detector'
                k = 1 + (ci + rep) % kmax
                k_other = 1 + (k % kmax)
                if fam == 'tripartite':
                    dims, N = tri_cfg[ci]
                    X = rm.random_subspace(rng, dims, N, cplx)
                    Y, planted, vecs, _ = rm.planted_product(rng, dims, N, cplx)
                    if label_product(ctx, Y, planted, vecs, cplx) is None:
                        continue
                    f = lambda sp, kk: ms.is_ABC_completely_entangled_subspace(sp, hierarchy_k=kk)
                    containers = ('ndarray', 'list', 'id-reuse')
                elif fam == 'hierarchy':
                    dA, dB, pr, N = hier_cfg[ci]
                    X = rm.random_subspace(rng, (dA, dB), N, cplx)
                    Y, planted, _ = rm.planted_low_rank(rng, dA, dB, pr, N, cplx)
                    if label_lowrank(ctx, Y, planted, cplx) is None:
                        continue
                    f = lambda sp, kk, r=pr + 1: ms.has_rank_hierarchical_method(sp, rank=r, hierarchy_k=kk)
                    containers = ('ndarray', 'list', 'id-reuse')
                else:
                    dA, dB, N = det_cfg[ci]
                    X = rm.random_subspace(rng, (dA, dB), N, False)
                    Y, planted, _ = rm.planted_low_rank(rng, dA, dB, 1, N, False)
                    if label_lowrank(ctx, Y, planted, False) is None:
                        continue
                    f = lambda sp, kk: ms.detect_real_matrix_subspace_rank_one(sp)
                    containers = ('ndarray', 'id-reuse')
                    k = k_other = 1
                X = np.ascontiguousarray(X)
                Y = np.ascontiguousarray(Y)
                for order in ('generic-then-planted', 'planted-then-generic'):
                    first, second = (X, Y) if order == 'generic-then-planted' else (Y, X)
                    for container in containers:
                        for k2 in sorted({k, k_other}):
                            desc = {'op': 'history/container-reuse', 'function': fam, 'order': order, 'container': container,
                                    'shape': list(X.shape), 'complex': cplx, 'k_first': k, 'k_second': k2}
                            ctx.set_case(desc)
                            ctx.case('history', fam, order, container, first, second, k, k2, nontrivial=True,
                                     sample=desc if (ci == 0 and rep == 0 and container == 'ndarray' and order == 'generic-then-planted' and k2 == k) else None)
                            if container == 'ndarray':
                                buf = first.copy()
                                call(fam, f, buf, k)
                                buf[...] = second
                                r2 = call(fam, f, buf, k2)
                            elif container == 'list':
                                lst = list(first.copy())
                                call(fam, f, lst, k)
                                lst[:] = list(second.copy())
                                r2 = call(fam, f, lst, k2)
                            else:
                                a = first.copy()
                                call(fam, f, a, k)
                                ida = id(a)
                                del a
                                b = second.copy()
                                idreuse += int(id(b) == ida)
                                r2 = call(fam, f, b, k2)
                            fresh = call(fam, f, np.array(second, copy=True), k2)
                            relate(fam, fam, 'stale-after-inplace-update',
                                   f'{fam}: the answer for a container that was refilled with other values (or re-uses the id of a freed '
                                   'argument) differs from the answer for a fresh copy of the same values', r2, fresh, desc)
    ctx.extra['id_reused_by_new_argument'] = idreuse

    # ------------------------------------------------------------------ (2) work buffers and edited results: basis, numerical ranges
    for ci, combo in enumerate(rm.COMBOS):
        if ctx.time_left() < 8:
            break
        cls, dt, field = combo
        m = 2 + (ci + part) % 3
        n = m if cls in ('R_T', 'C_T', 'C_H', 'R_cT') else 2 + (ci + 1) % 4
        D = rm.ambient_dim(cls, m, n)
        k1, k2 = max(1, D // 2), max(1, D - 1)
        g1 = rm.structured_generators(rng, combo, m, n, k1, D + 1)
        g2 = rm.structured_generators(rng, combo, m, n, k2, D + 1)
        desc = {'op': 'history/work-buffer', 'function': 'basis', 'combo': list(combo), 'm': m, 'n': n, 'dims': [k1, k2]}
        ctx.set_case(desc)
        ctx.case('history-basis', g1, g2, field, nontrivial=True)
        f = lambda g: ms.get_matrix_orthogonal_basis(g, field)
        buf = g1.copy()
        r1 = call('basis', f, buf)
        buf[...] = g2
        r2 = call('basis', f, buf)
        fresh = call('basis', f, g2.copy())
        relate('basis', 'basis', 'stale-after-inplace-update', 'basis of a refilled work buffer differs from the basis of a fresh copy of the same generators',
               r2, fresh, desc)
        if r1 is not _FAILED and r2 is not _FAILED:
            alias = any(np.shares_memory(np.asarray(r1[i]), np.asarray(r2[j])) for i in (0, 1) for j in (0, 1) if np.size(r1[i]) and np.size(r2[j]))
            ctx.check(not alias, 'basis/result-aliases-earlier-call', 'result arrays of two calls share memory', desc, point='history/aliasing')
            alias = any(np.shares_memory(np.asarray(r2[j]), buf) for j in (0, 1) if np.size(r2[j]))
            ctx.check(not alias, 'basis/result-aliases-argument', 'a result array shares memory with the argument', desc)
            for j in (0, 1):       # the caller edits the result in place, then asks again
                if isinstance(r2[j], np.ndarray) and r2[j].flags.writeable:
                    r2[j][...] = 7.0
            ctx.check(np.array_equal(buf, g2), 'basis/result-aliases-argument', 'editing the result changed the argument', desc)
            r3 = call('basis', f, buf)
            relate('basis', 'basis', 'stale-after-result-edit', 'after the caller overwrote the returned arrays, a new call with the same argument returns something else',
                   r3, fresh, desc)
    for ci in range(8 if quick else 24):
        if ctx.time_left() < 8:
            break
        d = 2 + (ci + part) % 7
        kinds = ['nonnormal', 'hermitian', 'normal', 'real-nonnormal']
        A1 = np.asarray(rm.rand_square(rng, d, kinds[ci % 4]), dtype=np.complex128)
        A2 = np.asarray(rm.rand_square(rng, d, kinds[(ci + 1) % 4]), dtype=np.complex128)
        npt = [7, 33][ci % 2]
        desc = {'op': 'history/work-buffer', 'function': 'numerical_range', 'size': d, 'num_point': npt}
        ctx.set_case(desc)
        ctx.case('history-numrange', A1, A2, npt, nontrivial=True)
        f = lambda A: ms.get_matrix_numerical_range(A, num_point=npt)
        buf = A1.copy()
        r1 = call('numerical_range', f, buf)
        buf[...] = A2
        r2 = call('numerical_range', f, buf)
        fresh = call('numerical_range', f, A2.copy())
        relate('numerical_range', 'numerical_range', 'stale-after-inplace-update', 'numerical range of a refilled buffer differs from that of a fresh copy', r2, fresh, desc)
        if r1 is not _FAILED and r2 is not _FAILED and isinstance(r2, np.ndarray):
            ctx.check(not np.shares_memory(r1, r2), 'numerical_range/result-aliases-earlier-call', 'result arrays of two calls share memory', desc, point='history/aliasing')
            r2[...] = 0
            ctx.check(np.array_equal(buf, A2), 'numerical_range/result-aliases-argument', 'editing the result changed the argument', desc)
            r3 = call('numerical_range', f, buf)
            relate('numerical_range', 'numerical_range', 'stale-after-result-edit', 'new call after the result was overwritten returns something else', r3, fresh, desc)
        # real bipartite range on the same kind of history
        dA, dB = [(2, 2), (2, 3), (3, 3), (2, 4)][ci % 4]
        D = dA * dB
        Ms = []
        for _ in range(2):
            M = rng.normal(size=(D, D))
            Ms.append(np.ascontiguousarray(((M + M.T) / 2).reshape(dA, dB, dA, dB)))
        for kind in ('max', 'min'):
            desc = {'op': 'history/work-buffer', 'function': 'bipartite_range', 'dA': dA, 'dB': dB, 'kind': kind}
            ctx.set_case(desc)
            ctx.case('history-bipartite', Ms[0], Ms[1], kind, nontrivial=True)
            f = lambda M: ms.get_real_bipartite_numerical_range(M, kind=kind)
            buf = Ms[0].copy()
            call('bipartite_range', f, buf)
            buf[...] = Ms[1]
            r2 = call('bipartite_range', f, buf)
            fresh = call('bipartite_range', f, Ms[1].copy())
            relate('bipartite_range', 'bipartite_range', 'stale-after-inplace-update', 'bound of a refilled buffer differs from that of a fresh copy', r2, fresh, desc)

    # ------------------------------------------------------------------ (3) memory layout / dtype of the same values
    ctx.workload('layout')

    def layouts(V, with_complex, with_list):
        out = {'fortran': np.asfortranarray(V)}
        big = np.zeros(V.shape[:-1] + (2 * V.shape[-1],), dtype=V.dtype)
        big[..., ::2] = V
        out['strided-view'] = big[..., ::2]
        big2 = np.zeros((V.shape[0] + 2,) + V.shape[1:], dtype=V.dtype)
        big2[1:-1] = V
        out['slice-of-larger'] = big2[1:-1]
        out['reversed-axes-view'] = np.ascontiguousarray(V.T).T
        if with_complex and not np.iscomplexobj(V):
            out['complex-dtype'] = V.astype(np.complex128)
        if with_list:
            out['list'] = [np.array(x) for x in V]
            out['list-of-views'] = list(out['fortran'])
        return out

    def layout_family(fn, f, V, with_complex, with_list, relabel=None, desc=None):
        desc = dict(desc or {}, op='layout', function=fn, shape=list(V.shape), dtype=str(V.dtype))
        ctx.set_case(desc)
        ctx.case('layout', fn, V, desc.get('k'), nontrivial=True)
        base = call(fn, f, np.ascontiguousarray(V))
        for name, W in layouts(V, with_complex, with_list).items():
            if relabel is not None and not isinstance(W, list) and W.dtype != V.dtype:
                relabel(W)
            ctx.set_case(dict(desc, layout=name))
            r = call(fn, f, W)
            relate(fn, fn, 'layout-dependent', f'{fn}: the answer depends on memory layout / container / dtype of the same values', r, base, dict(desc, layout=name))

    for ci in range(6):
        if ctx.time_left() < 8:
            break
        cplx = bool((ci + part) % 2)
        k = 1 + ci % kmax
        dims, N = tri_cfg[ci]
        Y, planted, vecs, _ = rm.planted_product(rng, dims, N, cplx)
        if label_product(ctx, Y, planted, vecs, cplx) is not None:
            layout_family('tripartite', lambda sp: ms.is_ABC_completely_entangled_subspace(sp, hierarchy_k=k), Y, True, True,
                          relabel=lambda W: label_product(ctx, W, planted, vecs, True), desc={'k': k, 'planted': True})
        X = rm.random_subspace(rng, dims, N, cplx)
        layout_family('tripartite', lambda sp: ms.is_ABC_completely_entangled_subspace(sp, hierarchy_k=k), X, True, True, desc={'k': k, 'planted': False})
        dA, dB, pr, N = hier_cfg[ci]
        Y, planted, _ = rm.planted_low_rank(rng, dA, dB, pr, N, cplx)
        if label_lowrank(ctx, Y, planted, cplx) is not None:
            layout_family('hierarchy', lambda sp: ms.has_rank_hierarchical_method(sp, rank=pr + 1, hierarchy_k=k), Y, True, True,
                          relabel=lambda W: label_lowrank(ctx, W, planted, True), desc={'k': k, 'planted': True})
        X = rm.random_subspace(rng, (dA, dB), N, cplx)
        layout_family('hierarchy', lambda sp: ms.has_rank_hierarchical_method(sp, rank=pr + 1, hierarchy_k=k), X, True, True, desc={'k': k, 'planted': False})
        dA, dB, N = det_cfg[ci]
        Y, planted, _ = rm.planted_low_rank(rng, dA, dB, 1, N, False)
        if label_lowrank(ctx, Y, planted, False) is not None:
            layout_family('rank_one_detector', lambda sp: ms.detect_real_matrix_subspace_rank_one(sp), Y, False, False, desc={'planted': True})
        X = rm.random_subspace(rng, (dA, dB), N, False)
        layout_family('rank_one_detector', lambda sp: ms.detect_real_matrix_subspace_rank_one(sp), X, False, False, desc={'planted': False})
    for ci, combo in enumerate(rm.COMBOS):
        if ctx.time_left() < 8:
            break
        cls, dt, field = combo
        m = 2 + (ci + part + 1) % 3
        n = m if cls in ('R_T', 'C_T', 'C_H', 'R_cT') else 2 + ci % 4
        D = rm.ambient_dim(cls, m, n)
        g = rm.structured_generators(rng, combo, m, n, max(1, D - 1), D + 2)
        # a real-valued generator list stored as complex keeps its class only when it is spanned over C
        layout_family('basis', lambda G: ms.get_matrix_orthogonal_basis(G, field), g, field == 'complex', False, desc={'combo': list(combo)})
    for ci in range(7):
        if ctx.time_left() < 8:
            break
        d = 2 + ci
        A = rm.rand_square(rng, d, ['real-nonnormal', 'nonnormal', 'hermitian'][ci % 3])
        layout_family('numerical_range', lambda M: ms.get_matrix_numerical_range(M, num_point=9), A, True, False, desc={'size': d})
        if ci < 4:
            dA, dB = [(2, 2), (2, 3), (3, 3), (3, 2)][ci]
            M = rng.normal(size=(dA * dB, dA * dB))
            M4 = ((M + M.T) / 2).reshape(dA, dB, dA, dB)
            for kind in ('max', 'min'):
                layout_family('bipartite_range', lambda W: ms.get_real_bipartite_numerical_range(W, kind=kind), M4, False, False, desc={'kind': kind})
    # integer-valued generators (matrix units are an orthonormal basis) and integer matrices
    ctx.set_case({'op': 'layout', 'function': 'integer dtype'})
    E = np.zeros((3, 3, 3), dtype=np.int64)
    E[0, 0, 0] = E[1, 1, 1] = E[2, 0, 1] = 1
    Ef = E.astype(np.float64)
    if label_lowrank(ctx, Ef, Ef[0], False) is not None:
        REG[_dg(E)] = REG[_dg(Ef)]
        # hierarchy_k=1 only: for integer dtype and hierarchy_k>=2 numqi raises UFuncTypeError (in-place float scaling of an integer
        # array in project_to_symmetric_basis): integer generators are not accepted there; not a certificate, outside the statement
        for kk in (1,):
            relate('hierarchy', 'hierarchy', 'layout-dependent', 'integer and float generators with the same values give different answers',
                   call('hierarchy', lambda: ms.has_rank_hierarchical_method(E, rank=2, hierarchy_k=kk)),
                   call('hierarchy', lambda: ms.has_rank_hierarchical_method(Ef, rank=2, hierarchy_k=kk)), {'k': kk})
    G = rng.integers(-3, 4, size=(5, 3, 4))
    for field in ('real', 'complex'):
        relate('basis', 'basis', 'layout-dependent', 'integer and float generators with the same values give different bases',
               call('basis', lambda: ms.get_matrix_orthogonal_basis(G, field)), call('basis', lambda: ms.get_matrix_orthogonal_basis(G.astype(np.float64), field)),
               {'field': field})
    Ai = rng.integers(-4, 5, size=(6, 6))
    relate('numerical_range', 'numerical_range', 'layout-dependent', 'integer and float matrices with the same values give different ranges',
           call('numerical_range', lambda: ms.get_matrix_numerical_range(Ai, num_point=9)),
           call('numerical_range', lambda: ms.get_matrix_numerical_range(Ai.astype(np.float64), num_point=9)), {})

    # ------------------------------------------------------------------ (4) the same configurations in two call orders in one process
    ctx.workload('call-order')
    jobs = []
    for ci in range(6):
        cplx = bool(ci % 2)
        dims, N = tri_cfg[ci]
        for planted_flag in (False, True):
            if planted_flag:
                Y, planted, vecs, _ = rm.planted_product(rng, dims, N, cplx)
                if label_product(ctx, Y, planted, vecs, cplx) is None:
                    continue
            else:
                Y = rm.random_subspace(rng, dims, N, cplx)
            for kk in range(1, kmax + 1):
                jobs.append(('tripartite', Y, lambda V, kk=kk: ms.is_ABC_completely_entangled_subspace(list(V), hierarchy_k=kk), {'dims': list(dims), 'N': N, 'k': kk}))
        dA, dB, pr, N = hier_cfg[ci]
        for planted_flag in (False, True):
            if planted_flag:
                Y, planted, _ = rm.planted_low_rank(rng, dA, dB, pr, N, cplx)
                if label_lowrank(ctx, Y, planted, cplx) is None:
                    continue
            else:
                Y = rm.random_subspace(rng, (dA, dB), N, cplx)
            for kk in range(1, kmax + 1):
                jobs.append(('hierarchy', Y, lambda V, kk=kk, r=pr + 1: ms.has_rank_hierarchical_method(V, rank=r, hierarchy_k=kk), {'dA': dA, 'dB': dB, 'N': N, 'k': kk}))
        dA, dB, N = det_cfg[ci]
        Y, planted, _ = rm.planted_low_rank(rng, dA, dB, 1, N, False)
        if label_lowrank(ctx, Y, planted, False) is not None:
            jobs.append(('rank_one_detector', Y, lambda V: ms.detect_real_matrix_subspace_rank_one(V), {'dA': dA, 'dB': dB, 'N': N}))
        jobs.append(('rank_one_detector', rm.random_subspace(rng, (dA, dB), N, False), lambda V: ms.detect_real_matrix_subspace_rank_one(V), {'dA': dA, 'dB': dB, 'N': N}))
    for ci, combo in enumerate(rm.COMBOS):
        cls, dt, field = combo
        for m in (2, 3):
            n = m if cls in ('R_T', 'C_T', 'C_H', 'R_cT') else 5 - m
            D = rm.ambient_dim(cls, m, n)
            g = rm.structured_generators(rng, combo, m, n, max(1, D // 2), D)
            jobs.append(('basis', g, lambda V, field=field: ms.get_matrix_orthogonal_basis(V, field), {'combo': list(combo), 'm': m, 'n': n}))
    for d in range(2, 9):
        A = rm.rand_square(rng, d, ['nonnormal', 'hermitian', 'normal'][d % 3])
        jobs.append(('numerical_range', A, lambda V: ms.get_matrix_numerical_range(V, num_point=9), {'size': d}))
    for dA, dB in [(2, 2), (2, 3), (3, 3), (3, 2)]:
        M = rng.normal(size=(dA * dB, dA * dB))
        M4 = ((M + M.T) / 2).reshape(dA, dB, dA, dB)
        for kind in ('max', 'min'):
            jobs.append(('bipartite_range', M4, lambda V, kind=kind: ms.get_real_bipartite_numerical_range(V, kind=kind), {'dA': dA, 'dB': dB, 'kind': kind}))
    orders = [list(range(len(jobs))), list(range(len(jobs)))[::-1], [int(i) for i in rng.permutation(len(jobs))]]
    results = {}
    for oi, order in enumerate(orders):
        for pos, ji in enumerate(list(order) + [order[0]]):       # one configuration is repeated at the end
            if ctx.time_left() < 5:
                ctx.extra['truncated'] = True
                break
            fn, V, f, d = jobs[ji]
            desc = dict(d, op='call-order', function=fn, order=['as listed', 'reversed', 'shuffled'][oi], position=pos)
            ctx.set_case(desc)
            ctx.case('call-order', fn, V, d.get('k'), d.get('kind'), oi, pos == len(order), nontrivial=True)
            r = call(fn, f, np.array(V, copy=True))
            if ji in results:
                relate(fn, fn, 'call-order-dependent', f'{fn}: the answer for the same values depends on what was called before in the process', r, results[ji], desc)
            else:
                results[ji] = r
    ctx.extra['call_order_jobs'] = len(jobs)


@contextlib.contextmanager
def seeded_default_rng(ctx):
    """library / test code that asks for an unseeded np.random.default_rng() gets one derived from the shard's generator"""
    orig = np.random.default_rng

    def patched(seed=None):
        if seed is None:
            seed = int(ctx.rng.integers(0, 2**63 - 1))
        return orig(seed)

    np.random.default_rng = patched
    try:
        yield
    finally:
        np.random.default_rng = orig


def run_repo_tests(ctx, numqi, shard):
    """the repository's own fast matrix_space tests with the contracts on (no labels: only the unconditional clauses fire)"""
    ctx.workload('repo-tests')
    root = os.path.dirname(os.path.realpath(os.environ.get('NUMQI_SRC', '/repo/python')))
    ran = []
    for fn, only in (('test_matrix_space.py', lambda n: 'orthogonal_basis' in n or 'kraus' in n),
                     ('test_matrix_space_hierarchy.py', lambda n: n in ('test_has_rank_hierarchical_method', 'test_is_ABC_completely_entangled_subspace')),
                     ('test_matrix_space_numerical_range.py', lambda n: True)):
        path = os.path.join(root, 'tests', 'tests_matrix_space', fn)
        if not os.path.exists(path):
            path = os.path.join('/repo/tests/tests_matrix_space', fn)
        spec = importlib.util.spec_from_file_location('vmon_repo_' + fn[:-3], path)
        mod = importlib.util.module_from_spec(spec)
        with seeded_default_rng(ctx):
            with ctx.guard('repo-test/import'):
                spec.loader.exec_module(mod)
            names = sorted(n for n in dir(mod) if n.startswith('test_') and callable(getattr(mod, n)) and only(n))
            for rep in range(3):
                for n in names:
                    if ctx.time_left() < 20:
                        ctx.extra['truncated'] = True
                        break
                    ctx.set_case({'op': 'repo-test', 'file': fn, 'name': n, 'rep': rep})
                    ctx.case('repo-test', fn, n, rep, nontrivial=True)
                    with ctx.guard(f'repo-test/{n}'):
                        try:
                            getattr(mod, n)()
                            ran.append(n)
                        except AssertionError as e:
                            ctx.inconclusive(f'repo-test-assertion/{n}')
    ctx.extra['repo_tests_run'] = sorted(set(ran))


def run(ctx, shard):
    import numqi
    install(ctx, numqi)
    kind = shard['kind']
    {'basis': run_basis, 'realistic': run_realistic, 'rank-one': run_rank_one, 'bipartite': run_bipartite, 'hier': run_hier,
     'tripartite': run_tripartite, 'numrange': run_numrange, 'repo-tests': run_repo_tests, 'history': run_history}[kind](ctx, numqi, shard)
    ctx.extra['labels_registered'] = len(REG)
