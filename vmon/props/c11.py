"""C11 - measurement is a valid projective measurement on any ascending qubit subset.

Monitors: postcondition on sim.state.measure_quantum_vector (Born marginals, outcome has non-zero probability,
post state == normalised projection, re-measurement is deterministic and idempotent, input untouched) and a trace
monitor on MeasureGate.forward inside Circuit.apply_state (the recorded bit string / probabilities refer to the state
entering the gate at that point of the circuit). Reference: explicit summation over basis indices (vmon/ref/qubits.py).
"""
import itertools
import numpy as np

from vmon.ref import qubits as rq
from vmon.core import to_numpy

TECHNIQUE = ('runtime monitoring: postcondition on measure_quantum_vector (Born marginals by explicit summation, outcome has non-zero probability, post state == normalised projection, deterministic idempotent re-measurement) and a trace monitor on MeasureGate.forward inside circuits (recorded outcome/probabilities refer to the entering state), with mid-circuit measurement programs replayed by the reference')
LEVEL_TEXT = ('Exploration, exhaustive over qubit subsets: all non-empty ascending subsets for n<=5 (quick) / n<=6 (thorough) x 9 state kinds x seeds until every outcome with probability >1e-3 was seen; teleportation and random circuits with mid-circuit measurements and index shifts.')
RULE = ('cases = (state kind, n, ascending qubit subset, seed): every non-empty subset for n=1..5 (quick) / 1..6 (thorough) '
        'enumerated completely, times 9 state kinds, with seeds varied until every outcome of probability >1e-3 was observed '
        '(bounded); plus circuits with mid-circuit measurements replayed against the reference; non-trivial = the measured '
        'distribution is not a point mass or the subset is a strict subset; distinct by digest of (state, subset, outcome)')
EXHAUSTIVE = {'quick': True, 'thorough': True}
EXHAUSTIVE_DOMAINS = {'quick': ['all 2^n-1 non-empty ascending subsets for n=1..5 (57)'],
                      'thorough': ['all 2^n-1 non-empty ascending subsets for n=1..6 (120)']}
ASSUMPTIONS = ['input states are normalised vectors of dtype complex128/float64 or complex64/float32 (tolerances scale with the input precision)',
               'qubit 0 is the most significant bit; the first measured qubit is the first character of the bit string']
DECIDING = ['numqi.sim.state.measure_quantum_vector', 'MeasureGate.forward', 'remeasure']


def shards(tier, seed):
    nmax = 5 if tier == 'quick' else 6
    ret = [{'name': f'subsets-n{n}', 'n': n} for n in range(1, nmax + 1)]
    ret += [{'name': 'circuits'}, {'name': 'corner'}]
    if tier == 'thorough':
        ret.append({'name': 'repo-tests'})
    return ret


def install(ctx, numqi):
    S = numqi.sim.state
    state = {'outcomes_seen': {}}

    def norm_index(index):
        if isinstance(index, (int, np.integer)):
            return (int(index),)
        return tuple(int(x) for x in index)

    def pre(c):
        return to_numpy(c.args[0]).copy()

    def post(c):
        if c.exc is not None:
            return
        q0 = c.snap
        index = norm_index(c.arg(1, 'index'))
        n = int(round(np.log2(q0.size)))
        if n > 12:
            return
        single = q0.dtype in (np.float32, np.complex64)
        T = 2e-6 if single else 1e-12  # tolerances scale with the precision of the input state
        res = c.result
        ok = isinstance(res, tuple) and len(res) == 3
        ctx.check(ok, 'measure/result-form', 'measure_quantum_vector must return (bitstr, prob, state)', {'type': str(type(res))})
        if not ok:
            return
        bitstr, prob, q2 = res
        prob = to_numpy(prob)
        q2 = to_numpy(q2)
        ref_p = rq.born_marginal(q0, index, n)
        wit = {'n': n, 'index': index}
        if not ctx.close(prob, ref_p, T, 'measure/born-marginal', 'reported probabilities differ from the Born marginals', wit):
            return
        ctx.check(prob.min() >= 0 and abs(prob.sum() - 1) < max(1e-10, 10 * T), 'measure/prob-normalised', 'probabilities are not a distribution (negative entry or sum != 1)',
                  lambda: {**wit, 'min': float(prob.min()), 'sum': float(prob.sum())})
        okb = isinstance(bitstr, (list, tuple)) and len(bitstr) == len(index) and all(int(b) in (0, 1) for b in bitstr)
        ctx.check(okb, 'measure/bitstr-form', 'bit string must have one bit per measured qubit', {**wit, 'bitstr': bitstr})
        if not okb:
            return
        bits = [int(b) for b in bitstr]
        o = 0
        for b in bits:
            o = (o << 1) | b
        p = ref_p[o]
        ctx.check(p > 0, 'measure/outcome-zero-probability', 'the reported outcome has zero probability', {**wit, 'bitstr': bits, 'p': float(p)})
        if p <= 1e-14:
            return
        ref_q = rq.project(q0, index, bits, n) / np.sqrt(p)
        ctx.close(q2, ref_q, 10 * T / np.sqrt(p) + T, 'measure/post-state', 'post-measurement state is not the normalised projection onto the outcome',
                  {**wit, 'bitstr': bits, 'p': float(p)})
        ctx.check(abs(np.linalg.norm(q2.astype(np.complex128)) - 1) < max(1e-9, 100 * T), 'measure/post-state-norm', 'post-measurement state is not normalised', {**wit, 'norm': float(np.linalg.norm(q2))})
        ctx.check(np.array_equal(to_numpy(c.args[0]), q0), 'measure/input-modified', 'measure_quantum_vector modified its input', wit)
        state['outcomes_seen'].setdefault((q0.tobytes(), index), set()).add(o)
        # re-measure with the unwrapped original, two different seeds: same outcome with certainty, state unchanged
        for s in (0, 12345):
            try:
                b2, p2, q3 = c.func(q2.copy(), index if len(index) > 1 else index[0], s)
            except Exception as e:
                ctx.check(False, 'remeasure/raises', f're-measuring the post state raised {type(e).__name__}', {**wit, 'exc': repr(e)[:200]}, point='remeasure')
                return
            onehot = np.zeros_like(ref_p)
            onehot[o] = 1
            ctx.check([int(x) for x in b2] == bits, 'remeasure/outcome-changed', 'measuring the same qubits again gave a different outcome',
                      {**wit, 'first': bits, 'second': [int(x) for x in b2]}, point='remeasure')
            ctx.close(p2, onehot, max(1e-9, 100 * T), 'remeasure/not-certain', 're-measurement probabilities are not one-hot on the first outcome', wit)
            ctx.close(q3, q2, max(1e-9, 100 * T), 'remeasure/state-changed', 're-measurement changed the state', wit)

    ctx.attach(S, 'measure_quantum_vector', post=post, pre=pre, normalize=True, immutable_args=True)

    MG = numqi.sim.circuit.MeasureGate

    def pre_gate(c):
        return to_numpy(c.args[1]).copy()

    def post_gate(c):
        if c.exc is not None:
            return
        gate, q_in = c.args[0], c.snap
        n = int(round(np.log2(q_in.size)))
        index = tuple(int(x) for x in gate.index)
        ref_p = rq.born_marginal(q_in, index, n)
        wit = {'n': n, 'index': index}
        ok = gate.probability is not None and gate.bitstr is not None
        ctx.check(ok, 'MeasureGate/not-recorded', 'MeasureGate did not record bitstr/probability', wit)
        if not ok:
            return
        ctx.close(gate.probability, ref_p, 1e-12, 'MeasureGate/probability-not-of-entering-state',
                  'MeasureGate.probability is not the Born marginal of the state entering the gate', wit)
        bits = [int(b) for b in gate.bitstr]
        o = 0
        for b in bits:
            o = (o << 1) | b
        if len(bits) == len(index) and ref_p[o] > 1e-14:
            ctx.close(c.result, rq.project(q_in, index, bits, n) / np.sqrt(ref_p[o]), 1e-10 / np.sqrt(ref_p[o]), 'MeasureGate/output-not-projection-of-recorded-outcome',
                      'the state leaving the MeasureGate is not the projection of the entering state on the recorded bit string', {**wit, 'bitstr': bits})
        else:
            ctx.check(False, 'MeasureGate/recorded-outcome-impossible', 'recorded bit string has zero probability in the entering state', {**wit, 'bitstr': bits})

    ctx.attach(MG, 'forward', post=post_gate, pre=pre_gate, point='MeasureGate.forward')
    return state


def make_states(rng, n):
    d = 2**n
    out = [('haar', rq.rand_state(rng, d)), ('real', rq.rand_state(rng, d, real=True).real.astype(np.float64))]
    prod = np.array([1.0 + 0j])
    for _ in range(n):
        prod = np.kron(prod, rq.rand_state(rng, 2))
    out.append(('product', prod))
    ghz = np.zeros(d, dtype=np.complex128)
    ghz[0] = ghz[-1] = 1 / np.sqrt(2)
    out.append(('ghz', ghz))
    w = np.zeros(d, dtype=np.complex128)
    for q in range(n):
        w[1 << q] = 1 / np.sqrt(n)
    out.append(('w', w))
    b = np.zeros(d, dtype=np.complex128)
    b[int(rng.integers(d))] = 1
    out.append(('basis', b))
    z = rq.rand_state(rng, d)
    z[rng.random(d) < 0.5] = 0
    if np.linalg.norm(z) == 0:
        z[0] = 1
    out.append(('zero-prob-outcomes', z / np.linalg.norm(z)))
    ph = np.exp(1j * rng.uniform(0, 2 * np.pi, size=d)) / np.sqrt(d)
    out.append(('uniform-phases', ph))
    t = rq.rand_state(rng, d)
    t[1:] *= 1e-4
    out.append(('tiny-amplitudes', t / np.linalg.norm(t)))
    # single precision: the same kinds as complex64 (and the real one as float32), normalised in that precision
    single = []
    for kind, psi in out:
        if kind == 'tiny-amplitudes':
            continue
        x = psi.astype(np.float32 if kind == 'real' else np.complex64)
        x = x / np.linalg.norm(x)
        single.append((kind + '/single-precision', x))
    # a product state phi (x) |0..0>: many zero-probability outcomes, in single precision (rounding residues must not become
    # negative probabilities)
    if n >= 2:
        k = int(rng.integers(1, n))
        phi = rq.rand_state(rng, 2**k).astype(np.complex64)
        x = np.kron(phi / np.linalg.norm(phi), np.eye(1, 2**(n - k), 0, dtype=np.complex64)[0])
        single.append(('product-with-zeros/single-precision', (x / np.linalg.norm(x)).astype(np.complex64)))
    return out + single


def run_subsets(ctx, numqi, st, n):
    rng = ctx.rng
    S = numqi.sim.state
    ctx.workload('exhaustive')
    nsub = 0
    for r in range(1, n + 1):
        for subset in itertools.combinations(range(n), r):
            nsub += 1
            for kind, psi in make_states(rng, n):
                ref_p = rq.born_marginal(psi, subset, n)
                want = {int(i) for i in np.nonzero(ref_p > 1e-3)[0]}
                seen = set()
                tries = 0
                forms = [tuple(subset), list(subset), tuple(np.int64(x) for x in subset)] + ([int(subset[0])] if r == 1 else [])
                while tries < (6 if ctx.tier == 'quick' else 12) or (not want <= seen and tries < 40):
                    seed = int(rng.integers(2**31))
                    ctx.set_case({'op': 'measure', 'n': n, 'subset': subset, 'state': kind, 'seed': seed})
                    form = forms[tries % len(forms)]
                    with ctx.guard('measure'):
                        psi_in = psi
                        if tries % 4 == 3:  # memory layout: a strided (non-contiguous) view holding the same amplitudes
                            buf = np.zeros(2 * psi.size, dtype=psi.dtype)
                            buf[::2] = psi
                            psi_in = buf[::2]
                        sd = seed if tries % 3 else np.random.default_rng(seed)
                        if tries % 5 == 4:
                            bitstr, prob, q2 = S.measure_quantum_vector(q0=psi_in, index=form, seed=sd)  # keyword form
                        else:
                            bitstr, prob, q2 = S.measure_quantum_vector(psi_in, form, sd)
                        o = int(''.join(str(int(b)) for b in bitstr), 2)
                        seen.add(o)
                        ctx.case('measure', psi, subset, o, nontrivial=(ref_p.max() < 1 - 1e-9) or r < n,
                                 sample={'n': n, 'subset': subset, 'state': kind, 'bitstr': [int(b) for b in bitstr], 'p': float(ref_p[o])}
                                 if rng.random() < 0.002 else None)
                    tries += 1
                if not want <= seen:
                    ctx.inconclusive('outcome-not-reached-in-40-seeds')
    ctx.extra[f'subsets_n{n}'] = nsub


def run_circuits(ctx, numqi, st):
    rng = ctx.rng
    ctx.workload('realistic')

    class ClassicalControlGate:
        def __init__(self, gateM, op, index, name='classical_control_gate'):
            self.gateM, self.op, self.index, self.name = gateM, op, index, name
            self.requires_grad = False
            self.kind = 'custom'

        def forward(self, q0):
            if self.gateM.bitstr[0] == 1:
                q0 = numqi.sim.state.apply_gate(q0, self.op, self.index)
            return q0

    # teleportation: for every outcome the third qubit carries the input state
    for it in range(40 if ctx.tier == 'quick' else 300):
        psi = rq.rand_state(rng, 2)
        circ = numqi.sim.Circuit(default_requires_grad=False)
        circ.register_custom_gate('classical_control_gate', ClassicalControlGate)
        circ.H(1); circ.cnot(1, 2); circ.cnot(0, 1); circ.H(0)
        s0, s1 = int(rng.integers(2**31)), int(rng.integers(2**31))
        g0 = circ.measure(1, seed=s0)
        g1 = circ.measure(0, seed=s1)
        circ.classical_control_gate(g0, rq.SX, 2)
        circ.classical_control_gate(g1, rq.SZ, 2)
        q0 = np.kron(psi, np.array([1, 0, 0, 0], dtype=np.complex128))
        ctx.set_case({'op': 'teleportation', 'seeds': [s0, s1]})
        with ctx.guard('teleportation'):
            q1 = circ.apply_state(q0)
            b1, b0 = g0.bitstr[0], g1.bitstr[0]
            ctx.case('teleport', psi, b0, b1)
            expect = np.zeros(8, dtype=np.complex128)
            base = (b0 << 2) | (b1 << 1)
            expect[base] = psi[0]
            expect[base | 1] = psi[1]
            ctx.close(q1, expect, 1e-10, 'teleportation/final-state', 'teleported state differs from the input for the recorded outcomes', {'b0': b0, 'b1': b1})
            ctx.close(g0.probability, [0.5, 0.5], 1e-10, 'teleportation/probability', 'mid-circuit probabilities of teleportation are not 1/2', None)
    # random circuits with measurements interleaved, replayed by the reference
    ctx.workload('random')
    for it in range(60 if ctx.tier == 'quick' else 400):
        n = int(rng.integers(1, 6))
        circ = numqi.sim.Circuit()
        events = []
        for _ in range(int(rng.integers(2, 12))):
            if rng.random() < 0.3:
                r = int(rng.integers(1, n + 1))
                subset = tuple(sorted(int(x) for x in rng.permutation(n)[:r]))
                g = circ.measure(subset if (r > 1 or rng.random() < 0.5) else subset[0], seed=int(rng.integers(2**31)))
                events.append(('M', g, subset))
            else:
                k = int(rng.integers(1, min(n, 2) + 1))
                tg = tuple(int(x) for x in rng.permutation(n)[:k])
                U = rq.haar_unitary(rng, 2**k)
                [circ.single_qubit_gate, circ.double_qubit_gate][k - 1](U, *tg)
                events.append(('U', U, tg))
        if rng.random() < 0.3 and n < 5:
            circ.shift_qubit_index_(1)
            events = [(k, a, tuple(x + 1 for x in tg)) for k, a, tg in events]
            n += 1
        q0 = rq.rand_state(rng, 2**n)
        ctx.set_case({'op': 'circuit-with-measure', 'n': n, 'events': [(k, tg) for k, _, tg in events]})
        with ctx.guard('circuit-measure'):
            q1 = circ.apply_state(q0)
            ref = q0.copy()
            ok = True
            for kind, a, tg in events:
                if kind == 'U':
                    ref = rq.embed(a, tg, n) @ ref
                else:
                    p = rq.born_marginal(ref, tg, n)
                    ctx.check(tuple(a.index) == tuple(tg), 'MeasureGate/index-after-shift', 'MeasureGate.index does not follow shift_qubit_index_', {'index': a.index, 'expected': tg})
                    ctx.close(a.probability, p, 1e-10, 'circuit/probability-not-at-that-point', 'recorded probabilities do not refer to the state at that point of the circuit',
                              {'subset': tg})
                    bits = [int(b) for b in a.bitstr]
                    o = int(''.join(str(b) for b in bits), 2)
                    if p[o] <= 1e-14:
                        ok = False
                        break
                    ref = rq.project(ref, tg, bits, n) / np.sqrt(p[o])
            ctx.case('circuit-measure', q0, [(k, tg) for k, _, tg in events], nontrivial=any(k == 'M' for k, _, _ in events))
            if ok:
                ctx.close(q1, ref, 1e-9, 'circuit/final-state', 'final state differs from the reference replay with the recorded outcomes', None)


def run_corner(ctx, numqi, st):
    rng = ctx.rng
    S = numqi.sim.state
    ctx.workload('corner')
    # deterministic outcomes, reproducibility from the seed, seed-object forms
    for n in range(1, 6):
        for idx in range(2**n):
            b = np.zeros(2**n, dtype=np.complex128)
            b[idx] = np.exp(1j * rng.uniform(0, 6))
            subset = tuple(range(n))
            ctx.set_case({'op': 'basis-state', 'n': n, 'idx': idx})
            with ctx.guard('measure'):
                bitstr, prob, q2 = S.measure_quantum_vector(b, subset, int(rng.integers(2**31)))
                ctx.case('basis', n, idx, nontrivial=False)
                ctx.check(int(''.join(str(int(x)) for x in bitstr), 2) == idx, 'measure/basis-state-outcome', 'measuring a basis state gave another basis state',
                          {'n': n, 'idx': idx, 'bitstr': bitstr})
    for it in range(100 if ctx.tier == 'quick' else 1000):
        n = int(rng.integers(1, 7))
        psi = rq.rand_state(rng, 2**n)
        r = int(rng.integers(1, n + 1))
        subset = tuple(sorted(int(x) for x in rng.permutation(n)[:r]))
        seed = int(rng.integers(2**31))
        ctx.set_case({'op': 'seeded-twice', 'n': n, 'subset': subset, 'seed': seed})
        with ctx.guard('measure'):
            a = S.measure_quantum_vector(psi, subset, seed)
            np.random.seed(int(rng.integers(2**31)))
            np.random.random(3)
            b = S.measure_quantum_vector(psi, subset, seed)
            ctx.case('seeded', psi, subset, seed)
            ctx.check(list(a[0]) == list(b[0]) and np.array_equal(a[2], b[2]), 'measure/seed-not-reproducible', 'same seed gave a different outcome', {'subset': subset})
    # frequencies follow the Born rule (coarse chi-square style bound, 6 sigma): catches sampling from the wrong distribution
    for it in range(3 if ctx.tier == 'quick' else 10):
        n = 3
        psi = rq.rand_state(rng, 8)
        subset = (0, 2)
        p = rq.born_marginal(psi, subset, n)
        N = 600
        cnt = np.zeros(4)
        ctx.set_case({'op': 'frequency', 'subset': subset})
        with ctx.guard('measure'):
            gen = np.random.default_rng(int(rng.integers(2**31)))
            for _ in range(N):
                bs, _, _ = S.measure_quantum_vector(psi, subset, gen)
                cnt[int(''.join(str(int(x)) for x in bs), 2)] += 1
            sigma = np.sqrt(N * p * (1 - p)) + 1
            ctx.case('frequency', psi)
            ctx.check(np.all(np.abs(cnt - N * p) < 6 * sigma), 'measure/frequencies-not-born', 'outcome frequencies are >6 sigma away from the Born probabilities',
                      {'counts': cnt, 'expected': N * p})


def run(ctx, shard):
    import numqi
    st = install(ctx, numqi)
    name = shard['name']
    if name.startswith('subsets-n'):
        run_subsets(ctx, numqi, st, shard['n'])
    elif name == 'circuits':
        run_circuits(ctx, numqi, st)
    elif name == 'corner':
        run_corner(ctx, numqi, st)
    elif name == 'repo-tests':
        from vmon.repotests import run_repo_tests
        run_repo_tests(ctx, ['tests_sim/test_sim_state.py', 'tests_sim/test_sim_circuit.py'])


# thorough tier: every random shard is run this many times with independent random streams (see vmon/runner.py get_shards)
THOROUGH_REPEAT = 10
