"""C03 - the state-vector simulator applies gates exactly as the embedded operator.

Monitors (contracts on the real functions, evaluated on every call, also on calls made by Circuit.apply_state,
to_unitary, the QEC encoders, ...): sim.state.apply_gate / apply_control_n_gate / reduce_to_probability /
inner_product_psi0_O_psi1, sim.dm.apply_gate / operator_expectation, Circuit.apply_state / to_unitary.
Oracle: dense embedding built by explicit bit arithmetic (vmon/ref/qubits.py), qubit 0 = most significant bit.
Program monitor: the workload keeps an independent log of the gate program it drives through the public Circuit
methods (own gate library, own wiring bookkeeping for shift/extend/placeholders/shared gates) and compares the
circuit's unitary with the ordered product of the logged embedded operators.
"""
import itertools
import numpy as np

from vmon.ref import qubits as rq
from vmon.core import digest, to_numpy

TECHNIQUE = ('runtime monitoring: postconditions comparing every simulator call with the dense embedded operator built by explicit bit arithmetic; program (trace) monitor: the harness logs the gate program it drives through the public Circuit API (own gate library) incl. shifts, extends, shared gates, placeholders and in-place parameter updates, and checks unitary / action against the ordered product of the logged operators')
LEVEL_TEXT = ('Exploration by runtime monitoring: exhaustive target tuples x control subsets for n<=3 (quick) / n<=4 (thorough), random n<=6, random gate programs with histories, shipped encoders; every apply_gate / apply_control_n_gate / dm / Circuit call made anywhere in the process is judged. n>7 (n>6 for circuits) is not monitored.')
RULE = ('cases = (state, operator, ordered target tuple, control subset) and gate programs; target tuples of size 1..3 with all '
        'disjoint control subsets enumerated completely for n<=3 (quick) / n<=4 (thorough), random for n=5,6; programs are random '
        'sequences over the full Circuit vocabulary with shifts/extends/placeholders/shared gates; a case is non-trivial when the '
        'operator is not a multiple of the identity and acts on a strict subset of the qubits or has controls, a program when it has '
        '>=2 gates on >=2 qubits; distinct by digest of (operator, wiring) resp. of the logged program')
EXHAUSTIVE = {'quick': True, 'thorough': True}
EXHAUSTIVE_DOMAINS = {
    'quick': ['all ordered target tuples of size 1..3 x all disjoint control subsets for n=1,2,3'],
    'thorough': ['all ordered target tuples of size 1..3 x all disjoint control subsets for n=1,2,3,4'],
}
ASSUMPTIONS = ['qubit 0 is the most significant bit (documented: "count from left to right |0123>")',
               'dense reference limited to n<=7 qubits; larger states pass through unmonitored (counted)']
DECIDING = ['numqi.sim.state.apply_gate', 'numqi.sim.state.apply_control_n_gate', 'numqi.sim.state.reduce_to_probability',
            'numqi.sim.state.inner_product_psi0_O_psi1', 'numqi.sim.dm.apply_gate', 'numqi.sim.dm.operator_expectation',
            'Circuit.apply_state', 'Circuit.to_unitary', 'program/to_unitary', 'program/torch-wrapper-forward', 'history/argument-not-mutated', 'history/edit-result-then-call-again']
NMAX = 7


def shards(tier, seed):
    ret = [{'name': f'wiring-n{n}', 'n': n} for n in (1, 2, 3)]
    ret += [{'name': 'wiring-random', 'n': 0}, {'name': 'dm'}, {'name': 'aux'}]
    npg = 4 if tier == 'quick' else 12
    ret += [{'name': f'programs-{i}', 'part': i} for i in range(npg)]
    ret += [{'name': 'realistic'}]
    if tier == 'thorough':
        ret += [{'name': f'wiring-n4-{i}', 'n': 4, 'part': i, 'nparts': 6} for i in range(6)]
        ret += [{'name': 'repo-tests'}]
    return ret


class Monitors:
    def __init__(self, ctx, numqi):
        self.ctx = ctx
        self.numqi = numqi
        self._embed_cache = {}
        self.worst = 0.0

    def embed(self, op, targets, n, controls=()):
        op = to_numpy(op)
        key = (digest(op), tuple(targets), n, tuple(sorted(controls)))
        m = self._embed_cache.get(key)
        if m is None:
            m = rq.embed(op, targets, n, controls)
            if len(self._embed_cache) > 4000:
                self._embed_cache.clear()
            self._embed_cache[key] = m
        return m

    def tol(self, *arrays):
        # float64 rounding: |op|*|q|*dim*eps with a factor; float32 inputs get float32 eps
        eps = 1e-15
        scale = 1.0
        for a in arrays:
            a = to_numpy(a)
            if a.dtype in (np.float32, np.complex64):
                eps = 1e-6
            if a.size:
                scale *= max(1.0, float(np.abs(a).max()))
        return 200 * eps * scale * 64

    def tol_lin(self, op, q0):
        # apply_gate / apply_control_n_gate are LINEAR in the state: the rounding error of out = E q is eps * |op| * |q|, so the
        # tolerance follows the magnitude of the state (no floor at 1): a gate silently skipped on a vector of norm 1e-8, or on a
        # control subspace holding amplitudes of 1e-8, is an error of the size of those amplitudes (round 5, seeded C03-i)
        q = to_numpy(q0)
        a = to_numpy(op)
        eps = 1e-6 if (q.dtype in (np.float32, np.complex64) or a.dtype in (np.float32, np.complex64)) else 1e-15
        qs = float(np.abs(q).max()) if q.size else 0.0
        return 200 * eps * 64 * max(1.0, float(np.abs(a).max()) if a.size else 1.0) * qs + 1e-300

    def err(self, e):
        if np.isfinite(e):
            self.worst = max(self.worst, float(e))

    def install(self):
        ctx, numqi = self.ctx, self.numqi
        S = numqi.sim.state
        D = numqi.sim.dm
        hf_n = lambda size: int(round(np.log2(size)))

        def norm_index(index):
            if isinstance(index, (int, np.integer)):
                return (int(index),)
            return tuple(int(x) for x in np.asarray(index).reshape(-1)) if isinstance(index, np.ndarray) else tuple(int(x) for x in index)

        # ---- apply_gate
        def pre_copy0(c):
            return to_numpy(c.args[0]).copy()

        def post_apply_gate(c):
            if c.exc is not None:
                return
            q0, op, index = c.args[0], c.args[1], c.arg(2, 'index')
            n = hf_n(q0.size)
            if n > NMAX:
                ctx.inconclusive('n>7-not-monitored')
                return
            tg = norm_index(index)
            ref = self.embed(op, tg, n) @ to_numpy(q0).astype(np.complex128)
            ctx.close(c.result, ref, self.tol_lin(op, q0), 'apply_gate/embedded-operator',
                      'sim.state.apply_gate differs from multiplying by the embedded operator', {'n': n, 'targets': tg, 'op': op})
            ctx.check(np.array_equal(to_numpy(c.args[0]), c.snap), 'apply_gate/input-modified', 'apply_gate modified its input state', {'targets': tg})

        ctx.attach(S, 'apply_gate', post=post_apply_gate, pre=pre_copy0, immutable_args=True, normalize=True)

        def post_control(c):
            if c.exc is not None:
                return
            q0, op = c.args[0], c.args[1]
            cs, tg = c.arg(2, 'ind_control_set'), c.arg(3, 'ind_target')
            n = hf_n(q0.size)
            if n > NMAX:
                ctx.inconclusive('n>7-not-monitored')
                return
            cs = norm_index(cs) if not isinstance(cs, (set, frozenset)) else tuple(sorted(int(x) for x in cs))
            tg = norm_index(tg)
            ref = self.embed(op, tg, n, cs) @ to_numpy(q0).astype(np.complex128)
            ctx.close(c.result, ref, self.tol_lin(op, q0), 'apply_control_n_gate/embedded-operator',
                      'apply_control_n_gate differs from the operator acting on the all-ones control subspace',
                      {'n': n, 'controls': cs, 'targets': tg, 'op': op})
            ctx.check(np.array_equal(to_numpy(c.args[0]), c.snap), 'apply_control_n_gate/input-modified', 'apply_control_n_gate modified its input state',
                      {'controls': cs, 'targets': tg})

        ctx.attach(S, 'apply_control_n_gate', post=post_control, pre=pre_copy0, immutable_args=True, normalize=True)

        def post_prob(c):
            if c.exc is not None:
                return
            q0, keep = c.args[0], c.arg(1, 'keep_index_set')
            n = hf_n(q0.size)
            if n > 12:
                return
            ref = rq.born_marginal(to_numpy(q0), sorted(keep), n)
            ctx.close(c.result, ref, 1e-12 * max(1.0, float(np.abs(to_numpy(q0)).max())**2) * 64, 'reduce_to_probability/born-marginal',
                      'reduce_to_probability differs from the Born marginal', {'n': n, 'keep': sorted(keep)})

        ctx.attach(S, 'reduce_to_probability', post=post_prob, immutable_args=True, normalize=True)

        def post_inner(c):
            if c.exc is not None:
                return
            psi0, psi1, op_list = c.args[0], c.args[1], c.arg(2, 'op_list')
            n = hf_n(psi0.size)
            if n > NMAX:
                return
            ref = []
            for term in op_list:
                v = to_numpy(psi1).astype(np.complex128)
                for item in reversed(term):
                    v = self.embed(item[0], tuple(int(x) for x in item[1:]), n) @ v
                ref.append(np.vdot(to_numpy(psi0), v))
            scale = 1.0
            for term in op_list:
                for item in term:
                    scale *= max(1.0, float(np.abs(to_numpy(item[0])).max()))
            ctx.close(c.result, np.array(ref), 1e-11 * scale, 'inner_product/value', '<psi0|prod O|psi1> differs from the embedded product',
                      {'n': n, 'terms': [[tuple(int(x) for x in it[1:]) for it in term] for term in op_list]})

        ctx.attach(S, 'inner_product_psi0_O_psi1', post=post_inner, immutable_args=True, normalize=True)

        # ---- density matrix
        def post_dm_apply(c):
            if c.exc is not None:
                return
            dm, op, index = c.args[0], c.args[1], c.arg(2, 'index')
            n = hf_n(len(dm))
            if n > 6:
                return
            tg = norm_index(index)
            E = self.embed(op, tg, n)
            ref = E @ to_numpy(dm).astype(np.complex128) @ E.conj().T
            ctx.close(c.result, ref, self.tol(op, op, dm), 'dm.apply_gate/U-rho-Udagger', 'sim.dm.apply_gate differs from E rho E^dagger',
                      {'n': n, 'targets': tg, 'index_type': type(index).__name__})
            ctx.check(np.array_equal(to_numpy(c.args[0]), c.snap), 'dm.apply_gate/input-modified', 'dm.apply_gate modified its input', {'targets': tg})

        ctx.attach(D, 'apply_gate', post=post_dm_apply, pre=pre_copy0, point='numqi.sim.dm.apply_gate', immutable_args=True, normalize=True)

        def post_dm_expect(c):
            if c.exc is not None:
                return
            dm, op, index = c.args[0], c.args[1], c.arg(2, 'index')
            n = hf_n(len(dm))
            if n > 6:
                return
            tg = norm_index(index)
            ref = np.trace(to_numpy(dm).astype(np.complex128) @ self.embed(op, tg, n))
            ctx.close(np.asarray(c.result).reshape(()), np.asarray(ref).reshape(()), self.tol(op, dm), 'dm.operator_expectation/trace',
                      'operator_expectation differs from Tr(rho O_embedded)', {'n': n, 'targets': tg})

        ctx.attach(D, 'operator_expectation', post=post_dm_expect, point='numqi.sim.dm.operator_expectation', immutable_args=True, normalize=True)

        # ---- Circuit: generic monitor from the circuit's own gate list (the dispatch loop + simulator)
        Circuit = numqi.sim.Circuit

        def program_of(circ):
            prog = []
            for gate, index in circ.gate_index_list:
                if gate.kind == 'unitary':
                    prog.append((to_numpy(gate.array).copy(), tuple(index), ()))
                elif gate.kind == 'control':
                    prog.append((to_numpy(gate.array).copy(), tuple(index[1]), tuple(sorted(index[0]))))
                else:
                    return None
            return prog

        def pre_apply_state(c):
            circ = c.args[0]
            try:
                if any(g.array is None for g, _ in circ.gate_index_list if hasattr(g, 'array')):
                    return None
                return program_of(circ), to_numpy(c.args[1]).copy()
            except Exception:
                return None

        def unitary_of(prog, n):
            U = np.eye(2**n, dtype=np.complex128)
            for arr, tg, cs in prog:
                U = self.embed(arr, tg, n, cs) @ U
            return U

        self.unitary_of = unitary_of

        def post_apply_state(c):
            if c.exc is not None or c.snap is None or c.snap[0] is None:
                return
            prog, q0 = c.snap
            n = hf_n(q0.size)
            if n > 6 or q0.ndim != 1:
                ctx.inconclusive('n>6-circuit-not-monitored')
                return
            ref = unitary_of(prog, n) @ q0.astype(np.complex128)
            scale = 1.0
            for arr, _, _ in prog:
                scale *= max(1.0, float(np.linalg.norm(arr, 2)))
            ctx.close(c.result, ref, 1e-11 * scale * max(1.0, float(np.abs(q0).max())), 'Circuit.apply_state/ordered-product',
                      'Circuit.apply_state differs from the ordered product of its gates\' embedded operators',
                      {'n': n, 'wiring': [(tg, cs) for _, tg, cs in prog][:30]})

        ctx.attach(Circuit, 'apply_state', post=post_apply_state, pre=pre_apply_state, point='Circuit.apply_state')

        def post_to_unitary(c):
            if c.exc is not None:
                return
            circ = c.args[0]
            prog = program_of(circ)
            if prog is None:
                return
            n = circ.num_qubit
            if n > 6:
                ctx.inconclusive('n>6-circuit-not-monitored')
                return
            ref = unitary_of(prog, n)
            scale = 1.0
            all_unitary = True
            for arr, _, _ in prog:
                scale *= max(1.0, float(np.linalg.norm(arr, 2)))
                if np.abs(arr @ arr.conj().T - np.eye(len(arr))).max() > 1e-10:
                    all_unitary = False
            ctx.close(c.result, ref, 1e-11 * scale, 'Circuit.to_unitary/ordered-product',
                      'Circuit.to_unitary differs from the ordered product of its gates\' embedded operators',
                      {'n': n, 'wiring': [(tg, cs) for _, tg, cs in prog][:30]})
            if all_unitary:
                U = to_numpy(c.result)
                ctx.check(U.shape == (2**n, 2**n) and np.abs(U @ U.conj().T - np.eye(2**n)).max() < 1e-9, 'Circuit.to_unitary/not-unitary',
                          'Circuit.to_unitary of unitary gates is not unitary', {'n': n})

        ctx.attach(Circuit, 'to_unitary', post=post_to_unitary, point='Circuit.to_unitary')


# --------------------------------------------------------------------------------------------- workloads
def _operators(rng, k, small=False):
    d = 2**k
    ops = [('haar', rq.haar_unitary(rng, d)),
           ('complex-nonunitary', rng.normal(size=(d, d)) + 1j * rng.normal(size=(d, d)))]
    if not small:
        ops += [('real', rng.normal(size=(d, d))),
                ('diagonal', np.diag(np.exp(1j * rng.uniform(0, 2 * np.pi, size=d)))),
                ('permutation', np.eye(d)[rng.permutation(d)].astype(np.complex128))]
    return ops


def _index_forms(rng, tg):
    forms = [tuple(tg), list(tg), np.array(tg), tuple(np.int64(x) for x in tg)]
    if len(tg) == 1:
        forms += [int(tg[0]), np.int64(tg[0])]
    return forms


def wiring_cases(ctx, mon, numqi, n, part=0, nparts=1, exhaustive=True, ncases=0):
    rng = ctx.rng
    S = numqi.sim.state
    tuples = list(rq.all_ordered_tuples(n, 3))
    if exhaustive:
        cases = []
        for tg in tuples:
            rest = [q for q in range(n) if q not in tg]
            for cs in rq.all_subsets(rest):
                cases.append((tg, cs))
        cases = [c for i, c in enumerate(cases) if i % nparts == part]
        ctx.extra[f'wiring_cases_n{n}'] = len(cases)
    else:
        cases = []
        for _ in range(ncases):
            k = int(rng.integers(1, 4))
            tg = tuple(int(x) for x in rng.permutation(n)[:k])
            rest = [q for q in range(n) if q not in tg]
            m = int(rng.integers(0, len(rest) + 1))
            cs = tuple(sorted(int(x) for x in rng.permutation(rest)[:m])) if rest else ()
            cases.append((tg, cs))
    for tg, cs in cases:
        k = len(tg)
        small = (n >= 4)
        for kind, op in _operators(rng, k, small=small):
            q0 = rq.rand_state(rng, 2**n, real=(kind == 'real' and rng.random() < 0.5))
            if rng.random() < 0.2:
                q0 = q0 * 3.7  # un-normalised vectors are admissible inputs of a linear map
            um = rng.random()
            if um < 0.1:
                q0 = q0 * float(10.0 ** rng.integers(-12, -5))  # tiny vectors: the map is linear
            elif um < 0.25 and len(cs) > 0:
                # amplitudes of 1e-6..1e-10 (not zero) on the all-ones control subspace, ordinary amplitudes elsewhere
                q0 = q0.copy()
                qv = q0.reshape([2] * n)
                qv[tuple(1 if q in cs else slice(None) for q in range(n))] *= float(10.0 ** rng.integers(-10, -5))
            elif um < 0.32:
                q0 = q0 * np.where(rng.random(q0.shape) < 0.5, 1.0, 1e-9)  # wide dynamic range
            u = rng.random()
            if u < 0.15:
                q0 = np.ascontiguousarray(q0.real)  # a real-dtype state is a state: a complex gate must give a complex result
            elif u < 0.3:
                buf = np.zeros(2 * q0.size, dtype=q0.dtype)  # non-contiguous view
                buf[::2] = q0
                q0 = buf[::2]
            ctx.set_case({'op': 'wiring', 'n': n, 'targets': tg, 'controls': cs, 'operator': kind})
            nontrivial = (k < n or len(cs) > 0 or n == 1)
            ctx.case('wiring', n, tg, cs, kind, nontrivial=nontrivial,
                     sample={'n': n, 'targets': tg, 'controls': cs, 'operator': kind} if rng.random() < 0.01 else None)
            with ctx.guard('apply'):
                forms = _index_forms(rng, tg)
                form = forms[int(rng.integers(len(forms)))]
                if len(cs) == 0:
                    u2 = rng.random()
                    if u2 < 0.15:
                        ctx.history_probe('apply_gate', S.apply_gate, q0, op, form)
                    elif u2 < 0.3:
                        S.apply_gate(q0=q0, op=op, index=form)  # keyword form
                    else:
                        S.apply_gate(q0, op, form)
                else:
                    cform = [set(cs), tuple(cs), list(cs)] + ([int(cs[0])] if len(cs) == 1 else [])
                    cf = cform[int(rng.integers(len(cform)))]
                    if rng.random() < 0.2:
                        S.apply_control_n_gate(q0=q0, op=op, ind_control_set=cf, ind_target=form)  # keyword form
                    else:
                        S.apply_control_n_gate(q0, op, cf, form)
    return len(cases)


def run_dm(ctx, mon, numqi):
    rng = ctx.rng
    D = numqi.sim.dm
    nmax = 3 if ctx.tier == 'quick' else 4
    ctx.workload('exhaustive')
    for n in range(1, nmax + 1):
        for tg in rq.all_ordered_tuples(n, 3):
            k = len(tg)
            for kind, op in _operators(rng, k, small=True):
                rho = rq.rand_dm(rng, 2**n, rank=int(rng.integers(1, 2**n + 1)))
                for fi, form in enumerate(_index_forms(rng, tg)):
                    # memory layouts: C-ordered, Fortran-ordered copy, transposed-conjugate view (the same Hermitian matrix), real dtype
                    rho = [rho, np.asfortranarray(rho), rho.conj().T, rho][fi % 4]
                    ctx.set_case({'op': 'dm', 'n': n, 'targets': tg, 'operator': kind, 'index_type': type(form).__name__,
                                  'layout': ['C', 'F', 'conj-transpose-view', 'C'][fi % 4]})
                    ctx.case('dm', n, tg, kind, type(form).__name__, nontrivial=(k < n or n == 1))
                    with ctx.guard('dm.apply_gate'):
                        D.apply_gate(rho, op, form)
                    with ctx.guard('dm.operator_expectation'):
                        D.operator_expectation(rho, op, form)
    ctx.workload('random')
    for _ in range(40 if ctx.tier == 'quick' else 200):
        n = int(rng.integers(4, 6))
        k = int(rng.integers(1, 4))
        tg = tuple(int(x) for x in rng.permutation(n)[:k])
        rho = rq.rand_dm(rng, 2**n, rank=int(rng.integers(1, 5)))
        op = rq.haar_unitary(rng, 2**k) if rng.random() < 0.5 else rng.normal(size=(2**k, 2**k)) + 1j * rng.normal(size=(2**k, 2**k))
        ctx.set_case({'op': 'dm', 'n': n, 'targets': tg})
        ctx.case('dm-rand', n, tg, op)
        with ctx.guard('dm.apply_gate'):
            D.apply_gate(rho, op, list(tg))
            D.operator_expectation(rho, op, tuple(tg))
    # chains: the output of one dm.apply_gate (whatever memory layout the library returns) is the input of the next
    for _ in range(30 if ctx.tier == 'quick' else 200):
        n = int(rng.integers(2, 5))
        rho = rq.rand_dm(rng, 2**n)
        ctx.set_case({'op': 'dm-chain', 'n': n})
        ctx.case('dm-chain', rho)
        with ctx.guard('dm.apply_gate'):
            for step in range(4):
                k = int(rng.integers(1, min(n, 3) + 1))
                tg = tuple(range(k)) if step % 2 == 0 else tuple(int(x) for x in rng.permutation(n)[:k])
                rho = D.apply_gate(rho, rq.haar_unitary(rng, 2**k), tg)
    # base state helper
    with ctx.guard('dm.new_base'):
        b = D.new_base(3)
        ctx.check(b.shape == (8, 8) and b[0, 0] == 1 and np.abs(b).sum() == 1, 'dm.new_base/value', 'dm.new_base is not |0..0><0..0|', None)


def run_aux(ctx, mon, numqi):
    rng = ctx.rng
    S = numqi.sim.state
    ctx.workload('exhaustive')
    nmax = 5 if ctx.tier == 'quick' else 7
    for n in range(1, nmax + 1):
        for keep in rq.all_subsets(range(n)):
            q0 = rq.rand_state(rng, 2**n)
            ctx.set_case({'op': 'reduce_to_probability', 'n': n, 'keep': keep})
            ctx.case('prob', n, keep, nontrivial=0 < len(keep) < n)
            with ctx.guard('reduce_to_probability'):
                p = S.reduce_to_probability(q0, set(keep))
                ctx.check(abs(p.sum() - 1) < 1e-12 and p.min() >= 0, 'reduce_to_probability/normalised', 'marginal probabilities do not sum to one', {'n': n, 'keep': keep})
    ctx.workload('random')
    for _ in range(60 if ctx.tier == 'quick' else 400):
        n = int(rng.integers(1, 6))
        psi0, psi1 = rq.rand_state(rng, 2**n), rq.rand_state(rng, 2**n)
        op_list = []
        for _t in range(int(rng.integers(1, 4))):
            term = []
            for _g in range(int(rng.integers(1, 4))):
                k = int(rng.integers(1, min(n, 2) + 1))
                tg = tuple(int(x) for x in rng.permutation(n)[:k])
                op = rng.normal(size=(2**k, 2**k)) + 1j * rng.normal(size=(2**k, 2**k))
                term.append((op,) + tg)
            op_list.append(term)
        ctx.set_case({'op': 'inner_product', 'n': n, 'terms': [[t[1:] for t in term] for term in op_list]})
        ctx.case('inner', n, [[t[1:] for t in term] for term in op_list], psi0)
        with ctx.guard('inner_product'):
            S.inner_product_psi0_O_psi1(psi0, psi1, op_list)
    with ctx.guard('new_base'):
        b = S.new_base(4)
        ctx.check(b.shape == (16,) and b[0] == 1 and np.abs(b).sum() == 1, 'new_base/value', 'new_base is not |0..0>', None)


# ---- program workload: independent log of the program driven through the public Circuit methods
FIXED1 = ['X', 'Y', 'Z', 'H', 'S', 'T']
PARAM1 = ['rx', 'ry', 'rz', 'u3']


def make_custom_gate_class(numqi):
    class RefRyRx(numqi.sim.ParameterGate):
        def __init__(self, index, alpha=0., beta=0., requires_grad=False):
            hf0 = lambda a, b: rq.rot(rq.SY, b) @ rq.rot(rq.SX, a)
            super().__init__(kind='unitary', hf0=hf0, args=(alpha, beta), name='ref_ry_rx', requires_grad=requires_grad)
            self.index = (int(index),)
    return RefRyRx


def random_program(ctx, numqi, n, length, allow_placeholder=True):
    """returns (circuit, log) where log = list of (matrix, targets, controls) maintained by the harness."""
    rng = ctx.rng
    circ = numqi.sim.Circuit(default_requires_grad=bool(rng.integers(2)))
    circ.register_custom_gate('ref_ry_rx', make_custom_gate_class(numqi))
    log = []
    desc = []
    pending_P = {}  # placeholder key -> values; gates resolved at setP time
    placeholder_entries = []  # (log position, gate name, key, index or None)
    gates_made = []  # [gate object, name, params, arity, log positions] for re-use via append_gate and in-place parameter updates
    updatable = []   # controlled parametrized gates (updated in place, not re-used)

    def pick(k):
        return tuple(int(x) for x in rng.permutation(n)[:k])

    for _ in range(length):
        kinds = ['fixed1', 'param1', 'matrix']
        if n >= 2:
            kinds += ['Swap', 'rzz', 'ctrl-fixed', 'ctrl-param', 'ctrl-matrix', 'matrix2']
        if n >= 3:
            kinds += ['toffoli', 'matrix3', 'ctrl-matrix2']
        if n >= 4:
            kinds += ['matrix4']
        kinds += ['custom']
        if gates_made:
            kinds += ['reuse']
        if allow_placeholder:
            kinds += ['placeholder']
        kind = kinds[int(rng.integers(len(kinds)))]
        if kind == 'fixed1':
            name = FIXED1[int(rng.integers(len(FIXED1)))]
            q, = pick(1)
            getattr(circ, name)(q)
            log.append((rq.gate_matrix(name), (q,), ()))
            desc.append((name, q))
        elif kind == 'param1':
            name = PARAM1[int(rng.integers(len(PARAM1)))]
            q, = pick(1)
            params = tuple(float(x) for x in rng.uniform(0, 2 * np.pi, size=3 if name == 'u3' else 1))
            if rng.random() < 0.25:  # exact special values: a parametrized gate that is exactly the identity / a Pauli
                params = tuple(float(rng.choice([0.0, np.pi / 2, np.pi, 2 * np.pi])) for _ in params)
            g = getattr(circ, name)(q, params if name == 'u3' else params[0])
            log.append((rq.gate_matrix(name, params), (q,), ()))
            gates_made.append([g, name, params, 1, [len(log) - 1]])
            desc.append((name, q, params))
        elif kind == 'Swap':
            a, b = pick(2)
            circ.Swap(a, b)
            log.append((rq.SWAP, (a, b), ()))
            desc.append(('Swap', a, b))
        elif kind == 'rzz':
            a, b = pick(2)
            th = float(rng.uniform(0, 2 * np.pi))
            g = circ.rzz((a, b), th)
            log.append((rq.gate_matrix('rzz', (th,)), (a, b), ()))
            gates_made.append([g, 'rzz', (th,), 2, [len(log) - 1]])
            desc.append(('rzz', a, b, th))
        elif kind == 'ctrl-fixed':
            name = ['cnot', 'cx', 'cy', 'cz'][int(rng.integers(4))]
            c, t = pick(2)
            getattr(circ, name)(c, t)
            log.append((rq.gate_matrix({'cnot': 'X', 'cx': 'X', 'cy': 'Y', 'cz': 'Z'}[name]), (t,), (c,)))
            desc.append((name, c, t))
        elif kind == 'toffoli':
            a, b, t = pick(3)
            circ.toffoli((a, b), t)
            log.append((rq.SX, (t,), (a, b)))
            desc.append(('toffoli', a, b, t))
        elif kind == 'ctrl-param':
            name = ['crx', 'cry', 'crz', 'cu3'][int(rng.integers(4))]
            nc = int(rng.integers(1, n))
            idx = pick(nc + 1)
            cs, t = idx[:nc], idx[nc]
            params = tuple(float(x) for x in rng.uniform(0, 2 * np.pi, size=3 if name == 'cu3' else 1))
            cs_arg = cs[0] if (nc == 1 and rng.random() < 0.5) else cs
            g = getattr(circ, name)(cs_arg, t, params if name == 'cu3' else params[0])
            log.append((rq.gate_matrix(name[1:], params), (t,), cs))
            updatable.append([g, name[1:], params, 1, [len(log) - 1]])
            desc.append((name, cs, t, params))
        elif kind in ('matrix', 'matrix2', 'matrix3', 'matrix4'):
            k = {'matrix': 1, 'matrix2': 2, 'matrix3': 3, 'matrix4': 4}[kind]
            idx = pick(k)
            U = rq.haar_unitary(rng, 2**k)
            [circ.single_qubit_gate, circ.double_qubit_gate, circ.triple_qubit_gate, circ.quadruple_qubit_gate][k - 1](U, *idx)
            log.append((U, idx, ()))
            desc.append((kind, idx))
        elif kind in ('ctrl-matrix', 'ctrl-matrix2'):
            k = 1 if kind == 'ctrl-matrix' else 2
            nc = int(rng.integers(1, n - k + 1))
            idx = pick(nc + k)
            cs, tg = idx[:nc], idx[nc:]
            U = rq.haar_unitary(rng, 2**k)
            if k == 1:
                circ.controlled_single_qubit_gate(U, set(cs) if rng.random() < 0.5 else cs, tg[0])
            else:
                circ.controlled_double_qubit_gate(U, set(cs), tg)
            log.append((U, tg, cs))
            desc.append((kind, cs, tg))
        elif kind == 'custom':
            q, = pick(1)
            a, b = (float(x) for x in rng.uniform(0, 2 * np.pi, size=2))
            circ.ref_ry_rx(q, a, b)
            log.append((rq.rot(rq.SY, b) @ rq.rot(rq.SX, a), (q,), ()))
            desc.append(('custom ry_rx', q, a, b))
        elif kind == 'reuse':
            entry = gates_made[int(rng.integers(len(gates_made)))]
            g, name, params, k = entry[:4]
            if k > n:
                continue
            idx = pick(k)
            circ.append_gate(g, idx if k > 1 else (idx if rng.random() < 0.5 else idx[0]))
            log.append((rq.gate_matrix(name, params), idx, ()))
            entry[4].append(len(log) - 1)
            desc.append(('reuse ' + name, idx))
        elif kind == 'placeholder':
            name = ['rx', 'ry', 'rz'][int(rng.integers(3))]
            q, = pick(1)
            style = int(rng.integers(3))
            val = float(rng.uniform(0, 2 * np.pi))
            if style == 0:
                lst = pending_P.setdefault('', [])
                lst.append(val)
                holder = circ.P[len(lst) - 1]
            elif style == 1:
                key = f'k{len(pending_P)}'
                pending_P[key] = val
                holder = circ.P[key]
            else:
                key = f'v{len(pending_P)}'
                pending_P[key] = [float(rng.uniform(0, 6)), val]
                holder = circ.P[key][1]
            getattr(circ, name)(q, holder)
            log.append((rq.gate_matrix(name, (val,)), (q,), ()))
            desc.append(('placeholder ' + name, q, val))
    if pending_P:
        args = []
        kw = {}
        for k, v in pending_P.items():
            if k == '':
                args = [np.array(v)]
            else:
                kw[k] = v if not isinstance(v, list) else np.array(v)
        circ.setP(*args, **kw)
    return circ, log, desc, gates_made + updatable


def ref_unitary(log, n):
    U = np.eye(2**n, dtype=np.complex128)
    for arr, tg, cs in log:
        U = rq.embed(arr, tg, n, cs) @ U
    return U


def check_program(ctx, circ, log, n, desc, tag):
    rng = ctx.rng
    used = set()
    for _, tg, cs in log:
        used |= set(tg) | set(cs)
    if not used:
        return
    nq = max(used) + 1
    with ctx.guard('program/' + tag):
        ctx.check(circ.num_qubit == nq, 'program/num_qubit', 'Circuit.num_qubit is not 1+largest qubit index used', {'got': circ.num_qubit, 'expected': nq})
        U = circ.to_unitary()
        ref = ref_unitary(log, nq)
        ctx.close(U, ref, 1e-10, 'program/to_unitary', 'the circuit unitary differs from the ordered product of the logged program (harness log, own gate library)',
                  {'program': desc[:40], 'stage': tag}, point='program/to_unitary')
        # acting on a state of a LARGER register (identity on the extra qubits)
        nbig = min(6, n + int(rng.integers(0, 2)))
        nbig = max(nbig, nq)
        q0 = rq.rand_state(rng, 2**nbig)
        q1 = circ.apply_state(q0)
        ctx.close(q1, ref_unitary(log, nbig) @ q0, 1e-10, 'program/apply_state', 'apply_state differs from multiplying by the logged program\'s unitary',
                  {'program': desc[:40], 'stage': tag, 'register': nbig})
        # the same program through the torch wrapper (trainable gates are rebuilt from their parameters by the torch path of the gate functions)
        if tag in ('built', 'parameters-updated') and rng.random() < 0.5:
            import torch
            try:
                with ctx.quiet():
                    wrap = ctx.numqi_mod.sim.CircuitTorchWrapper(circ)
            except Exception:
                ctx.inconclusive('torch-wrapper-construction-rejected-program')
                return
            qt = rq.rand_state(rng, 2**nq)
            out = wrap(torch.tensor(qt))
            ctx.close(out.detach().numpy(), ref @ qt, 1e-10, 'program/torch-wrapper-forward', 'CircuitTorchWrapper forward differs from the logged program\'s unitary',
                      {'program': desc[:40], 'stage': tag}, point='program/torch-wrapper-forward')


def run_programs(ctx, mon, numqi, part):
    rng = ctx.rng
    N = 14 if ctx.tier == 'quick' else 40
    ctx.workload('random')
    for it in range(N):
        n = int(rng.integers(1, 6)) if it % 5 else 6
        length = int(rng.integers(1, 31)) if n <= 4 else int(rng.integers(1, 13))
        circ, log, desc, params_gates = random_program(ctx, numqi, n, length)
        ctx.set_case({'op': 'program', 'n': n, 'length': len(log), 'program': desc[:40]})
        used = set()
        for _, tg, cs in log:
            used |= set(tg) | set(cs)
        ctx.case('program', [(a, t, c) for a, t, c in log], nontrivial=(len(log) >= 2 and len(used) >= 2),
                 sample={'n': n, 'program': desc[:12]} if it < 2 else None)
        check_program(ctx, circ, log, n, desc, 'built')
        # history: query, update parameters of existing gate objects in place, query again (the circuit must reflect the gates'
        # CURRENT matrices; all occurrences of a shared gate object change together)
        for _round in range(2):
            if params_gates and rng.random() < 0.7:
                for entry in [params_gates[int(i)] for i in rng.integers(0, len(params_gates), size=min(2, len(params_gates)))]:
                    g, name, _, k, positions = entry
                    newp = tuple(float(x) for x in rng.uniform(0, 2 * np.pi, size=3 if name == 'u3' else 1))
                    with ctx.guard('program/set_args'):
                        g.set_args(newp)
                    entry[2] = newp
                    for pos in positions:
                        log[pos] = (rq.gate_matrix(name, newp), log[pos][1], log[pos][2])
                    desc.append(('set_args ' + name, newp))
                check_program(ctx, circ, log, n, desc, 'parameters-updated')
        if rng.random() < 0.6 and used:
            delta = int(rng.integers(1, 3))
            if max(used) + delta <= 5:
                with ctx.guard('program/shift'):
                    circ.shift_qubit_index_(delta)
                log = [(a, tuple(t + delta for t in tg), tuple(c + delta for c in cs)) for a, tg, cs in log]
                check_program(ctx, circ, log, n + delta, desc, 'shifted')
                if rng.random() < 0.5:
                    with ctx.guard('program/shift'):
                        circ.shift_qubit_index_(-delta)
                    log = [(a, tuple(t - delta for t in tg), tuple(c - delta for c in cs)) for a, tg, cs in log]
                    check_program(ctx, circ, log, n, desc, 'shifted-back')
        # extend by a second program
        if rng.random() < 0.6:
            n2 = int(rng.integers(1, 5))
            circ2, log2, desc2, _ = random_program(ctx, numqi, n2, int(rng.integers(1, 8)), allow_placeholder=False)
            with ctx.guard('program/extend'):
                circ.extend_circuit(circ2)
            log = log + log2
            check_program(ctx, circ, log, max(n, n2), desc + desc2, 'extended')


def run_realistic(ctx, mon, numqi):
    """the library's own higher-level code with the contracts on."""
    rng = ctx.rng
    ctx.workload('realistic')
    Q = numqi.qec
    names = ['523', '422', '442', '642'] + (['883', '8_64_2'] if ctx.tier == 'thorough' else [])
    for nm in names:
        f = getattr(Q._qecc, 'generate_code' + nm, None)
        if f is None:
            continue
        ctx.set_case({'op': 'qec-encoder', 'code': nm})
        with ctx.guard('realistic/qec'):
            code = f()
            circ = code['encode']
            ctx.case('qec', nm)
            if circ.num_qubit <= 6:
                circ.to_unitary()
            Q.generate_code_np(circ, min(code['num_logical_dim'], 4))
    with ctx.guard('realistic/graph-state'):
        for n in (3, 4, 5):
            adj = (rng.random((n, n)) < 0.5).astype(np.uint8)
            adj = np.triu(adj, 1)
            adj = adj + adj.T
            ctx.set_case({'op': 'graph-state', 'adjacent': adj})
            ctx.case('graph', adj)
            q = numqi.sim.build_graph_state(adj) if hasattr(numqi.sim, 'build_graph_state') else None
            if q is not None:
                # reference: prod CZ_{ij} |+>^n
                psi = np.ones(2**n, dtype=np.complex128) / np.sqrt(2**n)
                for i in range(n):
                    for j in range(i + 1, n):
                        if adj[i, j]:
                            psi = rq.embed(rq.SZ, (j,), n, (i,)) @ psi
                q = np.asarray(q)
                if q.ndim == 1:
                    ctx.close(q, psi, 1e-12, 'realistic/graph-state', 'build_graph_state differs from prod CZ |+>^n', {'adjacent': adj})
    # Toffoli decomposition (as in the repository's tests) through the monitored circuit
    with ctx.guard('realistic/toffoli'):
        circ1 = numqi.sim.Circuit(default_requires_grad=False)
        Td = rq.TG.conj().T
        circ1.H(2); circ1.cnot(1, 2); circ1.single_qubit_gate(Td, 2); circ1.cnot(0, 2); circ1.T(2); circ1.cnot(1, 2)
        circ1.single_qubit_gate(Td, 2); circ1.cnot(0, 2); circ1.T(1); circ1.T(2); circ1.cnot(0, 1); circ1.H(2); circ1.T(0)
        circ1.single_qubit_gate(Td, 1); circ1.cnot(0, 1)
        U = circ1.to_unitary()
        ctx.case('toffoli-decomposition')
        ctx.close(U, rq.embed(rq.SX, (2,), 3, (0, 1)), 1e-12, 'realistic/toffoli-decomposition', 'Toffoli decomposition does not give the Toffoli gate', None)
    # torch wrapper forward uses the same simulator
    with ctx.guard('realistic/torch-wrapper'):
        import torch
        circ = numqi.sim.Circuit(default_requires_grad=True)
        circ.ry(0, 0.3); circ.cnot(0, 1); circ.rx(1, 1.1); circ.crz(1, 0, 0.7); circ.rzz((0, 1), 0.4)
        wrap = numqi.sim.CircuitTorchWrapper(circ)
        q0 = torch.tensor(rq.rand_state(rng, 4))
        out = wrap(q0)
        ctx.case('torch-wrapper')
        log = [(rq.gate_matrix('ry', (0.3,)), (0,), ()), (rq.SX, (1,), (0,)), (rq.gate_matrix('rx', (1.1,)), (1,), ()),
               (rq.gate_matrix('rz', (0.7,)), (0,), (1,)), (rq.gate_matrix('rzz', (0.4,)), (0, 1), ())]
        ctx.close(out.detach().numpy(), ref_unitary(log, 2) @ q0.numpy(), 1e-12, 'realistic/torch-wrapper-forward',
                  'CircuitTorchWrapper forward differs from the reference unitary', None)


def run(ctx, shard):
    import numqi
    mon = Monitors(ctx, numqi)
    mon.install()
    ctx.numqi_mod = numqi
    name = shard['name']
    if name.startswith('wiring-n'):
        ctx.workload('exhaustive')
        wiring_cases(ctx, mon, numqi, shard['n'], shard.get('part', 0), shard.get('nparts', 1))
    elif name == 'wiring-random':
        ctx.workload('random')
        nc = 60 if ctx.tier == 'quick' else 400
        if ctx.tier == 'quick':
            wiring_cases(ctx, mon, numqi, 4, exhaustive=False, ncases=nc)
        for n in (5, 6):
            wiring_cases(ctx, mon, numqi, n, exhaustive=False, ncases=nc)
    elif name == 'dm':
        run_dm(ctx, mon, numqi)
    elif name == 'aux':
        run_aux(ctx, mon, numqi)
    elif name.startswith('programs-'):
        run_programs(ctx, mon, numqi, shard['part'])
    elif name == 'realistic':
        run_realistic(ctx, mon, numqi)
    elif name == 'repo-tests':
        from vmon.repotests import run_repo_tests
        run_repo_tests(ctx, ['tests_sim/test_sim_state.py', 'tests_sim/test_sim_dm.py', 'tests_sim/test_sim_circuit.py', 'test_gate.py'])
    ctx.extra['worst_abs_error'] = mon.worst


# thorough tier: every random shard is run this many times with independent random streams (see vmon/runner.py get_shards)
THOROUGH_REPEAT = 10
