"""C19 - shipped quantum codes satisfy Knill-Laflamme and their listed stabilizers.

Observation points (all on the real numqi callables, attached from outside):
  * numqi.qec._qecc.parse_simple_pauli is wrapped: every (listed string -> returned circuit / gate list) pair is recorded
    and judged on the spot (circuit unitary == Kronecker product of the listed letters, global phase included);
  * every numqi.qec.generate_code<name>(): the stabilizer circuits of the returned description must be exactly the
    circuits the parser returned during that call (so the listed strings are known), parameters == the shipped name,
    listed strings commute pairwise;
  * generate_code_np: code words orthonormal, == own simulation of the encoder's gate list on |i>, and - when the circuit
    is a shipped encoder - every listed Pauli fixes every code word (+1) and the Knill-Laflamme conditions hold for EVERY
    Pauli error of weight 1..d-1 (enumerated and applied by vmon/ref/qecc.py: axis operations on the state tensor);
  * check_stabilizer, knill_laflamme_inner_product (numpy and torch paths), make_error_list, make_asymmetric_error_set,
    quantum_weight_enumerator: value / set / sum-rule contracts against the reference.
Workloads: one shard per shipped code, error-set generators over (n, d, z-weight) grids, random complex states and operators
through both paths of knill_laflamme_inner_product (incl. VarQEC / VarQECUnitary as realistic callers), the parser on all
strings n<=3 and random strings in both notations; thorough adds the 11-qubit code, the 8-qubit enumerators, larger grids and
the repository's tests/test_qec.py under the monitors.
Shard 'secondary' (both tiers): the less prominent entry points (parse_str_qecc and its consumer chain, knill_laflamme_loss, degeneracy,
hf_split_element, VarQEC.get_code / VarQECUnitary.get_code, QECCEqualModel, quantum_weight_enumerator(use_tqdm) and random small codes of
every K), numerical regimes (states scaled 1e-100..1e6, operators 1e-9..1e7, one zero / tiny code word in the batch, Z-weights next to
1, 1.5, 2, non-dyadic ones and numpy scalar types, ansatz angles up to |20| and ~1e-7), shapes (n=1, K=8, all six orders of a qubit triple),
torch evaluation modes (plain / requires_grad / no_grad / frozen parameters / non-contiguous) and object lifecycles (deepcopy with new
parameters, original afterwards, in-place update, load_state_dict into a sibling, two code descriptions that must not share circuits).
"""
import collections
import contextlib
import copy
import fractions
import importlib.util
import itertools
import math
import os

import numpy as np

from vmon.core import digest, to_numpy
from vmon.ref import pauli as rp
from vmon.ref import qecc as rq

CODES = {
    '523': {'fn': 'generate_code523', 'n': 5, 'K': 2, 'd': 3},
    '422': {'fn': 'generate_code422', 'n': 4, 'K': 2, 'd': 2},
    '442': {'fn': 'generate_code442', 'n': 4, 'K': 4, 'd': 2},
    '642': {'fn': 'generate_code642', 'n': 6, 'K': 4, 'd': 2},
    '883': {'fn': 'generate_code883', 'n': 8, 'K': 8, 'd': 3},
    '8_64_2': {'fn': 'generate_code8_64_2', 'n': 8, 'K': 64, 'd': 2},
    '10_4_4': {'fn': 'generate_code10_4_4', 'n': 10, 'K': 4, 'd': 4},
    '11_2_5': {'fn': 'generate_code11_2_5', 'n': 11, 'K': 2, 'd': 5},
}
QUICK_CODES = ['523', '422', '442', '642', '883', '8_64_2', '10_4_4']

RULE = ('cases are (a) (code, Pauli error E) for every E of weight 1..d-1 of every shipped code (non-trivial: E is not the '
        'identity and the code words passed the orthonormality check), (b) (code, listed stabilizer string) (non-trivial: the '
        'string has a non-identity letter), (c) (error-set variant, n, d, z-weight, output form) (non-trivial: the reference '
        'set is non-empty), (d) (backend, K, n, operator sequences, state content) for knill_laflamme_inner_product on random '
        'complex states/operators (non-trivial: at least one operator sequence is non-empty), (e) (listed string, notation, '
        'output form) for the parser (non-trivial: a non-identity letter), (f) (code words digest) for the enumerators; '
        '(g) (order name, position, code, code generated just before) for the generation histories of the sequence shard: several '
        'shipped codes generated one after the other in ONE process (non-trivial: another generation preceded it); '
        '(h) secondary shard: (entry point, sizes, numerical regime / number type / lifecycle step, input content) for the less prominent entry '
        'points, magnitudes, torch modes and object lifecycles (non-trivial: a non-empty reference set / a non-zero input); '
        'distinct by digest of those tuples')
EXHAUSTIVE = {'quick': True, 'thorough': True}
EXHAUSTIVE_DOMAINS = {
    'quick': ['every Pauli error of weight 1..d-1 of each shipped code: (5,2,3) 105, (4,2,2) 12, (4,4,2) 12, (6,4,2) 18, (8,8,3) 276, '
              '(8,64,2) 24, (10,4,4) 3675; every listed stabilizer x every code word of these codes',
              'symmetric error sets: all (n,d) with n=1..6, d=2..4 (list form and dense form); asymmetric error sets: all '
              '(n,d,c_z) with n=1..6, d=2..4, c_z in {0.5,1,1.5,2,3} - each compared with a filter over ALL 4^n Pauli strings',
              'all 4^n Pauli strings in the weight enumerators of the codes with n<=6 (1024, 256, 256, 4096)',
              'parser: all 84 Pauli strings on 1..3 qubits in both output forms'],
    'thorough': ['as quick, plus (11,2,5) with all 31713 errors of weight 1..4 and its 10 stabilizers',
                 'symmetric error sets n=1..7, d=2..5; asymmetric n=1..7, d=2..5, c_z in {0.25,0.5,0.75,1,1.5,2,2.5,3,4}',
                 'all 65536 Pauli strings in the weight enumerators of (8,8,3) and (8,64,2)',
                 'parser: all 340 Pauli strings on 1..4 qubits in both output forms'],
}
ASSUMPTIONS = [
    'qubit 0 is the most significant bit of the state index (left-most Kronecker factor); generate_code_np feeds the basis states |i>, i<K',
    'the listed stabilizer strings are the arguments parse_simple_pauli received while generate_code*() ran (checked: the returned '
    'circuits ARE the parser results, by identity); a circuit on fewer qubits than the string (trailing I) is padded with identities',
    'Knill-Laflamme and eigenvalue tolerances 1e-9 (all quantities are sums of <=2^11 products of modulus <=1); circuit == listed Pauli '
    'to 1e-12 in every matrix entry, global phase included',
    'error sets: a returned element is read as a Pauli string by comparing each operator with the reference sigma matrices; the asymmetric '
    'rule is the documented one, 0 < n_x+n_y+c_z n_z < d; z-weights are dyadic so the bound is exact in floating point',
    'enumerators in the normalisation A_w = K^-2 sum |tr(E P)|^2, B_w = K^-1 sum tr(E P E^dag P), weights 1..n returned; sum rules '
    '1+sum A = 2^n/K, 1+sum B = 2^n K, A_w <= B_w, A_w = B_w for w<d are derived from that definition in vmon/ref/qecc.py',
    'knill_laflamme_inner_product is additionally judged relative to the a-priori bound max_i|c_i|^2 prod||op||_2 computed from the INPUT (1e-11 x '
    'bound; honest rounding observed: <= 1e-15 x bound), knill_laflamme_loss relative to sum h|M_ij| of its input (1e-11; observed 4e-16): tiny '
    'and huge magnitudes are judged as sharply as ordinary ones; the loss is modelled as sum_E [sum_(i<j) h|M_ij| + sum_i h|M_ii - mean_i M_ii|]',
    'asymmetric error sets with a Z-weight for which some n_x+n_y+c_z n_z lies within 1e-13 of the bound without being equal to it (exact '
    'rational arithmetic on the float that was passed) are inconclusive: the answer is decided by rounding (1/3, 2/3, 0.1 hit this)',
    'VarQEC.get_code() is compared with the reference simulation of the gate arrays of an ansatz built (before the index shift) from the angles the '
    'module holds; parameter rows are in gate order per gate name',
    'make_asymmetric_error_set / make_error_list are also driven with num_qubit < distance (corner workload: no ((n,K,d)) code has d > n, the '
    'documented rule is applied unchanged; a miss there has its own key error-set/asymmetric/missing-full-xy-support-when-n<d)',
]
TECHNIQUE = ('runtime monitoring: recording wrapper on the Pauli-string parser (ghost link listed string -> circuit), postconditions on the '
             'code generators, code-word generator, stabilizer check, KL inner product (numpy/torch), error-set generators and weight '
             'enumerators, each judged against an own reference (Pauli application by axis operations, filter over all 4^n strings, '
             'own gate-list simulator)')
LEVEL_TEXT = 'held on the monitored executions; the finite domains listed under exhaustive_domains were enumerated completely'
LEVEL_NOTE = ('weight enumerators of the 10- and 11-qubit codes (4^10, 4^11 operators through numqi\'s per-operator loop: >15 min) are out of '
              'reach; the 8-qubit ones run in the thorough tier only; VarQEC optimisation is observed for a few iterations only')

P_PARSE = 'numqi.qec._qecc.parse_simple_pauli'
P_GEN = 'numqi.qec.generate_code*'
P_NP = 'numqi.qec.generate_code_np'
P_CHK = 'numqi.qec.check_stabilizer'
P_KLIP = 'numqi.qec.knill_laflamme_inner_product'
P_EL = 'numqi.qec.make_error_list'
P_AS = 'numqi.qec.make_asymmetric_error_set'
P_QWE = 'numqi.qec.quantum_weight_enumerator'
P_KL = 'reference/knill-laflamme-every-error'
P_STAB = 'reference/stabilizer-circuit==listed-pauli'
P_FIX = 'reference/listed-pauli-fixes-codeword'
P_TORCH = 'relation/kl-inner-product-torch==numpy'
P_HIST = 'history/code-regenerated-in-same-process'
P_LOSS = 'numqi.qec.knill_laflamme_loss'
P_NAME = 'numqi.qec.parse_str_qecc'
P_DEG = 'numqi.qec.degeneracy'
P_SPLIT = 'numqi.qec._internal.hf_split_element'
P_GETCODE = 'relation/get_code==reference-simulation-of-own-parameters'
P_LIFE = 'history/copied-updated-or-sibling-object'
P_MODES = 'relation/torch-evaluation-modes-same-value'
DECIDING = [P_PARSE, P_GEN, P_NP, P_CHK, P_KLIP, P_EL, P_AS, P_QWE, P_KL, P_STAB, P_FIX, P_TORCH, P_HIST,
            P_LOSS, P_NAME, P_DEG, P_SPLIT, P_GETCODE, P_LIFE, P_MODES]

TOL = 1e-9
TOL_CIRCUIT = 1e-12
TOL_REL = 1e-11   # relative to an a-priori bound computed from the INPUT (sum of <= 2^11 products: honest rounding stays below 1e-13)
ZW_QUICK = [0.5, 1, 1.5, 2, 3]
ZW_THOROUGH = [0.25, 0.5, 0.75, 1, 1.5, 2, 2.5, 3, 4]


def shards(tier, seed):
    ret = [{'name': f'code-{t}', 'code': t} for t in QUICK_CODES]
    if tier == 'quick':
        ret += [{'name': 'errorsets', 'part': 0, 'nparts': 1}, {'name': 'klip', 'reps': 40}, {'name': 'parser'}, {'name': 'sequence'},
                {'name': 'secondary', 'reps': 1}]
    else:
        ret += [{'name': 'code-11_2_5', 'code': '11_2_5'}, {'name': 'enum-883', 'code': '883'}, {'name': 'enum-8_64_2', 'code': '8_64_2'}]
        ret += [{'name': f'errorsets-{i}', 'part': i, 'nparts': 3} for i in range(3)]
        ret += [{'name': 'klip', 'reps': 400}, {'name': 'parser'}, {'name': 'repo-tests'}, {'name': 'sequence'}, {'name': 'secondary', 'reps': 6}]
    # longest shards first (matters only when fewer workers than shards)
    first = ['enum-8_64_2', 'code-11_2_5', 'enum-883', 'parser', 'repo-tests', 'sequence', 'code-10_4_4']
    ret.sort(key=lambda sh: first.index(sh['name']) if sh['name'] in first else len(first))
    return ret


# ----------------------------------------------------------------------------------------------- helpers
def is_torch(x):
    return type(x).__module__.startswith('torch')


def letter_of(op):
    """'I','X','Y','Z' when the operator is exactly that reference sigma matrix, else None"""
    try:
        m = to_numpy(op)
    except Exception:
        return None
    if m.shape != (2, 2):
        return None
    for ch in 'XYZI':
        if np.array_equal(m, rp.S[ch]):
            return ch
    return None


def seq_to_letters(seq, n):
    """Pauli string of one element of an error set ([([q], op), ...]); None when it is not a placement of X/Y/Z on distinct qubits"""
    s = ['I'] * n
    try:
        for ind, op in seq:
            ind = list(ind)
            if len(ind) != 1:
                return None
            q = int(ind[0])
            ch = letter_of(op)
            if not (0 <= q < n) or s[q] != 'I' or ch not in ('X', 'Y', 'Z'):
                return None
            s[q] = ch
    except (TypeError, ValueError):
        return None
    return ''.join(s)


def gate_program(circ):
    """neutral description of a numqi circuit for the reference simulator; None when it holds something else than plain/controlled unitaries"""
    out = []
    n = 0
    for gate, index in circ.gate_index_list:
        kind = getattr(gate, 'kind', None)
        arr = getattr(gate, 'array', None)
        if arr is None:
            return None, 0
        if kind == 'unitary':
            idx = tuple(int(i) for i in index)
            out.append(('unitary', np.asarray(arr), idx))
            n = max(n, max(idx) + 1)
        elif kind == 'control':
            ctrl = sorted(int(i) for i in index[0])
            tgt = tuple(int(i) for i in index[1])
            out.append(('control', np.asarray(arr), ctrl, tgt))
            n = max(n, max(ctrl) + 1, max(tgt) + 1)
        else:
            return None, 0
    return out, n


def gates_desc(circ):
    try:
        return [[getattr(g, 'name', '?'), repr(i)] for g, i in circ.gate_index_list][:16]
    except Exception:
        return repr(circ)[:200]


@contextlib.contextmanager
def seeded_default_rng(ctx):
    orig = np.random.default_rng

    def patched(seed=None):
        if seed is None:
            seed = int(ctx.rng.integers(0, 2**63 - 1))
        return orig(seed)

    np.random.default_rng = patched
    try:
        yield
    finally:
        np.random.default_rng = orig


# ----------------------------------------------------------------------------------------------- monitors
class Mon:
    def __init__(self, ctx, numqi):
        self.ctx = ctx
        self.numqi = numqi
        self.recorded = []      # every parser call: {'str', 'letters', 'ret', 'tag'}
        self.listed_of = {}     # id(circuit returned by the parser) -> listed letters
        self.encoders = {}      # id(encode circuit) -> code record
        self.by_digest = {}     # digest(code words) -> code record
        self.judged = set()
        self.keep = []          # keeps recorded objects alive (ids stay unique)
        self.enum_ref_max_n = 6 if ctx.tier == 'quick' else 8
        self.sampled = set()
        self.circuits_ok = set()  # (listed letters, gate program) pairs whose full unitary was compared and passed
        self.generations = []   # history of generate_code_np calls on shipped encoders in this process: (tag, verdict)
        self.first_words = {}   # tag -> code words of the first orthonormal generation in this process
        self.last_klip = None   # (backend, code words, number of sequences) of the latest knill_laflamme_inner_product call
        ctx.extra.setdefault('codes', {})
        ctx.extra.setdefault('worst', {})

    def worst(self, key, val):
        w = self.ctx.extra['worst']
        if np.isfinite(val):
            w[key] = max(w.get(key, 0.0), float(val))

    # ------------------------------------------------------------ parser
    def check_circuit(self, text, letters, circ):
        ctx = self.ctx
        n = len(letters)
        gl = getattr(circ, 'gate_index_list', None)
        if not ctx.check(gl is not None and hasattr(circ, 'to_unitary'), 'stabilizer/not-a-circuit',
                         'parse_simple_pauli(tag_circuit=True) did not return a circuit', {'listed': text, 'got': repr(circ)[:100]}):
            return
        try:
            sig = (letters, tuple((getattr(g, 'kind', None), repr(i), np.asarray(g.array).tobytes()) for g, i in gl))
        except Exception:
            sig = None
        if sig is not None and sig in self.circuits_ok and len(gl) > 0:
            # this very gate program was already compared entry by entry with this listed string in this process (and passed):
            # later copies are judged on one random state (linear map, so equality on a random vector decides with probability 1)
            psi = self.ctx.rng.normal(size=2**n) + 1j * self.ctx.rng.normal(size=2**n)
            try:
                got = np.asarray(circ.apply_state(psi.copy()))
            except Exception as e:
                ctx.check(False, 'stabilizer/circuit-apply_state-raises', f'apply_state of a stabilizer circuit raised {type(e).__name__}',
                          {'listed': text, 'gates': gates_desc(circ), 'exception': repr(e)[:200]}, point=P_STAB)
                return
            want = rq.apply_pauli(psi, letters)
            dev = float(np.abs(got - want).max()) if got.shape == want.shape else float('inf')
            ctx.check(dev <= 1e-12 * 8, 'stabilizer/circuit-not-listed-pauli',
                      'stabilizer circuit applied to a random state differs from the listed Pauli applied by the reference',
                      {'listed': text, 'gates': gates_desc(circ), 'max_abs_dev': dev, 'mode': 'repeat of an already judged gate program'}, point=P_STAB)
            return
        if len(gl) == 0:
            u = np.eye(1, dtype=np.complex128)  # the empty circuit acts as the identity
        else:
            try:
                u = np.asarray(circ.to_unitary())
            except Exception as e:  # the circuit cannot even be turned into a unitary
                ctx.check(False, 'stabilizer/circuit-to_unitary-raises', f'to_unitary() of a stabilizer circuit raised {type(e).__name__}',
                          {'listed': text, 'gates': gates_desc(circ), 'exception': repr(e)[:200]}, point=P_STAB)
                return
        ok_shape = u.ndim == 2 and u.shape[0] == u.shape[1] and u.shape[0] >= 1 and (u.shape[0] & (u.shape[0] - 1)) == 0
        m = rq.num_qubit_of(u.shape[0]) if ok_shape else None
        if not ok_shape or m > n:
            ctx.check(False, 'stabilizer/circuit-not-listed-pauli', 'stabilizer circuit acts on more qubits than the listed string / is not a 2^m matrix',
                      {'listed': text, 'unitary_shape': list(u.shape), 'gates': gates_desc(circ)}, point=P_STAB)
            return
        head, tail = letters[:m], letters[m:]
        ok_tail = set(tail) <= {'I'}  # padding the circuit with identities: the listed letters there must be I
        ok_head, dev = rq.matrix_is_pauli(u, head, TOL_CIRCUIT)
        ok = ok_head and ok_tail
        if n <= 6:  # literal form of the statement for small n: pad with identity, compare with the Kronecker product
            padded = np.kron(u, np.eye(2**(n - m)))
            ok_dense = bool(np.abs(padded - rp.dense((0, letters))).max() <= TOL_CIRCUIT)
            if ok_dense != ok:
                raise RuntimeError(f'reference inconsistency for {text!r}: signed-permutation test {ok}, dense test {ok_dense}')
        self.worst('circuit_vs_listed_pauli', dev if ok else 0.0)
        if ok and sig is not None:
            self.circuits_ok.add(sig)
        ctx.check(ok, 'stabilizer/circuit-not-listed-pauli',
                  'unitary of the stabilizer circuit (padded with identities) differs from the Kronecker product of the listed letters',
                  lambda: {'listed': text, 'letters': letters, 'gates': gates_desc(circ), 'max_abs_dev_on_circuit_qubits': dev,
                           'circuit_is_identity': bool(np.array_equal(u, np.eye(u.shape[0]))),
                           'circuit_is_listed_pauli_up_to_phase': bool(abs(abs(np.trace(rp.dense((0, head)).conj().T @ u)) - 2**m) < 1e-9) if 0 < m <= 6 else None},
                  point=P_STAB)

    def post_parse(self, c):
        if c.exc is not None:
            return
        ctx = self.ctx
        text = c.arg(0, 'str0')
        tag = c.arg(1, 'tag_circuit', True)
        try:
            letters = rq.listed_letters(text)
        except (ValueError, TypeError):
            return  # not a Pauli string of the two documented notations
        self.recorded.append({'str': text, 'letters': letters, 'ret': c.result, 'tag': bool(tag)})
        self.keep.append(c.result)
        if tag:
            self.listed_of[id(c.result)] = letters
            self.check_circuit(text, letters, c.result)
        else:
            # gate-list form: (sigma matrix, qubit) for the non-identity letters, in the order they are listed
            if '0' <= text[-1] <= '9':
                import re
                want = [(it[0], int(it[1:])) for it in re.findall('[XYZI][0-9]+', text) if it[0] != 'I']
            else:
                want = [(ch, q) for q, ch in enumerate(text) if ch != 'I']
            res = c.result
            ok = isinstance(res, (list, tuple)) and len(res) == len(want)
            if ok:
                for (op, q), (ch, wq) in zip(res, want):
                    ok = ok and letter_of(op) == ch and int(q) == wq
            ctx.check(ok, 'parser/gate-list-not-listed-pauli', 'parse_simple_pauli(tag_circuit=False) is not the list of (sigma, qubit) of the string',
                      {'listed': text, 'want': want, 'got': repr(res)[:200]})

    # ------------------------------------------------------------ code description
    def pre_gen(self, c):
        return len(self.recorded)

    def make_post_gen(self, tag):
        spec = CODES[tag]

        def post(c):
            if c.exc is not None:
                return
            ctx = self.ctx
            ret = c.result
            ok = isinstance(ret, dict) and all(k in ret for k in ('encode', 'stabilizer', 'num_qubit', 'num_logical_dim', 'distance'))
            if not ctx.check(ok, 'code/malformed-description', 'generate_code*() must return encode, stabilizer, num_qubit, num_logical_dim, distance',
                             {'code': tag, 'keys': sorted(ret) if isinstance(ret, dict) else repr(ret)[:100]}):
                return
            got = (ret['num_qubit'], ret['num_logical_dim'], ret['distance'])
            ctx.check(got == (spec['n'], spec['K'], spec['d']), 'code/parameters', 'parameters of the description differ from the shipped ((n,K,d))',
                      {'code': tag, 'got': list(got), 'expected': [spec['n'], spec['K'], spec['d']]})
            new = self.recorded[c.snap:] if c.snap is not None else []
            stabs = list(ret['stabilizer'])
            same = len(new) == len(stabs) and len(stabs) > 0 and all(a['ret'] is b for a, b in zip(new, stabs)) and all(a['tag'] for a in new)
            listed = None
            if not same:
                ctx.inconclusive('stabilizer circuits were not the results of parse_simple_pauli: listed strings unknown')
            else:
                listed = [a['letters'] for a in new]
                ctx.check(all(len(s) == spec['n'] for s in listed), 'stabilizer/listed-length', 'a listed stabilizer string does not have n letters',
                          {'code': tag, 'listed': listed})
                ctx.check(len(set(listed)) == len(listed) and all(rp.weight(s) > 0 for s in listed), 'stabilizer/identity-or-repeated',
                          'listed stabilizers contain the identity or a repetition', {'code': tag, 'listed': listed})
                for a, b in itertools.combinations(listed, 2):
                    if len(a) == len(b):
                        ctx.check(rp.commute((0, a), (0, b)), 'stabilizer/not-commuting/' + tag, 'two listed stabilizers anticommute',
                                  {'code': tag, 'a': a, 'b': b})
            rec = {'tag': tag, 'n': spec['n'], 'K': spec['K'], 'd': spec['d'], 'listed': listed, 'name': ret.get('name', tag)}
            self.encoders[id(ret['encode'])] = rec
            self.keep.append(ret)

        return post

    # ------------------------------------------------------------ code words
    def post_code_np(self, c):
        if c.exc is not None:
            return
        ctx = self.ctx
        circ = c.arg(0, 'circ')
        k = int(c.arg(1, 'num_logical_dim'))
        out = np.asarray(c.result)
        gates, n = gate_program(circ)
        if gates is None:
            ctx.inconclusive('generate_code_np on a circuit with non-unitary gates: reference simulator not applicable')
            return
        rec = self.encoders.get(id(circ))
        label = rec['tag'] if rec else 'other'
        if not ctx.check(out.shape == (k, 2**n), 'codewords/shape', 'generate_code_np must return K vectors of length 2^n',
                         {'code': label, 'shape': list(out.shape), 'K': k, 'n': n}):
            return
        shipped = rec is not None and k == rec['K'] and n == rec['n']
        # history: which shipped codes were generated earlier in this process, and was this one fine then?
        before = [t for t, _ in self.generations]
        fine_before = shipped and label in self.first_words
        suffix = '/' + label + ('/after-other-code' if fine_before and any(t != label for t in before) else '')
        hist = {'code': label, 'generated_before_in_this_process': before[-12:], 'same_code_was_orthonormal_earlier': bool(fine_before)}
        gram_dev = float(np.abs(rq.gram(out) - np.eye(k)).max())
        self.worst('gram_minus_identity', gram_dev if np.isfinite(gram_dev) and gram_dev <= TOL else 0.0)
        orth = ctx.check(np.isfinite(gram_dev) and gram_dev <= TOL, 'codewords/not-orthonormal' + suffix, 'code words are not orthonormal',
                         lambda: {**hist, 'max_abs_gram_minus_identity': gram_dev, 'gram_diagonal': np.diagonal(rq.gram(out))[:8]})
        basis = np.zeros((k, 2**n), dtype=np.complex128)
        basis[np.arange(k), np.arange(k)] = 1
        ctx.close(out, rq.run_gate_list(gates, n, basis), TOL, 'codewords/not-encoder-image' + suffix,
                  'code words differ from the reference simulation of the encoding circuit on |i>', hist)
        if shipped:
            if fine_before:
                first = self.first_words[label]
                ctx.check(first.shape == out.shape and float(np.abs(first - out).max()) <= 1e-12, 'codewords/differ-from-earlier-generation/' + label,
                          'the same shipped code generated again in the same process gives different code words',
                          lambda: {**hist, 'max_abs_diff': float(np.abs(first - out).max()) if first.shape == out.shape else None}, point=P_HIST)
            elif orth:
                self.first_words[label] = out.copy()
            self.generations.append((label, 'ok' if orth else 'not-orthonormal'))
            ctx.extra['generation_history'] = [f'{t}:{v}' for t, v in self.generations][-150:]
            if orth:
                self.judge_code(rec, out)

    def judge_code(self, rec, code):
        ctx = self.ctx
        tag, n, d = rec['tag'], rec['n'], rec['d']
        dg = digest(code)
        self.by_digest[dg] = rec
        if (tag, dg) in self.judged:
            return
        self.judged.add((tag, dg))
        info = ctx.extra['codes'].setdefault(tag, {})
        info['codewords_complex'] = bool(np.abs(code.imag).max() > 1e-12)
        # ---- listed Paulis fix every code word with eigenvalue +1
        worst_fix = 0.0
        nst = 0
        for s in (rec['listed'] or []):
            if len(s) != n:
                continue
            ctx.set_case({'code': rec['name'], 'stabilizer': s})
            ctx.case('stabilizer', tag, s, nontrivial=rp.weight(s) > 0)
            dev = float(np.abs(rq.apply_pauli(code, s) - code).max())
            worst_fix = max(worst_fix, dev)
            nst += 1
            ctx.check(dev <= TOL, 'stabilizer/does-not-fix-codeword/' + tag, 'a listed stabilizer does not fix every code word with eigenvalue +1',
                      lambda: {'code': rec['name'], 'listed': s, 'max_abs_dev': dev,
                               'expectation_per_codeword': [complex(np.vdot(q, rq.apply_pauli(q, s))) for q in code][:8]}, point=P_FIX)
        info['stabilizers_checked'] = nst
        info['worst_stabilizer_dev'] = worst_fix
        # ---- Knill-Laflamme for every error below the distance
        errs = rq.errors_below_distance(n, d)
        worst_off = 0.0
        worst_spread = 0.0
        n_nonzero = 0
        pick = int(ctx.rng.integers(len(errs)))
        for i, e in enumerate(errs):
            ctx.set_case({'code': rec['name'], 'error': e})
            ctx.case('kl', tag, e, nontrivial=True)
            m = rq.kl_matrix(code, e)
            off, spread = rq.kl_defect(m)
            worst_off = max(worst_off, off)
            worst_spread = max(worst_spread, spread)
            c_e = complex(np.diagonal(m).mean())
            if abs(c_e) > 0.5:
                n_nonzero += 1
            ctx.check(off <= TOL, 'knill-laflamme/off-diagonal/' + tag, '<i|E|j> != 0 for i != j and an error E below the distance',
                      lambda: {'code': rec['name'], 'error': e, 'weight': rp.weight(e), 'max_offdiag': off, 'matrix': m[:4, :4]}, point=P_KL)
            ctx.check(spread <= TOL, 'knill-laflamme/diagonal-not-constant/' + tag, '<i|E|i> depends on i for an error E below the distance',
                      lambda: {'code': rec['name'], 'error': e, 'weight': rp.weight(e), 'diagonal': np.diagonal(m)[:8]}, point=P_KL)
            if i == pick:
                ctx.sample({'code': rec['name'], 'error': e, 'c_E': c_e, 'max_offdiag': off, 'diag_spread': spread,
                            'listed_stabilizers': rec['listed'], 'note': f'all {len(errs)} errors of weight 1..{d - 1} were applied to all {rec["K"]} code words'})
        ctx.workload('exhaustive', len(errs))
        info.update({'errors_enumerated': len(errs), 'worst_kl_offdiag': worst_off, 'worst_kl_diag_spread': worst_spread,
                     'errors_with_nonzero_c_E': n_nonzero})
        ctx.set_case({'code': rec['name']})

    # ------------------------------------------------------------ check_stabilizer
    def post_check_stabilizer(self, c):
        if c.exc is not None:
            return
        ctx = self.ctx
        stabs = list(c.arg(0, 'stabilizer_circ_list'))
        code = c.arg(1, 'code')
        rows = [np.asarray(q) for q in code]
        res = np.asarray(c.result)
        if not ctx.check(res.shape == (len(rows), len(stabs)), 'check_stabilizer/shape', 'result must be (code words, stabilizers)',
                         {'shape': list(res.shape), 'want': [len(rows), len(stabs)]}):
            return
        for j, circ in enumerate(stabs):
            s = self.listed_of.get(id(circ))
            if s is None:
                ctx.inconclusive('check_stabilizer on a circuit that did not come from the parser')
                continue
            if any(q.shape != (2**len(s),) for q in rows):
                continue
            want = np.array([np.vdot(q, rq.apply_pauli(q, s)) for q in rows])
            ctx.close(res[:, j], want, TOL, 'check_stabilizer/value', '<c|circuit|c> differs from <c|listed Pauli|c> of the reference', {'listed': s})
        try:
            arr = np.stack(rows)
        except ValueError:
            return
        rec = self.by_digest.get(digest(np.asarray(code))) or self.by_digest.get(digest(arr))
        if rec is not None:
            ctx.check(float(np.abs(res - 1).max()) <= TOL, 'stabilizer/check_stabilizer-not-plus-one/' + rec['tag'],
                      'check_stabilizer of a shipped code with its own stabilizers is not +1', {'code': rec['name'], 'got': res})

    # ------------------------------------------------------------ KL inner product
    def post_klip(self, c):
        if c.exc is not None:
            return
        ctx = self.ctx
        q0 = c.arg(0, 'q0')
        ops = c.arg(1, 'op_list')
        backend = 'torch' if is_torch(q0) else 'numpy'
        q = to_numpy(q0)
        if q.ndim != 2:
            return
        k = q.shape[0]
        res = to_numpy(c.result)
        ctx.check(is_torch(c.result) == (backend == 'torch'), f'kl-inner-product/backend/{backend}', 'result is not of the backend of the input', None)
        ref = np.zeros((len(ops), k, k), dtype=np.complex128)
        qc = q.conj()
        for i, seq in enumerate(ops):
            q1 = q
            for ind, op in seq:
                q1 = rq.apply_op(q1, to_numpy(op), list(ind))
            ref[i] = qc @ q1.T
        scale = 1.0 + (float(np.abs(ref).max()) if ref.size else 0.0)
        self.last_klip = (backend, q.copy(), len(ops))
        if res.shape == ref.shape and ref.size:
            self.worst(f'kl_inner_product_{backend}_err_over_scale', float(np.abs(res - ref).max()) / scale)
            # every entry is bounded a priori by max_i|c_i|^2 prod||op||_2 (computed from the input): rounding is relative to THAT,
            # so inputs of tiny / huge magnitude are judged as sharply as ordinary ones
            bound = rq.klip_bound(q, ops)
            dev = np.abs(res - ref).reshape(len(ops), -1).max(axis=1)
            with np.errstate(all='ignore'):
                ratio = np.where(bound > 0, dev / np.where(bound > 0, bound, 1.0), np.where(dev > 0, np.inf, 0.0))
            worst = float(ratio.max())
            self.worst(f'kl_inner_product_{backend}_err_over_input_bound', worst if worst <= TOL_REL else 0.0)
            ctx.check(bool(np.all(np.isfinite(res))) and worst <= TOL_REL, f'kl-inner-product/value-relative-to-input-scale/{backend}',
                      f'knill_laflamme_inner_product ({backend} path) differs from the reference by more than 1e-11 x (max|c_i|^2 prod||op||_2)',
                      lambda: {'backend': backend, 'K': k, 'dim': q.shape[1], 'n_sequences': len(ops), 'worst_sequence': int(np.argmax(ratio)),
                               'err_over_bound': worst, 'bound_of_that_sequence': float(bound[int(np.argmax(ratio))]),
                               'max_abs_state': float(np.abs(q).max())})
        ctx.close(res, ref, TOL * scale, f'kl-inner-product/value/{backend}',
                  f'knill_laflamme_inner_product ({backend} path) differs from <c_i| E |c_j> of the reference',
                  lambda: {'backend': backend, 'K': k, 'dim': q.shape[1], 'n_sequences': len(ops),
                           'first_bad_sequence': int(np.argmax(np.abs(res - ref).reshape(len(ops), -1).max(axis=1))) if res.shape == ref.shape else None})

    # ------------------------------------------------------------ error sets
    def compare_sets(self, got, ref, variant, info, missing_key=None):
        ctx = self.ctx
        bad = sum(1 for g in got if g is None)
        ctx.check(bad == 0, f'error-set/{variant}/malformed-element', 'an element of the error set is not a placement of X/Y/Z on distinct qubits',
                  {**info, 'malformed': bad})
        good = [g for g in got if g is not None]
        cnt = collections.Counter(good)
        refset = set(ref)
        dup = sorted(s for s, m in cnt.items() if m > 1)
        missing = sorted(refset - set(cnt))
        extra = sorted(set(cnt) - refset)
        mk = f'error-set/{variant}/missing'
        if missing and missing_key is not None:
            mk = missing_key(missing) or mk
        ctx.check(not missing, mk, 'the generated error set misses operators the documented rule includes',
                  {**info, 'n_missing': len(missing), 'missing': missing[:12], 'n_reference': len(ref), 'n_got': len(got)})
        ctx.check(not dup, f'error-set/{variant}/duplicate', 'the generated error set contains an operator more than once',
                  {**info, 'n_duplicated': len(dup), 'duplicated': dup[:12]})
        ctx.check(not extra, f'error-set/{variant}/extra', 'the generated error set contains operators outside the documented rule',
                  {**info, 'n_extra': len(extra), 'extra': extra[:12], 'n_reference': len(ref), 'n_got': len(got)})

    def post_error_list(self, c):
        if c.exc is not None:
            return
        ctx = self.ctx
        n = int(c.arg(0, 'num_qubit'))
        d = int(c.arg(1, 'distance'))
        op_list = c.arg(2, 'op_list', None)
        full = bool(c.arg(3, 'tag_full', False))
        res = c.result
        if op_list is not None and sorted(str(letter_of(o)) for o in op_list) != ['X', 'Y', 'Z']:
            want = sum(math.comb(n, w) * len(op_list)**w for w in range(1, d))
            ctx.check(len(res) == want, 'error-set/symmetric/count-custom-ops', 'number of generated operators != sum_w C(n,w) m^w',
                      {'n': n, 'd': d, 'm': len(op_list), 'got': len(res), 'want': want})
            return
        info = {'n': n, 'd': d, 'form': 'dense' if full else 'list'}
        if full:
            if n > 7:
                ctx.inconclusive('dense error list for n>7 not decoded')
                return
            got = [rq.decode_pauli_matrix(m) for m in res]
        else:
            got = [seq_to_letters(e, n) for e in res]
        self.compare_sets(got, rq.errors_below_distance(n, d), 'symmetric', info)

    def post_asym(self, c):
        if c.exc is not None:
            return
        ctx = self.ctx
        n = int(c.arg(0, 'num_qubit'))
        d = int(c.arg(1, 'distance'))
        cz = c.arg(2, 'weight_z', 1)
        if n > 7:
            ctx.inconclusive('asymmetric error set for n>7: reference filter over 4^n strings not run')
            return
        got = [seq_to_letters(e, n) for e in c.result]
        fz = fractions.Fraction(float(cz))  # the exact value of the float that was passed
        if any(0 < abs(a + fz * b - d) < fractions.Fraction(1, 10**13) for a in range(n + 1) for b in range(n + 1 - a)):
            ctx.inconclusive('asymmetric error set: n_x+n_y+c_z n_z within 1e-13 of the bound without being equal (decided by rounding)')
            return
        ref = rq.asymmetric_errors(n, d, float(cz))

        def missing_key(missing):
            if n < d and all(s.count('X') + s.count('Y') == n for s in missing):
                return 'error-set/asymmetric/missing-full-xy-support-when-n<d'
            return None

        self.compare_sets(got, ref, 'asymmetric', {'n': n, 'd': d, 'weight_z': float(cz)}, missing_key=missing_key)

    # ------------------------------------------------------------ enumerators
    def post_qwe(self, c):
        if c.exc is not None:
            return
        ctx = self.ctx
        code = np.asarray(c.arg(0, 'code'))
        if code.ndim != 2:
            return
        k, dim = code.shape
        n = rq.num_qubit_of(dim)
        res = c.result
        ok = isinstance(res, tuple) and len(res) == 2 and np.shape(res[0]) == (n,) and np.shape(res[1]) == (n,)
        if not ctx.check(ok, 'enumerator/shape', 'quantum_weight_enumerator must return (A_1..A_n, B_1..B_n)', {'n': n, 'got': repr(res)[:200]}):
            return
        a, b = np.asarray(res[0], dtype=np.float64), np.asarray(res[1], dtype=np.float64)
        if np.abs(rq.gram(code) - np.eye(k)).max() > TOL:
            ctx.inconclusive('enumerator called with rows that are not orthonormal: sum rules do not apply')
            return
        rec = self.by_digest.get(digest(code))
        label = rec['tag'] if rec else f'K{k}n{n}'
        info = {'code': label, 'K': k, 'n': n, 'A': a, 'B': b}
        ctx.check(bool(np.all(np.isfinite(a)) and np.all(np.isfinite(b)) and a.min() >= -1e-9 and b.min() >= -1e-9), 'enumerator/negative-or-nan',
                  'enumerator coefficients must be finite and non-negative', info)
        ctx.check(abs(1 + a.sum() - 2**n / k) <= 1e-8 * 2**n, 'enumerator/sum-rule/A', '1 + sum_w A_w != 2^n / K', {**info, 'got': 1 + a.sum(), 'want': 2**n / k})
        ctx.check(abs(1 + b.sum() - 2**n * k) <= 1e-8 * 2**n * k, 'enumerator/sum-rule/B', '1 + sum_w B_w != 2^n K', {**info, 'got': 1 + b.sum(), 'want': 2**n * k})
        ctx.check(bool(np.all(a <= b + 1e-8 * (1 + np.abs(b)))), 'enumerator/A>B', 'A_w <= B_w violated', info)
        if rec is not None and rec['d'] > 1:
            lo = rec['d'] - 1
            ctx.check(float(np.abs(a[:lo] - b[:lo]).max()) <= 1e-8, 'enumerator/A!=B-below-distance/' + rec['tag'], 'A_w = B_w for w<d violated', {**info, 'd': rec['d']})
        if n <= self.enum_ref_max_n:
            ra, rb = rq.weight_enumerators(code)
            sc = 1e-9 * (1 + float(rb.max()))
            ctx.close(a, ra[1:], sc, 'enumerator/value/A', 'A_w differs from the reference enumeration of all 4^n Pauli strings', info)
            ctx.close(b, rb[1:], sc, 'enumerator/value/B', 'B_w differs from the reference enumeration of all 4^n Pauli strings', info)
            ctx.workload('exhaustive', 4**n)
        else:
            ctx.inconclusive('enumerator values not compared with the reference (n above the reference limit of this tier); sum rules were')
        ctx.extra.setdefault('enumerators', {})[label] = {'A': [round(float(x), 9) for x in a], 'B': [round(float(x), 9) for x in b]}

    # ------------------------------------------------------------ KL loss
    def post_loss(self, c):
        if c.exc is not None:
            return
        ctx = self.ctx
        ip0 = c.arg(0, 'inner_product')
        kind = c.arg(1, 'kind', 'L2')
        backend = 'torch' if is_torch(ip0) else 'numpy'
        ip = to_numpy(ip0)
        if ip.ndim != 3 or ip.shape[1] != ip.shape[2] or kind not in ('L1', 'L2'):
            return
        try:
            got = complex(to_numpy(c.result).reshape(()))
        except Exception:
            ctx.check(False, f'kl-loss/not-a-scalar/{backend}', 'knill_laflamme_loss did not return a scalar', {'got': repr(c.result)[:100]})
            return
        want, scale = rq.kl_loss(ip, kind)
        tol = TOL_REL * scale
        dev = abs(got - want)
        ok = bool(np.isfinite(dev)) and dev <= tol and abs(got.imag) == 0
        self.worst(f'kl_loss_{backend}_{kind}_err_over_scale', dev / scale if (scale > 0 and ok) else 0.0)
        ctx.check(ok, f'kl-loss/value/{backend}/{kind}',
                  f'knill_laflamme_loss ({backend}, {kind}) differs from sum_E [sum_(i<j) h|M_ij| + sum_i h|M_ii - mean|] of the reference '
                  '(tolerance 1e-11 x sum h|M_ij| of the input)',
                  lambda: {'backend': backend, 'kind': kind, 'shape': list(ip.shape), 'got': got, 'want': want, 'input_scale': scale,
                           'max_abs_entry': float(np.abs(ip).max()) if ip.size else 0.0})

    # ------------------------------------------------------------ code-name parser
    def post_name(self, c):
        if c.exc is not None:
            return
        ctx = self.ctx
        text = c.arg(0, 'str_qecc')
        try:
            n, k, w, d = rq.parse_code_name(text)
        except (ValueError, TypeError):
            return
        res = c.result
        ok = isinstance(res, dict) and all(key in res for key in ('num_qubit', 'num_logical_dim', 'weight_z', 'distance'))
        if not ctx.check(ok, 'code-name/malformed', 'parse_str_qecc must return num_qubit, num_logical_dim, weight_z, distance', {'name': text, 'got': repr(res)[:200]}):
            return
        got = (res['num_qubit'], res['num_logical_dim'], res['weight_z'], res['distance'])
        same = got[0] == n and got[1] == k and got[3] == d and ((w is None and got[2] is None) or (w is not None and got[2] is not None and float(got[2]) == w))
        ints = all(isinstance(x, (int, np.integer)) and not isinstance(x, bool) for x in (got[0], got[1], got[3]))
        ctx.check(same and ints, 'code-name/parameters', "parse_str_qecc does not return the (n, K, weight_z, d) written in the name",
                  {'name': text, 'got': repr(got), 'want': repr((n, k, w, d))})

    # ------------------------------------------------------------ degeneracy
    def post_degeneracy(self, c):
        if c.exc is not None:
            return
        ctx = self.ctx
        st = np.asarray(c.arg(0, 'code_i'))
        if st.ndim != 1:
            return
        want = rq.degeneracy_spectrum(st)
        res = np.sort(np.asarray(c.result, dtype=np.float64).reshape(-1))
        nrm = float(np.vdot(st, st).real)
        ctx.close(res, want, TOL * (1 + nrm) * len(want), 'degeneracy/spectrum',
                  'degeneracy() differs from the spectrum of the Gram matrix of {E|c>: E identity or weight-1 Pauli} of the reference',
                  {'n': rq.num_qubit_of(st.shape[0]), 'norm2': nrm})


def install(ctx, numqi):
    mon = Mon(ctx, numqi)
    Q = numqi.qec._qecc
    I = numqi.qec._internal
    ctx.attach(Q, 'parse_simple_pauli', post=mon.post_parse, point=P_PARSE)
    for tag, spec in CODES.items():
        ctx.attach(Q, spec['fn'], pre=mon.pre_gen, post=mon.make_post_gen(tag), point=P_GEN)
    ctx.attach(I, 'generate_code_np', post=mon.post_code_np, point=P_NP)
    ctx.attach(I, 'check_stabilizer', post=mon.post_check_stabilizer, point=P_CHK)
    ctx.attach(I, 'knill_laflamme_inner_product', post=mon.post_klip, point=P_KLIP)
    ctx.attach(I, 'make_error_list', post=mon.post_error_list, point=P_EL)
    ctx.attach(I, 'make_asymmetric_error_set', post=mon.post_asym, point=P_AS)
    ctx.attach(I, 'quantum_weight_enumerator', post=mon.post_qwe, point=P_QWE)
    ctx.attach(numqi.qec._varqec, 'knill_laflamme_loss', post=mon.post_loss, point=P_LOSS)
    ctx.attach(Q, 'parse_str_qecc', post=mon.post_name, point=P_NAME)
    ctx.attach(I, 'degeneracy', post=mon.post_degeneracy, point=P_DEG)
    return mon


# ----------------------------------------------------------------------------------------------- workloads
def run_code(ctx, numqi, torch, mon, tag, enumerator):
    spec = CODES[tag]
    qec = numqi.qec
    n, k, d = spec['n'], spec['K'], spec['d']
    ctx.workload('realistic')
    ctx.set_case({'code': tag})
    with ctx.guard('code/' + tag):
        desc = getattr(qec, spec['fn'])()
        code = qec.generate_code_np(desc['encode'], desc['num_logical_dim'])  # post: orthonormal, stabilizers fix, KL for every error
        qec.check_stabilizer(desc['stabilizer'], code)
        errs = qec.make_error_list(n, d)
        ip = qec.knill_laflamme_inner_product(code, errs)
        ip_t = qec.knill_laflamme_inner_product(torch.tensor(code, dtype=torch.complex128), errs)
        ctx.close(ip_t, ip, 1e-12, 'kl-inner-product/torch!=numpy', 'torch and numpy paths of knill_laflamme_inner_product disagree',
                  {'code': tag, 'n_errors': len(errs)}, point=P_TORCH)
        ctx.case('klip-code', tag, 'numpy+torch')
        # the library's own Knill-Laflamme loss of a shipped code with its own error list must vanish (value itself judged by post_loss)
        for kind in ('L2', 'L1'):
            lv = float(qec.knill_laflamme_loss(ip, kind))
            lt = float(qec.knill_laflamme_loss(ip_t, kind))
            ctx.check(bool(np.isfinite(lv)) and abs(lv) <= TOL * len(errs) * k * k, f'knill-laflamme/loss-not-zero/{kind}/' + tag,
                      'knill_laflamme_loss of a shipped code with every error below its distance is not zero', {'code': tag, 'kind': kind, 'loss': lv})
            ctx.check(abs(lt - lv) <= TOL * len(errs) * k * k, f'kl-loss/torch!=numpy/{kind}', 'torch and numpy paths of knill_laflamme_loss disagree',
                      {'code': tag, 'kind': kind, 'numpy': lv, 'torch': lt}, point=P_TORCH)
        if enumerator:
            qec.quantum_weight_enumerator(code)
            ctx.case('enumerator', tag)
            if tag == '442':
                # three of the four code words: K is not a power of two (the enumerator pads the logical register)
                ctx.set_case({'code': tag, 'subcode': 'first 3 code words'})
                qec.quantum_weight_enumerator(code[:3].copy())
                ctx.case('enumerator', tag, 'K=3')
            if tag == '523':
                ctx.set_case({'code': tag, 'subcode': 'first code word'})
                qec.quantum_weight_enumerator(code[:1].copy())
                ctx.case('enumerator', tag, 'K=1')
    info = ctx.extra['codes'].setdefault(tag, {})
    info['observed'] = {'n': n, 'K': k, 'd': d}


def run_enum(ctx, numqi, mon, tag):
    spec = CODES[tag]
    qec = numqi.qec
    ctx.workload('realistic')
    ctx.set_case({'code': tag, 'op': 'enumerator'})
    with ctx.guard('enumerator/' + tag):
        desc = getattr(qec, spec['fn'])()
        code = qec.generate_code_np(desc['encode'], desc['num_logical_dim'])
        qec.quantum_weight_enumerator(code)
        ctx.case('enumerator', tag)


def run_errorsets(ctx, numqi, shard):
    qec = numqi.qec
    thorough = ctx.tier == 'thorough'
    nmax, dmax = (7, 5) if thorough else (6, 4)
    zws = ZW_THOROUGH if thorough else ZW_QUICK
    jobs = []
    for n in range(1, nmax + 1):
        for d in range(2, dmax + 1):
            jobs.append(('sym', n, d, None))
            for cz in zws:
                jobs.append(('asym', n, d, cz))
    part, nparts = shard.get('part', 0), shard.get('nparts', 1)
    sizes = {}
    for i, (kind, n, d, cz) in enumerate(jobs):
        if i % nparts != part:
            continue
        ctx.workload('exhaustive')
        if kind == 'sym':
            nref = len(rq.errors_below_distance(n, d))
            for full in (False, True):
                ctx.set_case({'op': 'make_error_list', 'n': n, 'd': d, 'tag_full': full})
                ctx.case('error-set', 'sym', n, d, full, nontrivial=nref > 0)
                with ctx.guard('make_error_list'):
                    qec.make_error_list(n, d, tag_full=full)
            ctx.set_case({'op': 'make_error_list', 'n': n, 'd': d, 'op_list': 'explicit [Z, X, Y]'})
            with ctx.guard('make_error_list'):
                qec.make_error_list(n, d, op_list=[numqi.gate.Z, numqi.gate.X, numqi.gate.Y])
                if n <= 4:
                    qec.make_error_list(n, d, op_list=[numqi.gate.X, numqi.gate.H])  # custom operators: count only
            sizes[f'sym n={n} d={d}'] = nref
        else:
            nref = len(rq.asymmetric_errors(n, d, cz))
            if n < d:
                ctx.workload('corner')
            ctx.set_case({'op': 'make_asymmetric_error_set', 'n': n, 'd': d, 'weight_z': cz})
            ctx.case('error-set', 'asym', n, d, cz, nontrivial=nref > 0)
            with ctx.guard('make_asymmetric_error_set'):
                if cz == 1 and (n + d) % 2 == 0:
                    qec.make_asymmetric_error_set(n, d)  # default weight
                else:
                    qec.make_asymmetric_error_set(n, d, weight_z=cz)
            sizes[f'asym n={n} d={d} cz={cz}'] = nref
    ctx.extra['reference_set_sizes'] = {'count': len(sizes), 'largest': max(sizes.values()) if sizes else 0,
                                        'examples': dict(list(sizes.items())[:8])}
    ctx.sample({'op': 'make_asymmetric_error_set', 'n': 4, 'd': 3, 'weight_z': 1.5, 'reference': sorted(rq.asymmetric_errors(4, 3, 1.5))[:10],
                'reference_size': len(rq.asymmetric_errors(4, 3, 1.5))})


def build_ansatz(numqi, num_depth, num_qubit, rng):
    circ = numqi.sim.Circuit(default_requires_grad=True)
    for _ in range(num_depth):
        for x in range(num_qubit):
            circ.u3(x, args=tuple(rng.uniform(0, 2 * np.pi, size=3)))
        for x in range(num_qubit):
            circ.cu3(x, (x + 1) % num_qubit, args=tuple(rng.uniform(0, 2 * np.pi, size=3)))
    return circ


def run_klip(ctx, numqi, torch, shard):
    qec = numqi.qec
    rng = ctx.rng
    paulis = {'X': numqi.gate.X, 'Y': numqi.gate.Y, 'Z': numqi.gate.Z}

    def randc(*shape):
        return rng.normal(size=shape) + 1j * rng.normal(size=shape)

    ctx.workload('random')
    for it in range(shard.get('reps', 40)):
        n = int(rng.integers(2, 6))
        k = int(rng.choice([1, 2, 4]))
        kind = ['complex', 'real', 'orthonormal', 'imaginary-phase'][it % 4]
        q = randc(k, 2**n)
        if kind == 'real':
            q = q.real.astype(np.complex128)
        elif kind == 'orthonormal':
            q = np.linalg.qr(randc(2**n, k))[0].T.copy()
        elif kind == 'imaginary-phase':
            q = 1j * q.real
        seqs = []
        for _ in range(int(rng.integers(2, 7))):
            style = int(rng.integers(6))
            if style == 0:  # random complex single-qubit operators, possibly twice on the same qubit (order matters)
                seqs.append([([int(rng.integers(n))], randc(2, 2)) for _ in range(int(rng.integers(1, 4)))])
            elif style == 1:  # Pauli placement
                pos = rng.choice(n, size=int(rng.integers(1, n + 1)), replace=False)
                seqs.append([([int(p)], paulis[str(rng.choice(list('XYZ')))]) for p in pos])
            elif style == 2:  # two-qubit operator, descending / ascending qubit order
                a, b = rng.choice(n, size=2, replace=False)
                seqs.append([([int(a), int(b)], randc(4, 4))])
            elif style == 3:  # non-commuting Paulis on one qubit: X then Z is not Z then X
                p = int(rng.integers(n))
                seqs.append([([p], paulis['X']), ([p], paulis['Z']), ([int(rng.integers(n))], paulis['Y'])])
            elif style == 4:  # non-Hermitian, non-unitary
                seqs.append([([int(rng.integers(n))], np.array([[0, 1], [0, 0]], dtype=np.complex128))])
            else:  # the identity (empty sequence), as numqi.qec.degeneracy uses it
                seqs.append([])
        if all(len(s) == 0 for s in seqs):
            seqs.append([([0], randc(2, 2))])
        ctx.set_case({'op': 'knill_laflamme_inner_product', 'n': n, 'K': k, 'state': kind, 'sequence_lengths': [len(s) for s in seqs]})
        ctx.case('klip', n, k, kind, q, [[(list(i), np.asarray(o)) for i, o in s] for s in seqs], nontrivial=bool(np.abs(q).max() > 0))
        with ctx.guard('knill_laflamme_inner_product'):
            a = qec.knill_laflamme_inner_product(q, seqs)
            qt = torch.tensor(q, dtype=torch.complex128, requires_grad=bool(it % 2))
            b = qec.knill_laflamme_inner_product(qt, seqs)
            sc = 1 + float(np.abs(a).max())
            ctx.close(b, a, 1e-12 * sc, 'kl-inner-product/torch!=numpy', 'torch and numpy paths of knill_laflamme_inner_product disagree',
                      {'n': n, 'K': k, 'state': kind}, point=P_TORCH)
        if it == 0:
            ctx.sample({'op': 'knill_laflamme_inner_product', 'n': n, 'K': k, 'state_kind': kind, 'state': q,
                        'sequences': [[[list(i), np.asarray(o)] for i, o in s] for s in seqs][:3]})
    # asymmetric error sets through the inner product (Pauli placements produced by numqi itself)
    ctx.workload('realistic')
    for n, d, cz in [(4, 3, 2), (5, 3, 0.5), (5, 2, 3)]:
        ctx.set_case({'op': 'klip on make_asymmetric_error_set', 'n': n, 'd': d, 'weight_z': cz})
        with ctx.guard('klip/asymmetric'):
            errs = qec.make_asymmetric_error_set(n, d, cz)
            q = np.linalg.qr(randc(2**n, 2))[0].T.copy()
            ctx.case('klip-asym', n, d, cz, q)
            a = qec.knill_laflamme_inner_product(q, errs)
            b = qec.knill_laflamme_inner_product(torch.tensor(q), errs)
            ctx.close(b, a, 1e-12, 'kl-inner-product/torch!=numpy', 'torch and numpy paths disagree on an asymmetric error set', {'n': n, 'd': d, 'cz': cz},
                      point=P_TORCH)
    # the library's own callers: VarQEC (circuit ansatz) and VarQECUnitary (Stiefel ansatz, K=3 padded to 4), forward + backward
    for rep in range(2 if ctx.tier == 'quick' else 8):
        ctx.set_case({'op': 'VarQEC forward/backward', 'rep': rep})
        with ctx.guard('VarQEC'):
            nq = 4 + rep % 2
            errs = qec.make_error_list(nq, 2 + rep % 2)
            model = qec.VarQEC(build_ansatz(numqi, 2, nq, rng), 2, errs, loss_type=['L2', 'L1'][rep % 2])
            loss = model()
            loss.backward()
            lv = float(loss.detach())
            ctx.case('VarQEC', nq, rep, lv)
            ctx.check(bool(np.isfinite(lv)) and lv >= 0, 'varqec/loss-not-finite', 'VarQEC loss is not a finite non-negative number', {'loss': lv})
        ctx.set_case({'op': 'VarQECUnitary forward/backward', 'rep': rep})
        with ctx.guard('VarQECUnitary'):
            kk = [2, 3][rep % 2]
            model = qec.VarQECUnitary(4, kk, qec.make_error_list(4, 2))
            torch.nn.init.normal_(next(model.parameters()))
            loss = model()
            loss.backward()
            ctx.case('VarQECUnitary', kk, rep, float(loss.detach()))
    if ctx.tier == 'thorough':
        ctx.set_case({'op': 'VarQEC optimisation ((5,2,3)), 1 restart, few iterations'})
        with ctx.guard('VarQEC/minimize'):
            errs = qec.make_error_list(5, 3)
            model = qec.VarQEC(build_ansatz(numqi, 3, 5, rng), 2, errs)
            numqi.optimize.minimize(model, theta0=('uniform', 0, 2 * np.pi), num_repeat=1, tol=1e-10, print_freq=0, print_every_round=0,
                                    seed=int(rng.integers(2**31)), maxiter=60)
            code = model.get_code()
            ctx.case('VarQEC-minimize', code)
            qec.knill_laflamme_inner_product(code, errs)


def run_parser(ctx, numqi):
    qec = numqi.qec
    rng = ctx.rng
    nmax = 3 if ctx.tier == 'quick' else 4

    def indexed(s, shuffle=False, drop_identity=True):
        items = [(ch, q) for q, ch in enumerate(s) if not (drop_identity and ch == 'I')]
        if shuffle:
            items = [items[i] for i in rng.permutation(len(items))]
        return ''.join(f'{ch}{q}' for ch, q in items)

    ctx.workload('exhaustive')
    for n in range(1, nmax + 1):
        for s in rp.all_letters(n):
            for tag in (True, False):
                ctx.set_case({'op': 'parse_simple_pauli', 'str': s, 'tag_circuit': tag})
                ctx.case('parser', s, 'letters', tag, nontrivial=rp.weight(s) > 0)
                with ctx.guard('parse_simple_pauli'):
                    qec.parse_simple_pauli(s, tag_circuit=tag)
    ctx.workload('random')
    for it in range(40 if ctx.tier == 'quick' else 300):
        n = int(rng.integers(4, 9))
        s = ''.join(rng.choice(list('IXYZ'), size=n))
        if rp.weight(s) == 0:
            continue
        forms = [(s, None), (indexed(s), None), (indexed(s, shuffle=True), None), (indexed(s, drop_identity=False), True)]
        for f, force in forms:
            # explicit 'I<k>' entries are only driven in the circuit form (the gate-list form has no identity operator to return)
            tag = bool(rng.integers(4) > 0) if force is None else force
            ctx.set_case({'op': 'parse_simple_pauli', 'str': f, 'tag_circuit': tag})
            ctx.case('parser', f, tag, nontrivial=True)
            with ctx.guard('parse_simple_pauli'):
                if tag and it % 2:
                    qec.parse_simple_pauli(f)  # default output form
                else:
                    qec.parse_simple_pauli(f, tag_circuit=tag)
    ctx.workload('corner')
    for f in ['Z10', 'X0Z10', 'Y11X2', 'IIIIIIIIIIX', 'XIIIIIIIIII', 'Z0', 'I0X1', 'Y3I7']:
        ctx.set_case({'op': 'parse_simple_pauli', 'str': f})
        ctx.case('parser', f, True)
        with ctx.guard('parse_simple_pauli'):
            qec.parse_simple_pauli(f)
    ctx.sample({'op': 'parse_simple_pauli', 'examples': ['XIYXX', 'X0Y2X3X4', 'Z10X0', 'I0X1'],
                'checked': 'to_unitary() of the returned circuit, padded with identities, == Kronecker product of the letters (phase included)'})


def run_sequence(ctx, numqi, mon):
    """histories: several shipped codes generated one after the other in ONE process through the public API. Every generation is
    judged by the generate_code_np postcondition (orthonormal, == encoder image, == earlier generation of the same code; stabilizers
    and Knill-Laflamme for every error below the distance whenever the code words are not bit-identical to ones already judged)."""
    qec = numqi.qec
    codes = list(QUICK_CODES) + (['11_2_5'] if ctx.tier == 'thorough' else [])
    perm = [codes[i] for i in ctx.rng.permutation(len(codes))]
    small = [t for t in codes if CODES[t]['n'] <= 8]
    orders = [('listed', codes), ('reverse', codes[::-1]),
              ('equal-n K-down 4', ['442', '422']), ('equal-n K-up 4', ['422', '442']),
              ('equal-n K-down 8', ['8_64_2', '883']), ('equal-n K-up 8', ['883', '8_64_2']),
              ('twice', ['523', '523', '642', '642', '8_64_2', '8_64_2']),
              ('interleaved', ['442', '523', '422', '8_64_2', '642', '883', '442', '422']),
              ('seeded permutation', perm),
              ('seeded permutation of the <=8 qubit codes, reversed K order', sorted(small, key=lambda t: (CODES[t]['n'], -CODES[t]['K'])))]
    ctx.workload('realistic')
    prev = None
    for oname, order in orders:
        for pos, tag in enumerate(order):
            spec = CODES[tag]
            ctx.set_case({'op': 'sequence', 'order': oname, 'position': pos, 'code': tag, 'generated_just_before': prev})
            ctx.case('sequence', oname, pos, tag, prev, nontrivial=prev is not None)
            with ctx.guard('sequence/' + tag):
                desc = getattr(qec, spec['fn'])()
                code = qec.generate_code_np(desc['encode'], desc['num_logical_dim'])
                qec.check_stabilizer(desc['stabilizer'], code)
                if pos == len(order) - 1 and spec['K'] >= 4:
                    # a sub-code of the same encoder (fewer logical states) and then the full code again
                    qec.generate_code_np(desc['encode'], spec['K'] // 2)
                    qec.generate_code_np(desc['encode'], desc['num_logical_dim'])
            prev = tag
    ctx.extra['orders'] = {o: l for o, l in orders}
    ctx.sample({'op': 'sequence', 'orders': {o: l for o, l in orders[:7]},
                'note': 'all generations happen in one process; each is judged by the generate_code_np postcondition'})


def build_ansatz_from(numqi, num_qubit, u3_args, cu3_args):
    """same layout as build_ansatz, angles given per gate (rows in gate order)"""
    circ = numqi.sim.Circuit(default_requires_grad=True)
    depth = len(u3_args) // num_qubit
    for lay in range(depth):
        for x in range(num_qubit):
            circ.u3(x, args=tuple(float(a) for a in u3_args[lay * num_qubit + x]))
        for x in range(num_qubit):
            circ.cu3(x, (x + 1) % num_qubit, args=tuple(float(a) for a in cu3_args[lay * num_qubit + x]))
    return circ


def reference_code_of_circuit(circ, k):
    """code words |i> -> circuit|i>, i<k, by the reference simulator from the gate arrays the circuit holds NOW"""
    prog, n = gate_program(circ)
    if prog is None:
        raise RuntimeError('ansatz holds a gate the reference simulator cannot run')
    basis = np.zeros((k, 2**n), dtype=np.complex128)
    basis[np.arange(k), np.arange(k)] = 1
    return rq.run_gate_list(prog, n, basis), n


def run_secondary(ctx, numqi, torch, mon, shard):
    """less prominent entry points, numerical / shape regimes, torch evaluation modes and object lifecycles (lesson 3)"""
    qec = numqi.qec
    I = numqi.qec._internal
    rng = ctx.rng
    reps = int(shard.get('reps', 1))
    paulis = {'X': numqi.gate.X, 'Y': numqi.gate.Y, 'Z': numqi.gate.Z}

    def randc(*shape):
        return rng.normal(size=shape) + 1j * rng.normal(size=shape)

    def ortho(k, dim):
        return np.linalg.qr(randc(dim, k))[0].T.copy()

    # ---------------------------------------------------------------- (d) code-name parser, and its consumer chain
    ctx.workload('corner')
    names = [CODES[t]['n'] and f"(({CODES[t]['n']},{CODES[t]['K']},{CODES[t]['d']}))" for t in CODES]
    names += ['((6,2,de(2)=4))', '((6,2,de(1.5)=4))', '((7,2,de(0.5)=3))', '((12,16,de(2.5)=10))', '((100,1024,12))', '((4,2,de(3)=2))',
              '((5,6,de(0.25)=2))', '((16,256,de(10)=11))']
    for text in names:
        ctx.set_case({'op': 'parse_str_qecc', 'name': text})
        ctx.case('code-name', text)
        with ctx.guard('parse_str_qecc'):
            r = qec.parse_str_qecc(text)
            if isinstance(r, dict) and r.get('weight_z') is not None and r['num_qubit'] <= 6:
                qec.make_asymmetric_error_set(r['num_qubit'], r['distance'], r['weight_z'])  # judged by post_asym
            elif isinstance(r, dict) and r.get('weight_z') is None and r['num_qubit'] <= 6:
                qec.make_error_list(r['num_qubit'], r['distance'])

    # ---------------------------------------------------------------- (a) asymmetric Z-weights: number types and values next to special ones
    zws = [0.3, 1.1, 0.7, 2.3, 1 - 1e-12, 1 + 1e-12, 2 - 1e-9, 1.5 + 1e-9, 1e-3, 1e-9, 100, 1e9, 2.0, np.float64(1.5), np.int64(2), np.float32(0.5),
           np.float64(2.5), 1 / 3, 2 / 3, 0.1]
    for n, d in [(1, 2), (2, 2), (3, 2), (3, 3), (4, 3), (2, 4), (4, 4), (5, 3), (6, 2)] + ([(5, 4), (6, 3), (6, 4), (7, 3)] if ctx.tier == 'thorough' else []):
        for cz in zws:
            nref = len(rq.asymmetric_errors(n, d, float(cz)))
            ctx.set_case({'op': 'make_asymmetric_error_set', 'n': n, 'd': d, 'weight_z': float(cz), 'weight_type': type(cz).__name__})
            ctx.case('error-set', 'asym-regime', n, d, float(cz), type(cz).__name__, nontrivial=nref > 0)
            with ctx.guard('make_asymmetric_error_set'):
                qec.make_asymmetric_error_set(n, d, cz)

    # ---------------------------------------------------------------- (d) the subset splitter behind the asymmetric sets
    for n in range(0, 6):
        labels = np.arange(n)
        count_lists = [[a] for a in range(n + 1)] + [[a, b] for a in range(n + 1) for b in range(n + 1 - a)]
        if n <= 4:
            count_lists += [[a, b, c] for a in range(n + 1) for b in range(n + 1 - a) for c in range(n + 1 - a - b)]
        if n == 4:
            labels = np.array([7, 3, 5, 1])
        for counts in count_lists:
            ctx.set_case({'op': 'hf_split_element', 'labels': labels, 'num_of_each': counts})
            ctx.case('split', labels, counts, nontrivial=sum(counts) > 0)
            with ctx.guard('hf_split_element'):
                got = list(I.hf_split_element(labels, counts))
            want = rq.split_elements(labels.tolist(), counts)
            try:
                norm = [tuple(tuple(int(v) for v in part) for part in item) for item in got]
            except (TypeError, ValueError):
                norm = None
            ok = norm is not None and collections.Counter(norm) == collections.Counter(want)
            ctx.check(ok, 'error-set/split-element', 'hf_split_element does not give every choice of disjoint subsets of the requested sizes exactly once',
                      {'labels': labels, 'num_of_each': counts, 'n_got': len(got), 'n_want': len(want)}, point=P_SPLIT)

    # ---------------------------------------------------------------- (a)(c)(d) Knill-Laflamme loss: reference value, magnitudes, backends, modes
    ctx.workload('random')
    for it in range(24 * reps):
        ne = int(rng.integers(1, 6))
        k = int(rng.choice([1, 2, 3, 4, 8]))
        content = ['complex', 'hermitian', 'kl-satisfied', 'one-zero-item', 'kl-satisfied-plus-tiny'][it % 5]
        scale = [1.0, 1e-8, 1e-12, 1e5, 1e-6, 1.0][it % 6]
        m = randc(ne, k, k)
        if content == 'hermitian':
            m = m + m.conj().transpose(0, 2, 1)
        elif content == 'kl-satisfied':
            m = randc(ne, 1, 1) * np.eye(k)
        elif content == 'one-zero-item':
            m[int(rng.integers(ne))] = 0
        elif content == 'kl-satisfied-plus-tiny':
            m = randc(ne, 1, 1) * np.eye(k) + 1e-7 * randc(ne, k, k)
        m = m * scale
        for kind in ('L1', 'L2'):
            ctx.set_case({'op': 'knill_laflamme_loss', 'n_errors': ne, 'K': k, 'content': content, 'scale': scale, 'kind': kind})
            ctx.case('kl-loss', ne, k, content, scale, kind, m)
            with ctx.guard('knill_laflamme_loss'):
                a = float(qec.knill_laflamme_loss(m, kind)) if not (kind == 'L2' and it % 2) else float(qec.knill_laflamme_loss(m))
                _, sc = rq.kl_loss(m, kind)
                vals = {}
                vals['torch'] = qec.knill_laflamme_loss(torch.tensor(m), kind)
                tg = torch.tensor(m, requires_grad=True)
                vals['torch-requires-grad'] = qec.knill_laflamme_loss(tg, kind)
                with torch.no_grad():
                    vals['torch-no_grad'] = qec.knill_laflamme_loss(tg, kind)
                for mode, v in vals.items():
                    ctx.check(abs(float(v.detach()) - a) <= TOL_REL * sc, f'kl-loss/torch!=numpy/{kind}', 'torch and numpy paths of knill_laflamme_loss disagree',
                              {'mode': mode, 'kind': kind, 'numpy': a, 'torch': float(v.detach()), 'input_scale': sc}, point=P_MODES)

    # ---------------------------------------------------------------- (a)(b)(c) inner product: shapes, magnitudes, one degenerate item, torch modes
    cases = []
    for n, k in [(1, 1), (1, 2), (2, 4), (3, 8), (4, 8), (4, 2), (6, 2)]:
        cases.append((n, k, 'ordinary', 1.0, 1.0))
    cases += [(3, 2, 'tiny-state', 1e-8, 1.0), (4, 4, 'very-tiny-state', 1e-100, 1.0), (3, 2, 'huge-state', 1e6, 1.0), (3, 4, 'tiny-operators', 1.0, 1e-9),
              (4, 2, 'tiny-state-huge-operators', 1e-7, 1e7), (3, 4, 'one-zero-codeword', 1.0, 1.0), (4, 2, 'one-tiny-codeword', 1.0, 1.0)]
    for rep in range(reps):
        for n, k, regime, sq, sop in cases:
            q = (ortho(k, 2**n) if (rep + n) % 2 else randc(k, 2**n)) * sq
            if regime == 'one-zero-codeword':
                q[int(rng.integers(k))] = 0
            if regime == 'one-tiny-codeword':
                q[int(rng.integers(k))] *= 1e-9
            seqs = [[]]
            for pos in range(n):
                seqs.append([([pos], paulis['XYZ'[pos % 3]])])
            seqs.append([([int(rng.integers(n))], sop * randc(2, 2))])
            seqs.append([([int(rng.integers(n))], np.zeros((2, 2), dtype=np.complex128))])  # the zero operator among ordinary ones
            if n >= 2:
                for a, b in [(0, n - 1), (n - 1, 0)]:
                    seqs.append([([a, b], sop * randc(4, 4))])
            if n >= 3:
                tri = [int(v) for v in rng.choice(n, size=3, replace=False)]
                op3 = sop * randc(8, 8)
                for perm in itertools.permutations(range(3)):  # all six orders of the qubit triple, incl. the 3-cycles (1,2,0), (2,0,1)
                    seqs.append([([tri[i] for i in perm], op3)])
                seqs.append([([tri[1], tri[2], tri[0]], op3), ([tri[0]], paulis['Y']), ([tri[2], tri[0]], sop * randc(4, 4))])
            ctx.set_case({'op': 'knill_laflamme_inner_product', 'n': n, 'K': k, 'regime': regime, 'state_scale': sq, 'operator_scale': sop,
                          'n_sequences': len(seqs)})
            ctx.case('klip-regime', n, k, regime, q, nontrivial=True)
            with ctx.guard('knill_laflamme_inner_product'):
                a = qec.knill_laflamme_inner_product(q, seqs)  # value judged by post_klip relative to the input bound
                bound = rq.klip_bound(q, seqs).reshape(-1, 1, 1)
                outs = {}
                outs['plain'] = qec.knill_laflamme_inner_product(torch.tensor(q), seqs)
                tg = torch.tensor(q, requires_grad=True)
                outs['requires-grad'] = qec.knill_laflamme_inner_product(tg, seqs)
                with torch.no_grad():
                    outs['no_grad'] = qec.knill_laflamme_inner_product(tg, seqs)
                outs['non-contiguous'] = qec.knill_laflamme_inner_product(torch.tensor(np.asfortranarray(q.T)).T, seqs)
                an = np.asarray(a)
                for mode, v in outs.items():
                    vn = to_numpy(v)
                    ok = vn.shape == an.shape and bool(np.all(np.abs(vn - an) <= TOL_REL * bound))
                    ctx.check(ok, 'kl-inner-product/torch!=numpy', 'torch and numpy paths of knill_laflamme_inner_product disagree',
                              {'n': n, 'K': k, 'regime': regime, 'torch_mode': mode}, point=P_MODES)

    # ---------------------------------------------------------------- (b)(d) enumerators of small random codes (every K, complex words), use_tqdm option
    ctx.workload('random')
    enum_cases = [(1, 1), (1, 2), (2, 1), (2, 2), (2, 3), (2, 4), (3, 1), (3, 3), (3, 5), (3, 8), (4, 5)]
    for n, k in enum_cases:
        code = ortho(k, 2**n)
        if (n + k) % 3 == 0:
            code = np.linalg.qr(rng.normal(size=(2**n, k)))[0].T.astype(np.complex128).copy()  # real code words
        ctx.set_case({'op': 'quantum_weight_enumerator', 'n': n, 'K': k, 'code': 'random orthonormal'})
        ctx.case('enumerator-random', n, k, code)
        with ctx.guard('quantum_weight_enumerator'):
            r0 = qec.quantum_weight_enumerator(code)
            if (n, k) in ((2, 2), (2, 3)):
                with open(os.devnull, 'w') as sink, contextlib.redirect_stderr(sink):
                    r1 = qec.quantum_weight_enumerator(code, use_tqdm=True)
                same = all(np.shape(x) == np.shape(y) and np.array_equal(np.asarray(x), np.asarray(y)) for x, y in zip(r0, r1))
                ctx.check(same, 'enumerator/use_tqdm-changes-value', 'quantum_weight_enumerator(use_tqdm=True) differs from use_tqdm=False', {'n': n, 'K': k})

    # ---------------------------------------------------------------- (d) degeneracy: consumer of the error list and of the state simulator
    ctx.workload('realistic')
    with ctx.guard('degeneracy/523'):
        desc = qec.generate_code523()
        code523 = qec.generate_code_np(desc['encode'], 2)
        for i in range(2):
            ctx.set_case({'op': 'degeneracy', 'state': f'code word {i} of ((5,2,3))'})
            ctx.case('degeneracy', '523', i)
            ev = np.asarray(qec.degeneracy(code523[i]))
            # ((5,2,3)) is non-degenerate: E_a^dag E_b has weight <= 2 < d, so the error states are orthonormal
            ctx.check(ev.shape == (16,) and float(np.abs(ev - 1).max()) <= TOL * 16, 'degeneracy/523-not-all-ones',
                      'degeneracy() of a ((5,2,3)) code word: the 16 error states (identity + weight 1) must be orthonormal', {'eigenvalues': ev})
    for n in (1, 2, 3, 4):
        st = randc(2**n)
        st = st / np.linalg.norm(st) if n % 2 else st
        ctx.set_case({'op': 'degeneracy', 'state': 'random', 'n': n})
        ctx.case('degeneracy', n, st)
        with ctx.guard('degeneracy'):
            qec.degeneracy(st)
    with ctx.guard('degeneracy'):
        e0 = np.zeros(8, dtype=np.complex128)
        e0[0] = 1
        ctx.set_case({'op': 'degeneracy', 'state': '|000>'})
        ctx.case('degeneracy', '000')
        qec.degeneracy(e0)

    # ---------------------------------------------------------------- (c)(d)(e) VarQEC: get_code, evaluation modes, copies, in-place updates
    for rep in range(2 * reps):
        nq = 3 + rep % 2
        kk = [2, 3, 4, 1][rep % 4]
        dist = 2
        kind = ['L2', 'L1'][rep % 2]
        nl = {1: 0, 2: 1, 3: 2, 4: 2}[kk]
        th = [rng.uniform(-20, 20, size=(2 * nq, 3)) if rep % 2 else rng.uniform(0, 2 * np.pi, size=(2 * nq, 3)) for _ in range(8)]
        if rep % 3 == 2:
            th[0] = th[0] * 1e-7  # all angles tiny: the encoder is a rounding-level perturbation of the identity
        errs = qec.make_error_list(nq, dist)

        def ref_for(u3, cu3):
            code, _ = reference_code_of_circuit(build_ansatz_from(numqi, nq, u3, cu3), kk)
            lossv, sc = rq.kl_loss(rq.klip(code, errs), kind)
            return code, lossv, sc

        def set_params(model, u3, cu3):
            with torch.no_grad():
                model.circuit_torch.theta['u3'].copy_(torch.tensor(u3))
                model.circuit_torch.theta['cu3'].copy_(torch.tensor(cu3))

        def judge(model, u3, cu3, what, point):
            code, lossv, sc = ref_for(u3, cu3)
            ctx.close(model.get_code(), code, 1e-10, f'varqec/get_code/{what}', f'VarQEC.get_code() ({what}) is not the reference simulation of the ansatz with the '
                      'parameters the module holds', {'n': nq, 'K': kk, 'what': what}, point=point)
            tol = 1e-9 * (1 + sc)
            lv = float(model().detach())
            ctx.check(abs(lv - lossv) <= tol, f'varqec/loss/{what}', f'VarQEC() ({what}) is not the Knill-Laflamme loss of the reference code words',
                      {'n': nq, 'K': kk, 'kind': kind, 'got': lv, 'want': lossv}, point=point)
            return lv, tol

        ctx.set_case({'op': 'VarQEC get_code / modes / lifecycle', 'n': nq, 'K': kk, 'loss': kind, 'rep': rep, 'angles': 'wide' if rep % 2 else '[0,2pi)'})
        ctx.case('varqec-lifecycle', nq, kk, kind, th[0])
        with ctx.guard('VarQEC/lifecycle'):
            model = qec.VarQEC(build_ansatz_from(numqi, nq, th[0], th[1]), kk, errs, loss_type=kind)
            lv, tol = judge(model, th[0], th[1], 'fresh', P_GETCODE)
            # evaluation modes: autograd recording / no_grad / frozen parameters give the same value
            with torch.no_grad():
                l_ng = float(model())
            for prm in model.parameters():
                prm.requires_grad_(False)
            l_fr = float(model())
            for prm in model.parameters():
                prm.requires_grad_(True)
            l_bw = model()
            l_bw.backward()
            ctx.check(abs(l_ng - lv) <= tol and abs(l_fr - lv) <= tol and abs(float(l_bw.detach()) - lv) <= tol, 'varqec/loss-depends-on-evaluation-mode',
                      'VarQEC() gives different values with autograd recording / under no_grad / with frozen parameters',
                      {'autograd': lv, 'no_grad': l_ng, 'frozen': l_fr, 'autograd_again': float(l_bw.detach())}, point=P_MODES)
            # deep copy, new parameters in the copy: the copy follows ITS parameters, the original keeps its own
            twin = copy.deepcopy(model)
            set_params(twin, th[2], th[3])
            judge(twin, th[2], th[3], 'deepcopy-with-new-parameters', P_LIFE)
            judge(model, th[0], th[1], 'original-after-copy-was-used', P_LIFE)
            # in-place update, call again
            set_params(model, th[4], th[5])
            judge(model, th[4], th[5], 'after-in-place-update', P_LIFE)
            judge(twin, th[2], th[3], 'copy-after-original-was-updated', P_LIFE)
            # load_state_dict into a sibling built from other angles; two instances must not share state
            sib = qec.VarQEC(build_ansatz_from(numqi, nq, th[6], th[7]), kk, errs, loss_type=kind)
            judge(sib, th[6], th[7], 'sibling-fresh', P_LIFE)
            sib.load_state_dict(twin.state_dict())
            judge(sib, th[2], th[3], 'sibling-after-load_state_dict', P_LIFE)
            judge(model, th[4], th[5], 'original-after-sibling-was-used', P_LIFE)

    # ---------------------------------------------------------------- (c)(d)(e) VarQECUnitary: get_code vs the words handed to the inner product
    for rep in range(2 * reps):
        kk = [3, 2, 1, 4][rep % 4]
        nq = 3
        errs = qec.make_error_list(nq, 2)
        ctx.set_case({'op': 'VarQECUnitary get_code / lifecycle', 'n': nq, 'K': kk, 'rep': rep})
        ctx.case('varqecunitary-lifecycle', nq, kk, rep)
        with ctx.guard('VarQECUnitary/lifecycle'):
            model = qec.VarQECUnitary(nq, kk, errs)
            with torch.no_grad():
                next(model.parameters()).copy_(torch.tensor(rng.normal(size=tuple(next(model.parameters()).shape)) * (1e-7 if rep % 3 == 2 else 1.0)))
            l0 = float(model().detach())
            fed = mon.last_klip[1] if mon.last_klip else None
            code = np.asarray(model.get_code())
            ok_shape = code.shape == (kk, 2**nq)
            ctx.check(ok_shape and fed is not None and fed.shape[1] == 2**nq and float(np.abs(fed[:kk] - code).max()) <= 1e-12, 'varqec-unitary/get_code',
                      'VarQECUnitary.get_code() is not the first K rows of what forward() hands to knill_laflamme_inner_product', {'K': kk}, point=P_GETCODE)
            if ok_shape:
                gdev = float(np.abs(rq.gram(code) - np.eye(kk)).max())
                ctx.check(gdev <= 1e-6, 'varqec-unitary/get_code-not-orthonormal', 'VarQECUnitary.get_code() rows are not orthonormal', {'K': kk, 'dev': gdev},
                          point=P_GETCODE)
                want, sc = rq.kl_loss(rq.klip(code, errs), 'L2')
                ctx.check(abs(l0 - want) <= 1e-9 * (1 + sc), 'varqec-unitary/loss', 'VarQECUnitary() is not the Knill-Laflamme loss of get_code()',
                          {'K': kk, 'got': l0, 'want': want}, point=P_GETCODE)
                with torch.no_grad():
                    l1 = float(model())
                ctx.check(abs(l1 - l0) <= 1e-9 * (1 + sc), 'varqec-unitary/loss-depends-on-evaluation-mode', 'VarQECUnitary() differs under no_grad',
                          {'autograd': l0, 'no_grad': l1}, point=P_MODES)
                twin = copy.deepcopy(model)
                with torch.no_grad():
                    next(twin.parameters()).copy_(torch.tensor(rng.normal(size=tuple(next(twin.parameters()).shape))))
                code_t = np.asarray(twin.get_code())
                code_again = np.asarray(model.get_code())
                ctx.check(code_again.shape == code.shape and float(np.abs(code_again - code).max()) <= 1e-12, 'varqec-unitary/original-changed-by-copy',
                          'VarQECUnitary.get_code() of the original changed after its deep copy got new parameters', {'K': kk}, point=P_LIFE)
                ctx.check(code_t.shape == code.shape and float(np.abs(code_t - code).max()) > 1e-6, 'varqec-unitary/copy-ignores-its-parameters',
                          'deep copy of VarQECUnitary with new parameters still returns the code of the original', {'K': kk}, point=P_LIFE)

    # ---------------------------------------------------------------- (d) QECCEqualModel: local-unitary equivalence loss against own application
    for rep in range(2 * reps):
        nq = 2 + rep % 2
        kk = 1 + rep % 3
        c0 = ortho(kk, 2**nq)
        ctx.set_case({'op': 'QECCEqualModel', 'n': nq, 'K': kk})
        ctx.case('qecc-equal', nq, kk, c0)
        with ctx.guard('QECCEqualModel'):
            model = qec.QECCEqualModel(c0, c0 if rep % 2 else ortho(kk, 2**nq))
            with torch.no_grad():
                next(model.parameters()).copy_(torch.tensor(rng.normal(size=tuple(next(model.parameters()).shape))))
            lv = float(model().detach())
            us = to_numpy(model.manifold())
            c1 = to_numpy(model.code1)
            if us.shape == (nq, 2, 2):
                rot = c0
                for qb in range(nq):
                    # numqi contracts the qubit axis with the FIRST index of unitary[qb]: new[.., b, ..] = sum_a old[.., a, ..] U[a, b], i.e. U^T acts
                    rot = rq.apply_op(rot, us[qb].T, [qb])
                ov = rot.conj() @ c1.T
                want = float(np.sum(1 - np.linalg.norm(ov, axis=1)**2))
                ctx.check(abs(lv - want) <= 1e-9, 'qecc-equal/loss', 'QECCEqualModel() is not sum_i (1 - sum_j |<U c0_i|c1_j>|^2) for its own local unitaries',
                          {'n': nq, 'K': kk, 'got': lv, 'want': want})
            else:
                ctx.inconclusive('QECCEqualModel: local unitaries not of shape (n,2,2)')

    # ---------------------------------------------------------------- (e) code descriptions: two instances, deep copies
    ctx.workload('realistic')
    for tag in ['422', '523', '442'] + (['642', '883'] if ctx.tier == 'thorough' else []):
        spec = CODES[tag]
        ctx.set_case({'op': 'description lifecycle', 'code': tag})
        ctx.case('description-lifecycle', tag)
        with ctx.guard('lifecycle/' + tag):
            gen = getattr(qec, spec['fn'])
            d1 = gen()
            d2 = gen()
            code1 = qec.generate_code_np(d1['encode'], d1['num_logical_dim'])
            ctx.check(d1['encode'] is not d2['encode'] and all(a is not b for a, b in zip(d1['stabilizer'], d2['stabilizer'])),
                      'lifecycle/descriptions-share-circuits', 'two calls of generate_code*() return the same circuit objects', {'code': tag}, point=P_LIFE)
            # extend the circuits of the FIRST description; the second one must still be the shipped code (judged by post_code_np / check_stabilizer)
            d1['encode'].X(0)
            d1['encode'].H(spec['n'] - 1)
            for circ in d1['stabilizer']:
                circ.Z(0)
            code2 = qec.generate_code_np(d2['encode'], d2['num_logical_dim'])
            qec.check_stabilizer(d2['stabilizer'], code2)
            ctx.close(code2, code1, 1e-12, 'lifecycle/second-description-changed-by-first', 'code words of a second generate_code*() description changed after the '
                      'circuits of the first description were extended', {'code': tag}, point=P_LIFE)
            d3 = copy.deepcopy(d2)
            d4 = gen()
            code3 = qec.generate_code_np(d3['encode'], d3['num_logical_dim'])
            ctx.close(code3, code1, 1e-12, 'lifecycle/deepcopy-description-differs', 'code words from a deep copy of the description differ', {'code': tag}, point=P_LIFE)
            listed = [mon.listed_of.get(id(c)) for c in d2['stabilizer']]
            if all(x is not None for x in listed) and len(d3['stabilizer']) == len(listed):
                for circ, letters in zip(d3['stabilizer'], listed):
                    mon.keep.append(circ)
                    mon.listed_of[id(circ)] = letters
                    mon.check_circuit(letters, letters, circ)
                qec.check_stabilizer(d3['stabilizer'], code3)
                qec.check_stabilizer(d3['stabilizer'], [x for x in code3])  # code given as a list of vectors
            code4 = qec.generate_code_np(d4['encode'], d4['num_logical_dim'])
            ctx.close(code4, code1, 1e-12, 'lifecycle/later-description-differs', 'a description generated after earlier ones were modified / copied gives other code words',
                      {'code': tag}, point=P_LIFE)
    ctx.sample({'op': 'secondary', 'entry_points': ['parse_str_qecc', 'knill_laflamme_loss', 'degeneracy', 'hf_split_element', 'VarQEC.get_code',
                                                   'VarQECUnitary.get_code', 'QECCEqualModel', 'quantum_weight_enumerator(use_tqdm)'],
                'regimes': 'states scaled by 1e-100..1e6, operators by 1e-9..1e7, Z-weights next to 1, 1.5, 2 and non-dyadic, angles up to |20| and ~1e-7'})


def run_repo_tests(ctx, numqi):
    ctx.workload('repo-tests')
    path = os.path.join(os.path.dirname(os.path.realpath(os.environ.get('NUMQI_SRC', '/repo/python'))), 'tests', 'test_qec.py')
    if not os.path.exists(path):
        path = '/repo/tests/test_qec.py'
    spec = importlib.util.spec_from_file_location('vmon_repo_test_qec', path)
    mod = importlib.util.module_from_spec(spec)
    with seeded_default_rng(ctx):
        spec.loader.exec_module(mod)
        names = sorted(n for n in dir(mod) if n.startswith('test_') and callable(getattr(mod, n)))
        for n in names:
            ctx.set_case({'op': 'repo-test', 'name': n})
            ctx.case('repo-test', n)
            with ctx.guard(f'repo-test/{n}'):
                try:
                    getattr(mod, n)()
                    ctx.check(True, f'repo-test/{n}', '')
                except AssertionError as e:
                    ctx.check(False, f'repo-test/{n}/assertion', f'the repository test {n} failed under monitoring: {str(e)[:100]}', None)
    ctx.extra['repo_tests_run'] = names


def run(ctx, shard):
    import numqi
    import torch
    mon = install(ctx, numqi)
    name = shard['name']
    if name.startswith('code-'):
        tag = shard['code']
        run_code(ctx, numqi, torch, mon, tag, enumerator=CODES[tag]['n'] <= 6)
    elif name.startswith('enum-'):
        run_enum(ctx, numqi, mon, shard['code'])
    elif name.startswith('errorsets'):
        run_errorsets(ctx, numqi, shard)
    elif name == 'klip':
        run_klip(ctx, numqi, torch, shard)
    elif name == 'parser':
        run_parser(ctx, numqi)
    elif name == 'repo-tests':
        run_repo_tests(ctx, numqi)
    elif name == 'sequence':
        run_sequence(ctx, numqi, mon)
    elif name == 'secondary':
        run_secondary(ctx, numqi, torch, mon, shard)
    else:
        raise ValueError(f'unknown shard {name}')


# thorough tier: every random shard is run this many times with independent random streams (see vmon/runner.py get_shards)
THOROUGH_REPEAT = 2
