"""C17 - partial traces and the Dicke-basis reduction equal the explicit contraction.

Monitors: contracts on numqi.utils.partial_trace (explicit contraction of vmon/ref/ptrace.py, trace preserved, tracing in
two steps == one step) and on the functions of numqi.dicke: occupation list and count, Dicke vectors and basis (reference
vectors from the definition, orthonormal, invariant under every permutation of the copies, projector == symmetriser built
from permutations), the index table of the fast reduction (== explicit contraction of the reference basis, index form ==
tensor form) and the fast reduction itself (== embed with the reference Dicke basis and trace out k-1 copies explicitly,
for every copy kept when the full density matrix fits), in numpy and torch.
Every contract judges a call from a snapshot of its array arguments taken at call time, checks that the arguments were not
modified, and that non-C-ordered arguments (Fortran order, transposed / strided views) give the result of a C-ordered copy.
The reduction is judged twice: against the explicit contraction with the index table AS GIVEN (so a caller may scale its own
table) and, when that table is the canonical one, against the explicit embedding. A `history` shard replays, in ONE process:
edit-the-result-in-place-then-call-again for every function, reused work buffers refilled in place (operator, dimension list,
coefficient matrix, index table), and the same configurations in several call orders with the first repeated at the end.
Workloads: exhaustive keep-subsets (empty and full included) of all dimension lists in range, exhaustive (copies, dim)
pairs and (dimA, dimB, k) triples in range with random / real / product / single-Dicke / unnormalised vectors, keep_index
given as set/list/tuple/int/array/unsorted/duplicated, operators non-Hermitian, and numqi's own callers (PureBosonicExt,
QuantumPureBosonicExt, ABk pre-image operators, symmetric-extension coefficients).
Regimes: every ORDER of the keep tuple (all permutations incl. 3-cycles, relational: same as the set), alternating kept/traced patterns of 4 and 5
subsystems with unequal neighbours, the largest sizes of the range (4^5), dimension-1 factors, operators / vectors of tiny, huge and mixed
magnitudes, exact objects up to symmetry-breaking rounding noise, one zero row / column of the coefficient matrix; torch evaluation modes of
the reduction (requires_grad / no_grad / non-leaf input: same value). The anchored consumer PureBosonicExt is followed as an OBJECT: after
every forward() its reported state must be the explicit reduction of ITS OWN current parameters (new parameters first seen under no_grad /
frozen, in-place update, deepcopy, load_state_dict, second instance, a copy that scaled its own table); the expectation-operator loss,
get_numerical_range and the qubit symmetric-extension coefficients are judged against the explicit reduction.
"""
import contextlib
import copy
import functools
import importlib.util
import itertools
import math
import os

import numpy as np

from vmon.ref import dicke as rd
from vmon.ref import ptrace as rp

RULE = ('one case = one monitored call, identified by (function, arguments digest): partial_trace cases are (dimension list, '
        'keep subset, form of keep_index, operator kind/dtype, content); Dicke cases are (copies, dim) for the basis / table '
        'functions and (dimA, dimB, k, backend, dtype, vector kind, content) for the reduction. Dimension lists, keep subsets and '
        '(dimA,dimB,k) triples are enumerated completely within the stated bounds, operators and vectors are random. A '
        'partial_trace case is non-trivial when the operator is non-zero and at least one subsystem is traced out; a reduction '
        'case is non-trivial when the vector is non-zero. Operators / coefficient matrices also vary in dtype (complex128, complex64, float64, '
        'float32, int64) and memory layout (C, Fortran, transposed view, strided view, slice of a larger array, (*dim,*dim) tensor shape); '
        'history cases are (function, kind of history) replayed in one process')
EXHAUSTIVE = {'quick': True, 'thorough': True}
EXHAUSTIVE_DOMAINS = {
    'quick': ['all 336 (dimension list, keep subset) pairs: lists of length 2..4 with entries 2..3 (28 lists), every subset incl. empty and full',
              'all (copies n, dim d) with d=2..4, 1<=n<=7, d^n<=1024 (18 pairs): klist, number, basis, index table in both forms; index tables for all further (n<=12, d=2..4) with d^n<=16384; qubit tables n=2..12',
              'all (dimA,dimB,k) with dimA,dimB=2..4, k=1..5, dimA*dimB^k<=2048 (43 triples), both backends'],
    'thorough': ['all (dimension list, keep subset) pairs: lists of length 2..5 with entries 2..4 and product<=256 (incl. empty and full subset)',
                 'all (copies n, dim d) with d=2..5, 1<=n<=8, d^n<=4096 (26 pairs): klist, number, basis, every Dicke vector, index table in both forms; index tables for all further (n<=12, d=2..4) with d^n<=16384; qubit tables n=2..16',
                 'all (dimA,dimB,k) with dimA,dimB=2..4, k=1..5, dimA*dimB^k<=2048 (43 triples), both backends, 6 vector kinds; plus all dimA,dimB=2..5, k=1..10 with dimA*dimB^k<=8192'],
}
ASSUMPTIONS = [
    'arrays a function returns belong to the caller: editing them in place must not change what later calls return (histories); a caller may '
    'scale the values of its own copy of the index table: the reduction is then only required to equal the contraction with that table',
    'subsystem 0 is the slowest (left-most Kronecker) factor; the kept subsystems appear in ascending index order whatever the order in keep_index',
    'order of the Dicke basis = order of get_dicke_klist = lexicographic order of the occupation tuples (k_0..k_{d-1}); the same order labels '
    'the columns of the coefficient matrix passed to partial_trace_ABk_to_AB',
    'the index table handed to partial_trace_ABk_to_AB is the one get_partial_trace_ABk_to_AB_index produced for (k, dimB) (k recovered from the number of columns)',
    'tolerance 100*eps(input precision)*(number of summed terms) relative to the largest entry (partial trace) / to |psi|^2 (reduction)',
]
TECHNIQUE = 'contracts on numqi.utils.partial_trace and all numqi.dicke functions against explicit-contraction / permutation-built references; relational monitors (two-step tracing, index form == tensor form, torch == numpy)'
LEVEL_NOTE = ('Dimension lists x keep subsets, (copies, dim) pairs and (dimA,dimB,k) triples are enumerated completely within the stated bounds; operators '
              'and vectors are sampled. Calls beyond the reference limits are counted inconclusive, never held: reductions whose embedding dimA*dimB^k '
              'exceeds 2^14 (e.g. PureBosonicExt with kext>=16), index tables with dim^copies > 2^14, Dicke bases with dim^copies > 4096; numqi builds '
              'the basis from n! permutations, so workloads cap copies at 7 (quick) / 8 (thorough). Trusted base: numpy/torch numerics and '
              'vmon/ref/ptrace.py, vmon/ref/dicke.py (self-checked: loops vs vectorised contraction, W state, symmetriser idempotent with binomial trace).')
DECIDING = ['numqi.utils.partial_trace', 'relation/two-step==one-step', 'numqi.dicke.get_dicke_klist', 'numqi.dicke.get_dicke_number',
            'numqi.dicke.Dicke', 'numqi.dicke.get_dicke_basis', 'numqi.dicke.get_partial_trace_ABk_to_AB_index',
            'relation/index-form==tensor-form', 'numqi.dicke.partial_trace_ABk_to_AB', 'numqi.dicke.get_qubit_dicke_partial_trace',
            'relation/torch==numpy', 'reduction/every-copy-kept', 'relation/layout-independent', 'history/edit-result-then-call-again',
            'history/work-buffer', 'history/call-order', 'relation/keep-order-independent', 'relation/evaluation-mode-independent',
            'consumer/value-against-explicit-reduction', 'lifecycle/model-state']

C_TOL = 100.0
EPS64 = 2.3e-16
EPS32 = 1.2e-7


def shards(tier, seed):
    if tier == 'quick':
        ret = [{'name': 'ptrace-exh-0', 'part': 0, 'nparts': 2}, {'name': 'ptrace-exh-1', 'part': 1, 'nparts': 2},
               {'name': 'dicke-basis'}, {'name': 'abk-numpy', 'backend': 'numpy'}, {'name': 'abk-torch', 'backend': 'torch'},
               {'name': 'realistic'}, {'name': 'history'}]
    else:
        ret = [{'name': f'ptrace-exh-{i}', 'part': i, 'nparts': 10} for i in range(10)]
        ret += [{'name': f'dicke-basis-{i}', 'part': i, 'nparts': 3} for i in range(3)]
        ret += [{'name': f'abk-{b}-{i}', 'backend': b, 'rep': i} for b in ('numpy', 'torch') for i in range(3)]
        ret += [{'name': 'realistic'}, {'name': 'repo-tests'}, {'name': 'history'}]
    return ret


# ----------------------------------------------------------------------------------------------- helpers
def is_torch(x):
    return type(x).__module__.startswith('torch')


def npy(x):
    if is_torch(x):
        return x.detach().resolve_conj().resolve_neg().cpu().numpy()
    return np.asarray(x)


def backend_of(x):
    return 'torch' if is_torch(x) else 'numpy'


def in_eps(*xs):
    e = EPS64
    for x in xs:
        name = str(getattr(x, 'dtype', ''))
        if 'float32' in name or 'complex64' in name:
            e = max(e, EPS32)
        elif 'float16' in name or 'complex32' in name:
            e = max(e, 1e-3)
    return e


def layout_of(x):
    """memory layout of an array argument: 'C', 'F' (column-major, not C) or 'strided'"""
    if is_torch(x):
        return 'C' if x.is_contiguous() else 'strided'
    x = np.asarray(x)
    if x.flags.c_contiguous:
        return 'C'
    return 'F' if x.flags.f_contiguous else 'strided'


def snap(x):
    """values of an array argument at call time (own memory)"""
    return np.array(npy(x), order='C', copy=True)


def same_bytes(x, snapshot):
    cur = npy(x)
    return cur.shape == snapshot.shape and cur.dtype == snapshot.dtype and np.ascontiguousarray(cur).tobytes() == snapshot.tobytes()


def table_tensor_quiet(Bij, d, nd):
    """dense B[r,s,a,b] of an index table as given (arrays already converted to numpy), or None when malformed"""
    try:
        B = np.zeros((d * d, nd, nd), dtype=np.complex128)
        for t, (i0, i1, v) in enumerate(Bij):
            np.add.at(B[t], (np.asarray(i0), np.asarray(i1)), np.asarray(v))
        return B.reshape(d, d, nd, nd)
    except Exception:
        return None


def keep_form(keep):
    if isinstance(keep, (int, np.integer)):
        return 'int'
    return type(keep).__name__


class Mon:
    def __init__(self, ctx, numqi):
        self.ctx = ctx
        self.numqi = numqi
        self.sampled = set()
        ctx.extra.setdefault('worst_err_over_eps_scale', {})
        ctx.extra.setdefault('largest_embedding_dim', 0)

    def worst(self, key, err, unit):
        if unit > 0 and np.isfinite(err):
            wd = self.ctx.extra['worst_err_over_eps_scale']
            wd[key] = max(wd.get(key, 0.0), float(err / unit))

    def close(self, got, ref, tol, key, what, wit, unit=None, point=None):
        """max-abs comparison; shape mismatch and non-finite are failures with their own key"""
        ctx = self.ctx
        got = npy(got)
        ref = np.asarray(ref)
        if got.shape != ref.shape:
            return ctx.check(False, key + '/shape', f'{what}: shape {got.shape}, expected {ref.shape}', wit, point=point)
        if got.size == 0:
            return ctx.check(True, key, what, point=point)
        with np.errstate(all='ignore'):
            errs = np.abs(got.astype(np.complex128) - ref.astype(np.complex128))
            err = float(errs.max())
        ok = bool(np.isfinite(err)) and err <= tol
        if ok:
            if unit:
                self.worst(key, err, unit)
            return ctx.check(True, key, what, point=point)

        def w():
            idx = np.unravel_index(int(np.nanargmax(np.where(np.isfinite(errs), errs, np.inf))), errs.shape)
            d = {'max_abs_err': err if np.isfinite(err) else repr(err), 'tol': float(tol), 'index': [int(t) for t in idx],
                 'got_at': complex(got[idx]), 'expected_at': complex(ref[idx]), 'got': got, 'expected': ref}
            d.update(wit() if callable(wit) else (wit or {}))
            return d
        return ctx.check(False, key, what, w, point=point)

    def invoke(self, key, f, *a, **k):
        try:
            return True, f(*a, **k)
        except Exception as e:  # noqa
            self.ctx.check(False, f'{key}/raises/{type(e).__name__}', f'{key}: re-invocation raised {type(e).__name__}: {str(e)[:150]}',
                           {'exception': repr(e)[:300]})
            return False, None

    def sample_once(self, tag, fn):
        if tag not in self.sampled:
            self.sampled.add(tag)
            self.ctx.sample(fn())


def classify_reduction_error(got, ref, dimA, dimB, tol):
    """name the wrong convention when the wrong answer is a recognisable relabelling of the right one"""
    if got.shape != ref.shape:
        return 'value'
    g = got.reshape(dimA, dimB, dimA, dimB)
    r = ref.reshape(dimA, dimB, dimA, dimB)
    cands = {
        'B-indices-transposed': r.transpose(0, 3, 2, 1), 'A-indices-transposed': r.transpose(2, 1, 0, 3),
        'fully-transposed': r.transpose(2, 3, 0, 1),
    }
    for name, c in cands.items():
        if np.abs(g - c).max() <= tol:
            return name
    if dimA == dimB and np.abs(g - r.transpose(1, 0, 3, 2)).max() <= tol:
        return 'A-and-B-swapped'
    for name, c in [('row-pair-not-regrouped', r.transpose(0, 2, 1, 3))]:
        if np.abs(got - c.reshape(got.shape)).max() <= tol:
            return name
    dg = np.abs(np.einsum('irjr->ij', g) - np.einsum('irjr->ij', r)).max() <= tol  # diagonal blocks r==s right?
    return 'off-diagonal-B-blocks' if dg else 'value'


def install(ctx, numqi):
    M = Mon(ctx, numqi)
    U = numqi.utils
    Dk = numqi.dicke

    # ------------------------------------------------------------------ utils.partial_trace
    def pre_partial_trace(c):
        rho = c.arg(0, 'rho')
        return {'a': snap(rho), 'layout': layout_of(rho)} if (isinstance(rho, np.ndarray) or is_torch(rho)) else None

    def post_partial_trace(c):
        rho, dim, keep = c.arg(0, 'rho'), c.arg(1, 'dim'), c.arg(2, 'keep_index')
        if c.snap is None:
            return
        try:
            dims = [int(x) for x in dim]
            a = c.snap['a']  # the values at call time
            D = int(np.prod(dims, dtype=np.int64))
            if isinstance(keep, (set, frozenset, list, tuple, np.ndarray, range, int, np.integer)):
                kp = rp.normalise_keep(keep, len(dims))
            else:
                return
        except Exception:  # inadmissible arguments: nothing to judge
            return
        if a.size != D * D or min(dims) < 1:
            return
        if not np.all(np.isfinite(a)):
            ctx.inconclusive('partial_trace/non-finite-input (nothing to judge)')
            return
        form = keep_form(keep)
        which = 'keep-empty' if len(kp) == 0 else ('keep-all' if len(kp) == len(dims) else 'proper-subset')
        if c.exc is not None:
            return  # the workload's guard reports exceptions on admissible arguments with its own key
        eps = in_eps(rho)
        sc = float(np.abs(a).max()) if a.size else 0.0
        K = int(np.prod([dims[x] for x in kp], dtype=np.int64)) if kp else 1
        T = D // K
        ctx.case('partial_trace', dims, list(kp), form, str(a.dtype), a, nontrivial=bool(sc > 0 and T > 1))
        M.sample_once(('pt', which), lambda: {'point': 'partial_trace', 'dim': dims, 'keep_index': repr(keep), 'rho': a, 'result': npy(c.result)})
        ref = rp.partial_trace(a, dims, kp)
        lay = c.snap['layout']
        lays = ctx.extra.setdefault('partial_trace_layouts', {})
        lays[f'{lay}/{a.dtype}'] = lays.get(f'{lay}/{a.dtype}', 0) + 1
        wit = lambda: {'dim': dims, 'keep_index': repr(keep), 'keep_form': form, 'dtype': str(a.dtype), 'rho_shape': list(a.shape), 'layout': lay}
        tol = C_TOL * eps * T * sc
        if which != 'keep-all':  # (keeping everything may return a view of the argument: nothing to compare then)
            ctx.check(same_bytes(rho, a), 'partial_trace/mutates-argument', 'partial_trace modified its operator argument in place', wit)
        ok = M.close(c.result, ref, tol, f'partial_trace/{which}/value', 'partial_trace differs from the explicit index contraction', wit, unit=eps * T * sc)
        if lay != 'C':
            # the same values in a C-ordered copy must give the same answer (relational: names the mechanism)
            good, rc = M.invoke('partial_trace/layout', U.partial_trace, np.ascontiguousarray(a), dim, keep)
            if good:
                M.close(c.result, npy(rc), tol, 'partial_trace/layout-dependent', 'the result depends on the memory layout (Fortran order / transposed view / strided) of the operator, not only on its values',
                        wit, point='relation/layout-independent')
        if not ok:
            return
        got = npy(c.result)
        M.close(np.trace(got), np.trace(a.reshape(D, D)), C_TOL * eps * D * sc, f'partial_trace/{which}/trace-not-preserved',
                'trace of the partial trace differs from the trace of the operator', wit)
        drop = [x for x in range(len(dims)) if x not in kp]
        if len(drop) >= 2 and D <= 4096:
            # tracing in two steps (relational: the real function with itself): first drop all but one traced subsystem
            for extra in (drop[0], drop[-1]):
                keep1 = sorted(set(kp) | {extra})
                good, r1 = M.invoke('partial_trace/two-step', U.partial_trace, rho, dim, set(keep1))
                if not good:
                    continue
                dims1 = [dims[x] for x in keep1]
                keep2 = [keep1.index(x) for x in kp]
                good, r2 = M.invoke('partial_trace/two-step', U.partial_trace, r1, dims1, keep2)
                if good:
                    M.close(r2, got, C_TOL * eps * T * sc, 'partial_trace/two-step!=one-step', 'tracing in two steps differs from tracing at once',
                            lambda: {**wit(), 'intermediate_keep': keep1}, point='relation/two-step==one-step')

    ctx.attach(U, 'partial_trace', post=post_partial_trace, pre=pre_partial_trace, point='numqi.utils.partial_trace')

    # ------------------------------------------------------------------ occupation lists / counts
    def post_klist(c):
        if c.exc is not None:
            return
        n, d = int(c.arg(0, 'num_qudit')), int(c.arg(1, 'dim'))
        ctx.case('get_dicke_klist', n, d)
        got = c.result
        try:
            got_t = [tuple(int(t) for t in x) for x in got]
        except Exception:
            ctx.check(False, 'get_dicke_klist/type', 'get_dicke_klist did not return a list of integer tuples', {'n': n, 'd': d})
            return
        ok = all(len(x) == d and sum(x) == n and min(x) >= 0 for x in got_t)
        ctx.check(ok, 'get_dicke_klist/invalid-tuple', 'an occupation tuple has the wrong length / sum / a negative entry', {'n': n, 'd': d, 'got': got_t[:20]})
        ctx.check(len(set(got_t)) == len(got_t) == math.comb(n + d - 1, d - 1), 'get_dicke_klist/count', 'occupation tuples are not all distinct or not binomial(n+d-1,d-1) many',
                  {'n': n, 'd': d, 'len': len(got_t), 'expected': math.comb(n + d - 1, d - 1)})
        if math.comb(n + d - 1, d - 1) <= 20000:
            ctx.check(got_t == list(rd.occupations(n, d)), 'get_dicke_klist/order', 'occupation tuples are not in lexicographic order', {'n': n, 'd': d, 'got': got_t[:20]})

    ctx.attach(Dk, 'get_dicke_klist', post=post_klist, point='numqi.dicke.get_dicke_klist')

    def post_number(c):
        if c.exc is not None:
            return
        n, d = int(c.arg(0, 'num_qudit')), int(c.arg(1, 'dim'))
        ctx.case('get_dicke_number', n, d)
        ctx.check(isinstance(c.result, (int, np.integer)) and int(c.result) == math.comb(n + d - 1, d - 1), 'get_dicke_number/value',
                  'get_dicke_number differs from binomial(n+d-1, d-1)', {'n': n, 'd': d, 'got': repr(c.result), 'expected': math.comb(n + d - 1, d - 1)})

    ctx.attach(Dk, 'get_dicke_number', post=post_number, point='numqi.dicke.get_dicke_number')

    # ------------------------------------------------------------------ Dicke vectors and basis
    def post_Dicke(c):
        if c.exc is not None:
            return
        try:
            occ = tuple(int(x) for x in c.args)
        except Exception:
            return
        d, n = len(occ), sum(occ)
        if d < 2 or n < 1 or min(occ) < 0 or d**n > 2**16:
            return
        ctx.case('Dicke', occ)
        got = np.asarray(c.result)
        M.sample_once(('Dicke',), lambda: {'point': 'Dicke', 'klist': occ, 'result': got})
        M.close(got, rd.dicke(occ), 1e-14, 'Dicke/value', 'Dicke(*klist) is not the uniform superposition of the strings with that occupation', {'klist': occ})

    ctx.attach(Dk, 'Dicke', post=post_Dicke, point='numqi.dicke.Dicke')

    def post_basis(c):
        if c.exc is not None:
            return
        n, d = int(c.arg(0, 'num_qudit')), int(c.arg(1, 'dim'))
        if d**n > 4096:
            ctx.inconclusive('get_dicke_basis/too-large-for-the-reference')
            return
        ctx.case('get_dicke_basis', n, d)
        got = np.asarray(c.result)
        wit = {'num_qudit': n, 'dim': d}
        ref = rd.basis(n, d)
        ctx.check(not np.iscomplexobj(got), 'get_dicke_basis/real', 'the Dicke basis is not real', wit)
        if not M.close(got, ref, 1e-14, 'get_dicke_basis/value', 'a row of get_dicke_basis is not the Dicke vector of the corresponding occupation tuple', wit):
            if got.shape != ref.shape:
                return
        nd = got.shape[0]
        g = got @ got.conj().T
        ctx.check(np.abs(g - np.eye(nd)).max() <= 1e-13, 'get_dicke_basis/orthonormal', 'the Dicke vectors are not orthonormal', wit)
        ctx.check(nd == math.comb(n + d - 1, d - 1), 'get_dicke_basis/count', 'number of Dicke vectors is not the dimension binomial(n+d-1,d-1) of the symmetric subspace', wit)
        t = got.reshape([nd] + [d] * n)
        if math.factorial(n) <= 720:
            perms = list(itertools.permutations(range(1, n + 1)))  # every permutation of the copies
        else:
            perms = [(2, 1) + tuple(range(3, n + 1)), tuple(range(2, n + 1)) + (1,)]  # a transposition and the n-cycle generate S_n
        worst = 0.0
        for perm in perms:
            worst = max(worst, float(np.abs(t.transpose((0,) + perm) - t).max()))
        ctx.check(worst <= 1e-14, 'get_dicke_basis/permutation-invariance', 'a Dicke vector changes under a permutation of the copies', {**wit, 'max_change': worst})
        if math.factorial(n) <= 720:
            if d**n <= 1024:
                P = rd.symmetriser(n, d)
                ctx.check(np.abs(got.conj().T @ got - P).max() <= 1e-13, 'get_dicke_basis/span!=symmetric-subspace',
                          'the projector on the span of the Dicke vectors is not the symmetriser (1/n!) sum_perm P_perm', wit)

    ctx.attach(Dk, 'get_dicke_basis', post=post_basis, point='numqi.dicke.get_dicke_basis')

    # ------------------------------------------------------------------ index table of the reduction
    def table_to_tensor(Bij, d, nd, keyprefix, wit):
        """index form -> B[r,s,a,b], summing the listed triples (this is what the fast reduction does with them)"""
        ok = isinstance(Bij, (list, tuple)) and len(Bij) == d * d and all(len(x) == 3 for x in Bij)
        ctx.check(ok, f'{keyprefix}/structure', 'the index form is not a list of d*d (index, index, value) triples', wit)
        if not ok:
            return None
        B = np.zeros((d * d, nd, nd), dtype=np.complex128)
        for t, (i0, i1, v) in enumerate(Bij):
            i0, i1, v = npy(i0), npy(i1), npy(v)
            good = (i0.ndim == 1 and i0.shape == i1.shape == v.shape and i0.dtype.kind in 'iu' and i1.dtype.kind in 'iu'
                    and (i0.size == 0 or (0 <= i0.min() and i0.max() < nd and 0 <= i1.min() and i1.max() < nd)))
            ctx.check(good, f'{keyprefix}/structure', 'an index triple has mismatching lengths / non-integer or out-of-range indices', {**wit, 'entry': t})
            if not good:
                return None
            np.add.at(B[t], (i0, i1), v)
        return B.reshape(d, d, nd, nd)

    def post_index(c):
        if c.exc is not None:
            return
        n, d = int(c.arg(0, 'num_qudit')), int(c.arg(1, 'dim'))
        rt = bool(c.arg(2, 'return_tensor', False))
        nd = rd.number(n, d)
        if d**n > 2**14 or nd > 500:
            ctx.inconclusive('get_partial_trace_ABk_to_AB_index/too-large-for-the-reference')
            return
        ctx.case('get_partial_trace_ABk_to_AB_index', n, d, rt)
        wit = {'num_qudit': n, 'dim': d, 'return_tensor': rt}
        form = 'tensor-form' if rt else 'index-form'
        if rt:
            got = npy(c.result)
        else:
            got = table_to_tensor(c.result, d, nd, 'ABk_index/index-form', wit)
            if got is None:
                return
        ref = rd.B_tensor(n, d)
        M.sample_once(('index', rt), lambda: {'point': 'get_partial_trace_ABk_to_AB_index', **wit, 'B[r,s,a,b]': got.real})
        if got.shape == ref.shape and np.abs(got - ref).max() > 1e-13:
            bad = np.abs(got - ref).max(axis=(2, 3))
            r, s = [int(t) for t in np.unravel_index(int(np.argmax(bad)), bad.shape)]
            blk = 'diagonal-block(r==s)' if r == s else 'off-diagonal-block(r!=s)'
            if np.abs(got - ref.transpose(1, 0, 2, 3)).max() <= 1e-13 or np.abs(got - ref.transpose(0, 1, 3, 2)).max() <= 1e-13:
                blk = 'transposed'
            ctx.check(False, f'ABk_index/{form}/value/{blk}', 'B[r,s,a,b] differs from Tr_{k-1 copies} <r|D_a><D_b|s> computed with the reference Dicke basis',
                      {**wit, 'r': r, 's': s, 'got_block': got[r, s].real, 'expected_block': ref[r, s]})
        else:
            M.close(got, ref, 1e-13, f'ABk_index/{form}/value', 'B[r,s,a,b] differs from the explicit contraction of the reference Dicke basis', wit)
        # relational: the other form of the same table
        good, other = M.invoke('ABk_index/other-form', Dk.get_partial_trace_ABk_to_AB_index, n, d, return_tensor=not rt)
        if good:
            ot = npy(other) if not rt else table_to_tensor(other, d, nd, 'ABk_index/index-form', wit)
            if ot is not None:
                M.close(ot, got, 1e-13, 'ABk_index/index-form!=tensor-form', 'the index form and the tensor form of the table differ', wit,
                        point='relation/index-form==tensor-form')

    ctx.attach(Dk, 'get_partial_trace_ABk_to_AB_index', post=post_index, point='numqi.dicke.get_partial_trace_ABk_to_AB_index')

    def post_qubit(c):
        if c.exc is not None:
            return
        n = int(c.arg(0, 'num_qubit'))
        if n > 16:
            return
        ctx.case('get_qubit_dicke_partial_trace', n)
        try:
            a00, a01, a11 = [np.asarray(x) for x in c.result]
        except Exception:
            ctx.check(False, 'qubit_table/structure', 'get_qubit_dicke_partial_trace did not return three arrays', {'n': n})
            return
        B = rd.B_tensor(n, 2)
        wit = {'num_qubit': n}
        M.close(a00, np.diag(B[0, 0]), 1e-14, 'qubit_table/a00', 'a00 differs from the diagonal of B[0,0]', wit)
        M.close(a11, np.diag(B[1, 1]), 1e-14, 'qubit_table/a11', 'a11 differs from the diagonal of B[1,1]', wit)
        M.close(a01, np.diag(B[1, 0], 1), 1e-14, 'qubit_table/a01', 'a01 differs from the off-diagonal of B[1,0]', wit)
        M.close(a01, np.diag(B[0, 1], -1), 1e-14, 'qubit_table/a01', 'a01 differs from the off-diagonal of B[0,1]', wit)

    ctx.attach(Dk, 'get_qubit_dicke_partial_trace', post=post_qubit, point='numqi.dicke.get_qubit_dicke_partial_trace')

    # ------------------------------------------------------------------ the fast reduction
    def pre_reduce(c):
        state, Bij = c.arg(0, 'state'), c.arg(1, 'dicke_Bij')
        try:
            return {'s': snap(state), 'layout': layout_of(state), 'Bij': [tuple(snap(y) for y in x) for x in Bij]}
        except Exception:
            return None

    def post_reduce(c):
        if c.exc is not None or c.snap is None:
            return
        state, Bij = c.arg(0, 'state'), c.arg(1, 'dicke_Bij')
        s = c.snap['s']  # the values at call time
        if s.ndim != 2:
            return
        dimA, nd = s.shape
        dimB = int(round(math.sqrt(len(Bij))))
        if dimB * dimB != len(Bij) or dimB < 2:
            return
        k = rd.copies_from_number(nd, dimB)
        if k is None:
            return
        be = backend_of(state)
        full = dimA * dimB**k
        if full > 2**14:
            ctx.inconclusive('partial_trace_ABk_to_AB/embedding-too-large-for-the-reference')
            return
        if not np.all(np.isfinite(s)):
            ctx.inconclusive('partial_trace_ABk_to_AB/non-finite-input (nothing to judge)')
            return
        vals = [x[2] for x in Bij]
        eps = in_eps(state, *vals)
        nrm2 = float((np.abs(s)**2).sum())
        ctx.case('partial_trace_ABk_to_AB', dimA, dimB, k, be, str(s.dtype), s, nontrivial=nrm2 > 0)
        ctx.extra['largest_embedding_dim'] = max(ctx.extra['largest_embedding_dim'], full)
        tri = ctx.extra.setdefault('triples_seen', {})
        tri[f'{dimA},{dimB},{k}/{be}'] = tri.get(f'{dimA},{dimB},{k}/{be}', 0) + 1
        M.sample_once(('reduce', be), lambda: {'point': 'partial_trace_ABk_to_AB', 'dimA': dimA, 'dimB': dimB, 'k': k, 'backend': be, 'state': s, 'result': npy(c.result)})
        wit = lambda: {'dimA': dimA, 'dimB': dimB, 'k': k, 'backend': be, 'dtype': str(s.dtype), 'state': s}
        ctx.check(backend_of(c.result) == be, f'partial_trace_ABk_to_AB/{be}/backend', 'result is not of the backend of the input', {'type': str(type(c.result))})
        got = npy(c.result)
        lay = c.snap['layout']
        lays = ctx.extra.setdefault('reduction_state_layouts', {})
        lays[f'{be}/{lay}/{s.dtype}'] = lays.get(f'{be}/{lay}/{s.dtype}', 0) + 1
        unchanged = same_bytes(state, s) and all(same_bytes(y, ys) for x, xs in zip(Bij, c.snap['Bij']) for y, ys in zip(x, xs))
        ctx.check(unchanged, f'partial_trace_ABk_to_AB/{be}/mutates-argument', 'the reduction modified its coefficient matrix or its index table in place', wit)
        # oracle 1: the contraction with the table AS GIVEN (whatever the caller did with it): sum_t psi[i,I_t] v_t conj(psi[j,J_t])
        Bgiven = table_tensor_quiet(c.snap['Bij'], dimB, nd) if nd <= 300 else None
        vmax = max([float(np.abs(x[2]).max()) for x in c.snap['Bij'] if x[2].size] + [0.0])
        tol = C_TOL * eps * max(nd, 4) * nrm2 * max(vmax, 1.0)
        if Bgiven is not None:
            sc128 = s.astype(np.complex128)
            lin = np.einsum('ia,rsab,jb->irjs', sc128, Bgiven, sc128.conj()).reshape(dimA * dimB, dimA * dimB)
            if got.shape == lin.shape and np.all(np.isfinite(got)) and np.abs(got - lin).max() > tol:
                name = classify_reduction_error(got.astype(np.complex128), lin, dimA, dimB, tol)
                ctx.check(False, f'partial_trace_ABk_to_AB/{be}/{name}', 'the fast reduction differs from the explicit contraction of the vector with the index table it was given',
                          lambda: {**wit(), 'max_abs_err': float(np.abs(got - lin).max()), 'tol': tol, 'got': got, 'expected': lin})
                return
            if not M.close(got, lin, tol, f'partial_trace_ABk_to_AB/{be}/value', 'the fast reduction differs from the explicit contraction of the vector with the index table it was given', wit):
                return
            if np.abs(Bgiven - rd.B_tensor(k, dimB)).max() > 1e-6 * max(vmax, 1.0):
                # a table the caller scaled / edited: oracle 1 is all that can be said about this call
                nc = ctx.extra.setdefault('reductions_with_a_non_canonical_table', {})
                nc[be] = nc.get(be, 0) + 1
                return
        if lay != 'C':
            fresh = state.detach().clone().contiguous() if be == 'torch' else np.ascontiguousarray(s)
            good, rc = M.invoke('partial_trace_ABk_to_AB/layout', Dk.partial_trace_ABk_to_AB, fresh, Bij)
            if good:
                M.close(got, npy(rc), tol, f'partial_trace_ABk_to_AB/{be}/layout-dependent', 'the reduction depends on the memory layout of the coefficient matrix, not only on its values',
                        wit, point='relation/layout-independent')
        # oracle 2: embed with the reference Dicke basis and trace out k-1 copies explicitly
        ref = rd.reduce_explicit(s, k, dimB)
        if got.shape == ref.shape and np.all(np.isfinite(got)) and np.abs(got - ref).max() > tol:
            name = classify_reduction_error(got.astype(np.complex128), ref, dimA, dimB, tol)
            ctx.check(False, f'partial_trace_ABk_to_AB/{be}/{name}', 'the fast reduction differs from embedding with the Dicke basis and tracing out k-1 copies explicitly',
                      lambda: {**wit(), 'max_abs_err': float(np.abs(got - ref).max()), 'tol': tol, 'got': got, 'expected': ref})
            return
        if not M.close(got, ref, tol, f'partial_trace_ABk_to_AB/{be}/value', 'the fast reduction differs from embedding with the Dicke basis and tracing out k-1 copies explicitly',
                       wit, unit=eps * max(nd, 4) * nrm2):
            return
        M.close(np.trace(got), nrm2, tol, f'partial_trace_ABk_to_AB/{be}/trace', 'trace of the reduction differs from |psi|^2', wit)
        if full <= 256 and k >= 2:
            # the full projector, every copy kept in turn with the reference partial trace (symmetric: all equal)
            phi = rd.embed(s, k, dimB).reshape(-1)
            proj = np.outer(phi, phi.conj())
            dims = [dimA] + [dimB] * k
            worst = 0.0
            for copy in range(1, k + 1):
                worst = max(worst, float(np.abs(rp.partial_trace(proj, dims, {0, copy}) - got).max()))
            ctx.check(worst <= tol, f'partial_trace_ABk_to_AB/{be}/differs-for-some-kept-copy', 'the reduction differs from Tr over all copies but one, for some choice of the kept copy',
                      lambda: {**wit(), 'max_abs_err': worst, 'tol': tol}, point='reduction/every-copy-kept')

    ctx.attach(Dk, 'partial_trace_ABk_to_AB', post=post_reduce, pre=pre_reduce, point='numqi.dicke.partial_trace_ABk_to_AB')
    return M


# ----------------------------------------------------------------------------------------------- workloads
@contextlib.contextmanager
def seeded_default_rng(ctx):
    orig = np.random.default_rng

    def patched(seed=None):
        if seed is None:
            seed = int(ctx.rng.integers(0, 2**63 - 1))
        return orig(seed)

    np.random.default_rng = patched
    try:
        yield
    finally:
        np.random.default_rng = orig


ANCHOR_FILES = ('numqi/dicke.py', 'numqi/utils.py')


@contextlib.contextmanager
def driver(ctx, name):
    """run one of numqi's own higher-level callers: an exception born inside the monitored files is a violation,
    an exception elsewhere in the caller (optimizer, eigh not converging, ...) is not about this property: inconclusive."""
    import traceback
    try:
        yield
    except Exception as e:  # noqa
        frames = [fs.f_code.co_filename.replace(os.sep, '/') for fs, _ in traceback.walk_tb(e.__traceback__)]
        last_numqi = [f for f in frames if '/numqi/' in f]
        if last_numqi and last_numqi[-1].endswith(ANCHOR_FILES):
            ctx.check(False, f'{name}/raises/{type(e).__name__}', f'{name}: {type(e).__name__} raised inside the monitored module: {str(e)[:150]}',
                      {'exception': repr(e)[:300], 'frame': last_numqi[-1]})
        elif last_numqi:
            ctx.inconclusive(f'driver-failed-outside-the-monitored-code:{name}:{type(e).__name__}')
        else:
            ctx.harness_error('driver:' + name)


def dimension_lists(tier):
    if tier == 'quick':
        return [t for n in (2, 3, 4) for t in itertools.product((2, 3), repeat=n)]
    return [t for n in (2, 3, 4, 5) for t in itertools.product((2, 3, 4), repeat=n) if int(np.prod(t)) <= 256]


def rand_operator(rng, kind, D):
    z = rng.normal(size=(D, D)) + 1j * rng.normal(size=(D, D))
    if kind == 'complex':
        return z
    if kind == 'real':
        return z.real.copy()
    if kind == 'hermitian':
        return z + z.conj().T
    if kind == 'dm':
        r = int(rng.integers(1, min(D, 6) + 1))
        m = z[:, :r] @ z[:, :r].conj().T
        return m / np.trace(m)
    if kind == 'pure':
        m = np.outer(z[:, 0], z[:, 0].conj())
        return m / np.trace(m)
    if kind == 'int':
        return rng.integers(-5, 6, size=(D, D))
    raise ValueError(kind)


def with_layout(a, layout):
    """the same values in another memory layout (2-D arrays)"""
    if layout == 'F':
        return np.asfortranarray(a)
    if layout == 'T-view':
        return np.ascontiguousarray(a.T).T
    if layout == 'strided':
        return np.stack([a, a], axis=2)[:, :, 0]
    if layout == 'sliced':
        big = np.zeros((a.shape[0] + 2, a.shape[1] + 3), dtype=a.dtype)
        big[1:-1, 2:-1] = a
        return big[1:-1, 2:-1]
    return np.ascontiguousarray(a)


LAYOUTS = ['C', 'F', 'T-view', 'strided', 'sliced']


def keep_variants(rng, keep, n, idx):
    """the admissible ways a caller may spell the same keep set"""
    keep = list(keep)
    forms = [set(keep), list(keep), tuple(keep), list(reversed(keep)), np.array(keep, dtype=np.int64), frozenset(keep),
             list(keep) + list(keep[:1]), [np.int64(x) for x in keep]]
    out = forms[idx % len(forms)]
    if len(keep) == 1 and idx % 3 == 0:
        out = int(keep[0]) if idx % 2 else np.int64(keep[0])
    return out


def run_ptrace_regimes(ctx, numqi):
    """orders of the keep tuple (all permutations incl. 3-cycles), alternating kept/traced patterns, the largest sizes of the quantified range,
    dimension-1 factors, and numerical regimes (tiny / huge / mixed magnitudes, exact objects up to rounding noise that breaks their symmetry)"""
    rng = ctx.rng
    U = numqi.utils
    randc = lambda *sh: rng.normal(size=sh) + 1j * rng.normal(size=sh)
    forms = [tuple, list, lambda t: np.array(t, dtype=np.int64), lambda t: [np.int64(x) for x in t]]

    def ordered(a, dims, perm, idx, opname):
        kv = forms[idx % len(forms)](perm)
        ctx.set_case({'op': opname, 'dim': list(dims), 'keep_index': repr(kv)})
        with ctx.guard('partial_trace/keep-order'):
            r = U.partial_trace(a, dims, kv)  # judged by the contract (kept subsystems in ascending order)
            with ctx.quiet():
                r0 = U.partial_trace(a, dims, set(int(x) for x in perm))
            ok = np.shape(r) == np.shape(r0)
            kind = 'sorted' if list(perm) == sorted(perm) else ('reversed' if list(perm) == sorted(perm, reverse=True) else 'cyclic-or-mixed')
            ctx.check(ok and float(np.abs(np.asarray(r) - np.asarray(r0)).max()) <= 1e-12 * (1 + float(np.abs(a).max())), f'partial_trace/depends-on-the-order-of-keep_index/{kind}',
                      'the result for an ordered keep_index differs from the result for the same subsystems given as a set', {'dim': list(dims), 'keep_index': repr(kv)},
                      point='relation/keep-order-independent')

    ctx.workload('exhaustive')
    idx = 0
    for dims in [(2, 3, 4), (4, 3, 2), (3, 2, 4, 2), (2, 3, 2, 3)]:
        D = int(np.prod(dims))
        a = randc(D, D)
        for size in range(1, 4):
            for sub in itertools.combinations(range(len(dims)), size):
                for perm in itertools.permutations(sub):
                    idx += 1
                    ordered(a, dims, perm, idx, 'partial_trace-keep-order')
    # alternating kept / traced subsystems with unequal neighbours, every order of the kept ones
    for dims, keeps in [((2, 3, 2, 3), [(1, 3), (0, 2)]), ((2, 3, 2, 3, 2), [(0, 2, 4), (1, 3)]), ((3, 2, 4, 2, 3), [(0, 2, 4), (1, 3), (0, 4)])]:
        D = int(np.prod(dims))
        a = randc(D, D)
        for keep in keeps:
            for perm in itertools.permutations(keep):
                idx += 1
                ordered(a, dims, perm, idx, 'partial_trace-alternating-pattern')
    ctx.extra['keep_order_cases'] = idx
    ctx.workload('corner')
    # the largest sizes of the quantified range: 5 subsystems of dimension up to 4
    big_lists = [((4, 4, 4, 4), [(0, 2), (3,), (1, 2, 3)]), ((4, 3, 4, 3, 4), [(0, 2, 4), (3, 1)]), ((4, 4, 4, 4, 4), [(1, 3), (4, 0, 2)])]
    if ctx.tier == 'thorough':
        big_lists += [((4, 4, 4, 4, 4), [(0,), (4,), (0, 1, 2, 3), (2, 3, 4, 1)]), ((3, 4, 4, 4, 3), [(1, 2, 3), (0, 4)]), ((4, 4, 3, 4, 4), [(2,), (0, 1, 3, 4)])]
    for dims, keeps in big_lists:
        D = int(np.prod(dims))
        a = randc(D, D)
        for keep in keeps:
            idx += 1
            ordered(a, dims, keep, idx, 'partial_trace-largest-sizes')
    # subsystems of dimension 1 (kept, traced, first, last, in the middle)
    for dims in [(2, 1, 3), (1, 2, 1), (1, 1, 3), (3, 1, 1, 2)]:
        D = int(np.prod(dims))
        a = randc(D, D)
        for size in range(0, len(dims) + 1):
            for sub in itertools.combinations(range(len(dims)), size):
                ctx.set_case({'op': 'partial_trace-dimension-1-factor', 'dim': list(dims), 'keep_index': list(sub)})
                with ctx.guard('partial_trace/keep-empty' if size == 0 else 'partial_trace'):
                    U.partial_trace(a, dims, list(sub)[::-1] if size > 1 else set(sub))
    # numerical regimes (the map is linear: judged relative to the largest entry of the operator)
    for dims, keep in [((2, 3, 2), (0, 2)), ((3, 4), (1,)), ((2, 2, 2, 3), (3, 1))]:
        D = int(np.prod(dims))
        z = randc(D, D)
        herm = z + z.conj().T
        w = randc(D, 2)
        dm = w @ w.conj().T
        dm = dm / np.trace(dm)
        facs = [randc(d, d) for d in dims]
        facs[1] = facs[1] * 1e-9
        mixed = functools.reduce(np.kron, facs)
        ops = {'magnitude-1e-12': z * 1e-12, 'magnitude-1e9': z * 1e9, 'hermitian+noise-1e-9': herm + 1e-9 * randc(D, D), 'hermitian+noise-1e-11': herm + 1e-11 * randc(D, D),
               'dm+noise-1e-11': dm + 1e-11 * randc(D, D), 'identity+noise-1e-11': np.eye(D) + 1e-11 * randc(D, D), 'real+imaginary-noise-1e-11': z.real + 1e-11j * rng.normal(size=(D, D)),
               'product-with-one-factor-of-magnitude-1e-9': mixed, 'rows-of-mixed-magnitudes': z * (10.0**rng.integers(-9, 10, size=(D, 1))),
               'maximally-mixed+1e-10-traceless': np.eye(D) / D + 1e-10 * (herm - np.trace(herm) / D * np.eye(D)), 'complex64-magnitude-1e-6': (z * 1e-6).astype(np.complex64)}
        for name, a in ops.items():
            for kv in (set(keep), list(keep)):
                ctx.set_case({'op': 'partial_trace-regime', 'name': name, 'dim': list(dims), 'keep_index': repr(kv)})
                with ctx.guard('partial_trace'):
                    U.partial_trace(a, dims, kv)


def run_ptrace(ctx, numqi, shard):
    rng = ctx.rng
    ctx.workload('exhaustive')
    lists = dimension_lists(ctx.tier)
    pairs = [(dims, keep) for dims in lists for keep in rp.all_keep_subsets(len(dims), include_empty=True)]
    ctx.extra['dimension_lists'] = len(lists)
    ctx.extra['list_subset_pairs_total'] = len(pairs)
    kinds = ['complex', 'dm', 'hermitian', 'real', 'pure', 'int']
    done = 0
    for idx, (dims, keep) in enumerate(pairs):
        if idx % shard['nparts'] != shard['part']:
            continue
        D = int(np.prod(dims))
        done += 1
        for rep, kind in enumerate(['complex', kinds[1 + idx % 5]]):
            a = rand_operator(rng, kind, D)
            prec = 'f32' if (idx + rep) % 5 == 0 and kind != 'int' else 'f64'
            if prec == 'f32':
                a = a.astype(np.complex64 if np.iscomplexobj(a) else np.float32)
            # memory layout of the (D,D) operator, or the (*dim,*dim) tensor shape (C-ordered and as a transposed-back view)
            lay = (LAYOUTS + ['tensor', 'tensor-F'])[(idx // 2 + 3 * rep) % 7]
            if lay == 'tensor':
                a = a.reshape(tuple(dims) + tuple(dims))
            elif lay == 'tensor-F':
                a = np.asfortranarray(a.reshape(tuple(dims) + tuple(dims)))
            else:
                a = with_layout(a, lay)
            kv = keep_variants(rng, keep, len(dims), idx + rep)
            dd = [tuple(dims), list(dims), np.array(dims)][(idx + rep) % 3]
            ctx.set_case({'op': 'partial_trace', 'dim': list(dims), 'keep_index': repr(kv), 'kind': kind, 'prec': prec, 'layout': lay})
            key = 'partial_trace/keep-empty' if len(keep) == 0 else 'partial_trace'
            with ctx.guard(key):
                r = numqi.utils.partial_trace(a, dd, kv)
                if kind in ('dm', 'pure'):
                    ctx.check(abs(np.trace(r) - 1) <= C_TOL * in_eps(a) * D, 'partial_trace/state-unit-trace', 'partial trace of a state does not have unit trace',
                              {'dim': list(dims), 'keep_index': repr(kv), 'trace': complex(np.trace(r))})
    ctx.extra['list_subset_pairs_this_shard'] = done
    # corner cases: product operators (closed form), maximally entangled state, identity, single subsystem lists, dimension-1 factors
    ctx.workload('corner')
    for dims in [(2, 3), (3, 2, 2), (2, 2, 2, 2), (4, 3), (1, 3), (3, 1, 2), (5,), (2, 7)]:
        n = len(dims)
        facs = [rng.normal(size=(d, d)) + 1j * rng.normal(size=(d, d)) for d in dims]
        full = facs[0]
        for f in facs[1:]:
            full = np.kron(full, f)
        for keep in rp.all_keep_subsets(n, include_empty=True):
            ctx.set_case({'op': 'partial_trace-product', 'dim': list(dims), 'keep_index': list(keep)})
            with ctx.guard('partial_trace/keep-empty' if len(keep) == 0 else 'partial_trace'):
                r = numqi.utils.partial_trace(full, dims, set(keep))
                expect = np.ones((1, 1), dtype=np.complex128)
                for x in range(n):
                    expect = np.kron(expect, facs[x]) if x in keep else expect * np.trace(facs[x])
                sc = float(np.abs(expect).max())
                ctx.check(np.shape(r) == expect.shape and np.abs(r - expect).max() <= C_TOL * EPS64 * int(np.prod(dims)) * max(sc, float(np.abs(full).max())),
                          'partial_trace/product-operator-closed-form', 'partial trace of a Kronecker product is not the product of kept factors times traces of the others',
                          {'dim': list(dims), 'keep_index': list(keep)})
    if shard['part'] == shard['nparts'] - 1:
        run_ptrace_regimes(ctx, numqi)
    for d in (2, 3, 4):
        psi = np.eye(d).reshape(-1) / np.sqrt(d)
        rho = np.outer(psi, psi)
        for keep in (0, 1):
            ctx.set_case({'op': 'partial_trace-maximally-entangled', 'd': d, 'keep': keep})
            with ctx.guard('partial_trace'):
                r = numqi.utils.partial_trace(rho, (d, d), keep)
                ctx.check(np.shape(r) == (d, d) and np.abs(r - np.eye(d) / d).max() <= 1e-14, 'partial_trace/maximally-entangled-closed-form',
                          'the marginal of a maximally entangled state is not maximally mixed', {'d': d, 'keep': keep})


def dicke_pairs(tier):
    # numqi builds the basis from all n! permutations ("use this in unittest only"): n is capped
    if tier == 'quick':
        return [(n, d) for d in (2, 3, 4) for n in range(1, 8) if d**n <= 1024]
    return [(n, d) for d in (2, 3, 4, 5) for n in range(1, 9) if d**n <= 4096]


def run_dicke_basis(ctx, numqi, shard):
    Dk = numqi.dicke
    ctx.workload('exhaustive')
    part, nparts = shard.get('part', 0), shard.get('nparts', 1)
    pairs = dicke_pairs(ctx.tier)
    ctx.extra['basis_pairs'] = [list(p) for p in pairs]
    for idx, (n, d) in enumerate(pairs):
        if idx % nparts != part:
            continue
        ctx.set_case({'op': 'dicke-basis', 'num_qudit': n, 'dim': d})
        with ctx.guard('dicke-basis'):
            kl = Dk.get_dicke_klist(n, d)
            Dk.get_dicke_number(n, d)
            Dk.get_dicke_basis(n, d)
            Dk.get_partial_trace_ABk_to_AB_index(n, d)
            Dk.get_partial_trace_ABk_to_AB_index(n, d, return_tensor=True)
            if d**n <= 256 or ctx.tier == 'thorough':
                for occ in kl:
                    Dk.Dicke(*occ)
            else:
                for occ in [kl[0], kl[-1], kl[len(kl) // 2], kl[int(ctx.rng.integers(len(kl)))]]:
                    Dk.Dicke(*occ)
    if part == 0:
        # tables / counts beyond the sizes where the basis itself is built
        nmax = 12 if ctx.tier == 'quick' else 16
        for n in range(2, nmax + 1):
            ctx.set_case({'op': 'qubit-table', 'num_qubit': n})
            with ctx.guard('qubit-table'):
                Dk.get_qubit_dicke_partial_trace(n)
        for d in (2, 3, 4):
            for n in range(1, 13):
                if d**n <= 2**14 and rd.number(n, d) <= 500 and (n, d) not in pairs:
                    ctx.set_case({'op': 'index-table', 'num_qudit': n, 'dim': d})
                    with ctx.guard('index-table'):
                        Dk.get_dicke_klist(n, d)
                        Dk.get_partial_trace_ABk_to_AB_index(n, d)
        for d in range(2, 9):
            for n in range(1, 41 if ctx.tier == 'quick' else 121):
                ctx.set_case({'op': 'number', 'num_qudit': n, 'dim': d})
                with ctx.guard('number'):
                    Dk.get_dicke_number(n, d)
        # the two halves of the property against each other: the one-copy marginal of a qubit Dicke state by the
        # general partial trace vs the closed-form table
        ctx.workload('realistic')
        for n in range(2, 9):
            for e in range(n + 1):
                ctx.set_case({'op': 'dicke-marginal', 'num_qubit': n, 'level0_count': e})
                with ctx.guard('dicke-marginal'):
                    v = Dk.Dicke(e, n - e)
                    rho1 = numqi.utils.partial_trace(np.outer(v, v), [2] * n, int(ctx.rng.integers(n)))
                    a00, a01, a11 = Dk.get_qubit_dicke_partial_trace(n)
                    expect = np.array([[a00[e], 0], [0, a11[e]]])
                    ctx.check(np.shape(rho1) == (2, 2) and np.abs(rho1 - expect).max() <= 1e-13, 'dicke-marginal!=qubit-table',
                              'one-qubit marginal of a Dicke state (general partial trace) differs from the closed-form table', {'n': n, 'e': e})


def abk_triples(extended=False):
    base = [(a, b, k) for a in (2, 3, 4) for b in (2, 3, 4) for k in (1, 2, 3, 4, 5) if a * b**k <= 2048]
    if extended:  # beyond the stated range: dimA, dimB up to 5, k up to 10 while the embedding stays below 2^13
        base += [(a, b, k) for a in (2, 3, 4, 5) for b in (2, 3, 4, 5) for k in range(1, 11) if a * b**k <= 8192 and (a, b, k) not in base]
    return base


def make_vectors(rng, dimA, dimB, k, nd, thorough):
    z = rng.normal(size=(dimA, nd)) + 1j * rng.normal(size=(dimA, nd))
    out = {'random-normalised': z / np.linalg.norm(z)}
    z2 = rng.normal(size=(dimA, nd)) + 1j * rng.normal(size=(dimA, nd))
    out['random-unnormalised'] = z2 * float(10**rng.uniform(-2, 2))
    # product state |a>|b>^k: reduction must be |a><a| (x) |b><b|
    a = rng.normal(size=dimA) + 1j * rng.normal(size=dimA)
    b = rng.normal(size=dimB) + 1j * rng.normal(size=dimB)
    a, b = a / np.linalg.norm(a), b / np.linalg.norm(b)
    bk = b
    for _ in range(k - 1):
        bk = np.kron(bk, b)
    out['product'] = (np.outer(a, rd.basis(k, dimB) @ bk), np.kron(a, b))
    if thorough or rng.random() < 0.5:
        out['real'] = z.real / np.linalg.norm(z.real)
        e = np.zeros((dimA, nd), dtype=np.complex128)
        e[int(rng.integers(dimA)), int(rng.integers(nd))] = 1
        out['single-dicke-state'] = e
        sp = z * (rng.random(size=z.shape) < 0.3)
        out['sparse'] = sp if np.abs(sp).max() > 0 else z
    # numerical / shape regimes (judged relative to |psi|^2): tiny and huge norms, ONE zero row (a level of A without amplitude) / ONE zero
    # column (an unused Dicke state) that must not leak into the other entries, rows of very different magnitudes, exact objects up to
    # rounding noise (a real vector with imaginary noise: the transposed result differs from the right one only at that level)
    e1 = np.zeros((dimA, nd), dtype=np.complex128)
    e1[int(rng.integers(dimA)), int(rng.integers(nd))] = 1
    zr = z2.copy()
    zr[int(rng.integers(dimA))] = 0
    zc = z2.copy()
    zc[:, int(rng.integers(nd))] = 0
    regimes = {'norm-1e-9': z / np.linalg.norm(z) * 1e-9, 'norm-1e6': z / np.linalg.norm(z) * 1e6, 'one-zero-row': zr, 'one-zero-column': zc,
               'rows-of-mixed-magnitudes': z * (10.0**rng.integers(-8, 1, size=(dimA, 1))), 'columns-of-mixed-magnitudes': z * (10.0**rng.integers(-8, 1, size=(1, nd))),
               'real+imaginary-noise-1e-11': z.real / np.linalg.norm(z.real) + 1e-11j * rng.normal(size=z.shape),
               'single-dicke-state+noise-1e-11': e1 + 1e-11 * z2}
    names = sorted(regimes)
    pick = names if thorough else [names[(dimA + 2 * dimB + 3 * k + t) % len(names)] for t in (0, 3)]
    for nm in pick:
        out['regime/' + nm] = regimes[nm]
    return out


def run_abk(ctx, numqi, torch, backend):
    Dk = numqi.dicke
    rng = ctx.rng
    ctx.workload('exhaustive')
    triples = abk_triples(extended=(ctx.tier == 'thorough'))
    ctx.extra['triples'] = len(triples)
    for (dimA, dimB, k) in triples:
        nd = rd.number(k, dimB)
        with ctx.guard('abk/index'):
            Bij = Dk.get_partial_trace_ABk_to_AB_index(k, dimB)
        vecs = make_vectors(rng, dimA, dimB, k, nd, ctx.tier == 'thorough')
        for kind, v in vecs.items():
            expect = None
            if kind == 'product':
                v, ab = v
                expect = np.outer(ab, ab.conj())
            for prec in (('f64', 'f32') if kind in ('random-normalised', 'product') else ('f64',)):
                cd = np.complex64 if prec == 'f32' else np.complex128
                vv = v.astype(cd)
                ctx.set_case({'op': 'reduce', 'dimA': dimA, 'dimB': dimB, 'k': k, 'backend': backend, 'prec': prec, 'kind': kind})
                with ctx.guard(f'abk/{backend}'):
                    if backend == 'torch':
                        tdt = [torch.int64, torch.int64, torch.complex64 if prec == 'f32' else torch.complex128]
                        Bt = [[torch.tensor(np.asarray(y0), dtype=y1) for y0, y1 in zip(x, tdt)] for x in Bij]
                        r = Dk.partial_trace_ABk_to_AB(torch.from_numpy(vv.copy()), Bt)
                        if kind == 'random-normalised':
                            g = torch.from_numpy(vv.copy()).requires_grad_(True)
                            rg_ = Dk.partial_trace_ABk_to_AB(g, Bt)
                            rg_.real.sum().backward()
                            # evaluation modes: the VALUE must not depend on requires_grad / torch.no_grad() / the input being a non-leaf of a graph
                            outs = {'input-requires-grad': rg_}
                            with torch.no_grad():
                                outs['no_grad'] = Dk.partial_trace_ABk_to_AB(torch.from_numpy(vv.copy()), Bt)
                                outs['no_grad+input-requires-grad'] = Dk.partial_trace_ABk_to_AB(torch.from_numpy(vv.copy()).requires_grad_(True), Bt)
                            outs['non-leaf-input-of-a-graph'] = Dk.partial_trace_ABk_to_AB(torch.from_numpy(vv.copy()).requires_grad_(True) * 1.0, Bt)
                            for mode, ro in outs.items():
                                ro = npy(ro)
                                ctx.check(ro.shape == npy(r).shape and float(np.abs(ro - npy(r)).max()) <= 10 * (EPS32 if prec == 'f32' else EPS64) * max(nd, 4),
                                          f'partial_trace_ABk_to_AB/torch/evaluation-mode-changes-value/{mode}', f'the reduction of the same numbers differs between a plain tensor and the mode "{mode}"',
                                          {'dimA': dimA, 'dimB': dimB, 'k': k, 'prec': prec}, point='relation/evaluation-mode-independent')
                    else:
                        Bn = Bij if prec == 'f64' else [(x[0], x[1], x[2].astype(np.float32)) for x in Bij]
                        r = Dk.partial_trace_ABk_to_AB(vv, Bn)
                        if kind == 'random-normalised' and prec == 'f64':
                            # a non-contiguous (transposed-view) coefficient matrix
                            Dk.partial_trace_ABk_to_AB(np.asfortranarray(vv), Bn)
                    rn = npy(r)
                    eps = EPS32 if prec == 'f32' else EPS64
                    if expect is not None:
                        ctx.check(rn.shape == expect.shape and np.abs(rn - expect).max() <= C_TOL * eps * max(nd, 4), f'partial_trace_ABk_to_AB/{backend}/product-state-closed-form',
                                  'the reduction of |a>|b>^k is not |a><a| (x) |b><b|', {'dimA': dimA, 'dimB': dimB, 'k': k, 'prec': prec})
                    # torch == numpy on the same numbers (relational)
                    if backend == 'torch':
                        Bn = Bij if prec == 'f64' else [(x[0], x[1], x[2].astype(np.float32)) for x in Bij]
                        r2 = Dk.partial_trace_ABk_to_AB(vv, Bn)
                        nrm2 = float((np.abs(vv)**2).sum())
                        ok = np.shape(r2) == rn.shape
                        ctx.check(ok and np.abs(np.asarray(r2) - rn).max() <= C_TOL * eps * max(nd, 4) * nrm2, 'partial_trace_ABk_to_AB/torch!=numpy',
                                  'torch and numpy reductions differ on the same input', {'dimA': dimA, 'dimB': dimB, 'k': k, 'prec': prec, 'kind': kind},
                                  point='relation/torch==numpy')
        # dtype / memory layout of the coefficient matrix: real float64 / float32 / integer dtypes, Fortran order, transposed and
        # strided views (numpy), transposed / strided views (torch): the contract judges every call from the VALUES
        z = rng.normal(size=(dimA, nd)) + 1j * rng.normal(size=(dimA, nd))
        wide = np.zeros((dimA, 2 * nd), dtype=np.complex128)
        wide[:, ::2] = z
        variants = {}
        if backend == 'numpy':
            variants = {'real-float64': z.real.copy(), 'real-float32': z.real.astype(np.float32), 'int64': rng.integers(-3, 4, size=(dimA, nd)),
                        'fortran-order': np.asfortranarray(z), 'transposed-view': np.ascontiguousarray(z.T).T, 'strided-view': wide[:, ::2],
                        'real-transposed-view': np.ascontiguousarray(z.real.T).T}
            tables = {'default': Bij}
        else:
            tz = torch.from_numpy(z.copy())
            variants = {'real-float64': torch.from_numpy(z.real.copy()), 'transposed-view': torch.from_numpy(np.ascontiguousarray(z.T)).T,
                        'strided-view': torch.from_numpy(wide.copy())[:, ::2], 'conj-view': tz.conj(), 'real-transposed-view': torch.from_numpy(np.ascontiguousarray(z.real.T)).T}
            tables = {'complex128': [[torch.tensor(np.asarray(y0), dtype=y1) for y0, y1 in zip(x, [torch.int64, torch.int64, torch.complex128])] for x in Bij],
                      'float64': [[torch.tensor(np.asarray(y)) for y in x] for x in Bij]}
        for name, st in variants.items():
            tb = tables['default'] if backend == 'numpy' else tables['float64' if name.startswith('real') else 'complex128']
            ctx.set_case({'op': 'reduce-dtype-layout', 'dimA': dimA, 'dimB': dimB, 'k': k, 'backend': backend, 'variant': name})
            with ctx.guard(f'abk/{backend}/dtype-layout'):
                Dk.partial_trace_ABk_to_AB(st, tb)


def run_model_consumers(ctx, numqi, torch):
    """the anchored consumer entangle/pureb.py (PureBosonicExt) as an OBJECT: after every forward() the reduced state it reports must be the
    explicit reduction (reference Dicke embedding + explicit trace) of ITS OWN current parameters - in every evaluation mode (autograd / no_grad /
    frozen parameters) and through the object's life (deepcopy, load_state_dict, in-place parameter update, a second instance); its less
    prominent entry points (expectation-operator loss, get_numerical_range) are judged against the same explicit reduction."""
    rng = ctx.rng
    big = ctx.tier == 'thorough'
    ctx.workload('realistic')

    def explicit_dm(model, dimA, dimB, k):
        with torch.no_grad():
            with ctx.quiet():
                psi = npy(model.manifold()).reshape(dimA, -1)
        return rd.reduce_explicit(psi, k, dimB)

    def check_model(model, dimA, dimB, k, stage, mode='grad'):
        """one forward() in the given mode, then: reported state == explicit reduction of the model's current parameters"""
        ctx.set_case({'op': 'PureBosonicExt/lifecycle', 'dimA': dimA, 'dimB': dimB, 'kext': k, 'stage': stage, 'mode': mode})
        with (torch.no_grad() if mode == 'no_grad' else contextlib.nullcontext()):
            loss = model()
        got = npy(model.dm_torch)
        want = explicit_dm(model, dimA, dimB, k)
        ok = got.shape == want.shape
        ctx.check(ok and float(np.abs(got - want).max()) <= 1e-12, f'PureBosonicExt/{stage}/reported-state!=explicit-reduction-of-its-parameters',
                  f'PureBosonicExt ({stage}, {mode}): dm_torch after forward() is not the explicit reduction (Dicke embedding, trace of k-1 copies) of the state its own current parameters describe',
                  {'dimA': dimA, 'dimB': dimB, 'kext': k, 'max_abs_err': float(np.abs(got - want).max()) if ok else None}, point='lifecycle/model-state')
        return float(loss), got

    def set_params(model, vals=None):
        with torch.no_grad():
            for p in model.parameters():
                p.copy_(torch.from_numpy(rng.normal(size=tuple(p.shape))) if vals is None else vals)

    triples = [(2, 2, 2), (2, 3, 2), (3, 2, 3)] + ([(2, 2, 4), (3, 3, 2), (2, 4, 3)] if big else [])
    for dimA, dimB, k in triples:
        with driver(ctx, 'lifecycle/PureBosonicExt'):
            D = dimA * dimB
            w = rng.normal(size=(D, D)) + 1j * rng.normal(size=(D, D))
            rho = w @ w.conj().T
            rho = rho / np.trace(rho)
            m1 = numqi.entangle.PureBosonicExt(dimA, dimB, kext=k, distance_kind='gellmann')
            m1.set_dm_target(rho)
            set_params(m1)
            check_model(m1, dimA, dimB, k, 'fresh')
            # evaluation modes: NEW parameters, first evaluated under no_grad / with frozen parameters (nothing of an earlier call may be reused), then with
            # autograd: same parameters => same value in every mode
            set_params(m1)
            l_ng, dm_b = check_model(m1, dimA, dimB, k, 'new-parameters-first-seen-under-no_grad', 'no_grad')
            l_grad, dm_a = check_model(m1, dimA, dimB, k, 'same-parameters-with-autograd')
            set_params(m1)
            for p in m1.parameters():
                p.requires_grad_(False)
            l_fr, dm_c = check_model(m1, dimA, dimB, k, 'new-parameters-first-seen-frozen')
            for p in m1.parameters():
                p.requires_grad_(True)
            l_g2, dm_d = check_model(m1, dimA, dimB, k, 'same-parameters-unfrozen')
            ctx.check(max(abs(l_grad - l_ng), abs(l_g2 - l_fr)) <= 1e-13 and max(float(np.abs(dm_a - dm_b).max()), float(np.abs(dm_d - dm_c).max())) <= 1e-13,
                      'PureBosonicExt/evaluation-mode-changes-value', 'loss / reduced state of the same parameters differ between autograd, torch.no_grad() and frozen parameters',
                      {'dimA': dimA, 'dimB': dimB, 'kext': k, 'losses': [l_grad, l_ng, l_g2, l_fr]}, point='relation/evaluation-mode-independent')
            # in-place parameter update, then call again
            set_params(m1)
            check_model(m1, dimA, dimB, k, 'after-in-place-parameter-update')
            theta1 = [p.detach().clone() for p in m1.parameters()]
            # deepcopy, new parameters for the copy: the copy is a function of ITS parameters, the original of its own
            m2 = copy.deepcopy(m1)
            set_params(m2)
            _, dm2 = check_model(m2, dimA, dimB, k, 'deepcopy-with-new-parameters')
            _, dm1 = check_model(m1, dimA, dimB, k, 'original-after-the-copy-was-used')
            ctx.check(all(bool((p == q).all()) for p, q in zip(m1.parameters(), theta1)), 'PureBosonicExt/deepcopy/shares-parameters-with-the-original',
                      'updating the parameters of a deepcopy changed the parameters of the original', {'dimA': dimA, 'dimB': dimB, 'kext': k}, point='lifecycle/model-state')
            check_model(m2, dimA, dimB, k, 'deepcopy-second-call')
            # load_state_dict into a second, independently constructed instance: same state as the source; then its own new parameters
            m3 = numqi.entangle.PureBosonicExt(dimA, dimB, kext=k, distance_kind='gellmann')
            m3.set_dm_target(rho)
            m3.load_state_dict(m1.state_dict())
            _, dm3 = check_model(m3, dimA, dimB, k, 'load_state_dict')
            ctx.check(float(np.abs(dm3 - dm1).max()) <= 1e-13, 'PureBosonicExt/load_state_dict/state-differs-from-the-source',
                      'an instance loaded with the state_dict of another reports a different reduced state', {'dimA': dimA, 'dimB': dimB, 'kext': k}, point='lifecycle/model-state')
            set_params(m3)
            check_model(m3, dimA, dimB, k, 'load_state_dict-then-new-parameters')
            check_model(m1, dimA, dimB, k, 'original-after-a-second-instance-was-used')
            # a caller may scale ITS OWN index table (e.g. fold a factor in): a second instance must not see it
            for x in m2.Bij:
                x[2].mul_(0.5)
            check_model(m3, dimA, dimB, k, 'other-instance-after-one-instance-scaled-its-table')
            check_model(m1, dimA, dimB, k, 'original-after-the-copy-scaled-its-table')
            # less prominent entry point: the expectation-operator loss == Tr(op rho_AB) with the EXPLICIT reduction
            op = rng.normal(size=(D, D)) + 1j * rng.normal(size=(D, D))
            op = op + op.conj().T
            m1.set_expectation_op(op)
            for mode in ('grad', 'no_grad'):
                loss, _ = check_model(m1, dimA, dimB, k, 'expectation-op', mode)
                want = float(np.trace(op @ explicit_dm(m1, dimA, dimB, k)).real)
                ctx.check(abs(loss - want) <= 1e-11 * (1 + float(np.abs(op).max()) * D), f'consumer/PureBosonicExt/expectation-loss!=Tr(op rho_AB)/{mode}',
                          'the expectation-operator loss is not Tr(op rho_AB) with rho_AB the explicit reduction of the current parameters',
                          {'dimA': dimA, 'dimB': dimB, 'kext': k, 'loss': loss, 'expected': want}, point='consumer/value-against-explicit-reduction')
    # get_numerical_range: every returned point is (Tr(op0 rho), Tr(op1 rho)) of the state the model reports; a reduced STATE lies in the numerical
    # range of all states (support function <= largest eigenvalue), and the last point belongs to the state left in dm_torch
    for dimA, dimB, k in [(2, 2, 2)] + ([(2, 3, 3)] if big else []):
        ctx.set_case({'op': 'PureBosonicExt.get_numerical_range', 'dimA': dimA, 'dimB': dimB, 'kext': k})
        with driver(ctx, 'consumer/PureBosonicExt.get_numerical_range'):
            D = dimA * dimB
            ops = []
            for _ in range(2):
                z = rng.normal(size=(D, D)) + 1j * rng.normal(size=(D, D))
                ops.append(z + z.conj().T)
            model = numqi.entangle.PureBosonicExt(dimA, dimB, kext=k)
            nth = 3 if not big else 6
            pts = np.asarray(model.get_numerical_range(ops[0], ops[1], num_theta=nth, converge_tol=1e-6, num_repeat=1, use_tqdm=False, seed=int(rng.integers(2**31))))
            ok = pts.shape == (nth, 2)
            ctx.check(ok, 'consumer/get_numerical_range/shape', 'get_numerical_range did not return (num_theta, 2) points', {'shape': pts.shape}, point='consumer/value-against-explicit-reduction')
            if ok:
                want_last = [float(np.trace(x @ explicit_dm(model, dimA, dimB, k)).real) for x in ops]
                ctx.check(float(np.abs(pts[-1] - want_last).max()) <= 1e-10 * D * float(max(np.abs(x).max() for x in ops)), 'consumer/get_numerical_range/point!=expectation-in-the-explicit-reduction',
                          'the last point is not (Tr(op0 rho), Tr(op1 rho)) with rho the explicit reduction of the parameters the optimiser left in the model',
                          {'got': pts[-1], 'expected': want_last}, point='consumer/value-against-explicit-reduction')
                worst = -np.inf
                for t, pt in zip(np.linspace(0, 2 * np.pi, nth), pts):
                    worst = max(worst, float(np.cos(t) * pt[0] + np.sin(t) * pt[1] - np.linalg.eigvalsh(np.cos(t) * ops[0] + np.sin(t) * ops[1])[-1]))
                ctx.check(worst <= 1e-9, 'consumer/get_numerical_range/point-outside-the-range-of-all-states', 'a boundary point of the bosonic-extension numerical range lies outside the '
                          'numerical range of ALL states (its support function exceeds the largest eigenvalue): the reported reduction is not a state', {'excess': worst},
                          point='consumer/value-against-explicit-reduction')


def run_realistic(ctx, numqi, torch):
    rng = ctx.rng
    big = ctx.tier == 'thorough'
    ctx.workload('realistic')
    with seeded_default_rng(ctx):
        # 'ree' needs a full-rank reduction (dim Sym^(k-1)(B) >= dimA*dimB), otherwise log(rho_AB) diverges: small k use the Gell-Mann distance
        triples = [(2, 2, 2, 'gellmann'), (2, 3, 3, 'gellmann'), (3, 2, 4, 'gellmann'), (2, 2, 5, 'ree')]
        if big:
            triples += [(3, 3, 3, 'gellmann'), (2, 4, 3, 'gellmann'), (4, 2, 5, 'gellmann'), (3, 3, 4, 'ree'), (2, 2, 8, 'ree'), (2, 3, 5, 'ree')]
        for dimA, dimB, k, kind in triples:
            ctx.set_case({'op': 'PureBosonicExt', 'dimA': dimA, 'dimB': dimB, 'kext': k, 'distance_kind': kind})
            with driver(ctx, 'realistic/PureBosonicExt'):
                model = numqi.entangle.PureBosonicExt(dimA, dimB, kext=k, distance_kind=kind)
                rho = numqi.random.rand_density_matrix(dimA * dimB, seed=int(rng.integers(2**31)))
                model.set_dm_target(rho)
                numqi.optimize.minimize(model, theta0='uniform', num_repeat=1, tol=1e-7, print_every_round=0, seed=int(rng.integers(2**31)),
                                        maxiter=15 if not big else 50)
                op = numqi.random.rand_hermitian_matrix(dimA * dimB, seed=int(rng.integers(2**31)))
                model.set_expectation_op(op)
                numqi.optimize.minimize(model, theta0='uniform', num_repeat=1, tol=1e-7, print_every_round=0, seed=int(rng.integers(2**31)), maxiter=10)
        for dim, k, fam in [(2, 5, 'Werner')] + ([(2, 4, 'Isotropic'), (3, 4, 'Werner')] if big else []):
            ctx.set_case({'op': 'PureBosonicExt.get_boundary', 'dim': dim, 'kext': k, 'family': fam})
            with driver(ctx, 'realistic/PureBosonicExt.get_boundary'):
                model = numqi.entangle.PureBosonicExt(dim, dim, kext=k, distance_kind='ree')
                dm0 = getattr(numqi.state, fam)(dim, 1)
                model.get_boundary(dm0, xtol=1e-2, converge_tol=1e-8, threshold=1e-6, num_repeat=1, use_tqdm=False, seed=int(rng.integers(2**31)))
        # (QuantumPureBosonicExt needs dimA == dimB: it applies the dimB Weyl matrices to system A)
        for dimA, dimB, k, nl in [(2, 2, 3, 2), (3, 3, 2, 2)] + ([(2, 2, 5, 3)] if big else []):
            ctx.set_case({'op': 'QuantumPureBosonicExt', 'dimA': dimA, 'dimB': dimB, 'kext': k, 'num_layer': nl})
            with driver(ctx, 'realistic/QuantumPureBosonicExt'):
                model = numqi.entangle.QuantumPureBosonicExt(dimA, dimB, k, nl)
                rho = numqi.random.rand_density_matrix(dimA * dimB, seed=int(rng.integers(2**31)))
                model.set_dm_target(rho)
                for _ in range(3):
                    loss = model()
                    loss.backward()
        for dimA, dimB, k in [(2, 2, 2), (2, 3, 3), (3, 2, 4)]:
            ctx.set_case({'op': 'get_ABk_gellmann_preimage_op', 'dimA': dimA, 'dimB': dimB, 'kext': k})
            with driver(ctx, 'realistic/get_ABk_gellmann_preimage_op'):
                numqi.maximum_entropy.get_ABk_gellmann_preimage_op(dimA, dimB, k, kind='boson')
    # the anchored consumer of the Dicke table (maximum_entropy/_internal.py): the lifted operators O_i must satisfy
    # <psi|O_i|psi> = Tr[G_i rho_AB] with rho_AB the EXPLICIT reduction (embed with the reference Dicke basis, trace k-1 copies) for
    # kind='boson', and the average over the k copies of the explicit two-party marginals for kind='symmetric'
    ctx.workload('random')
    triples = [(2, 2, 2), (2, 3, 2), (3, 2, 2), (2, 2, 3), (3, 2, 3), (2, 3, 3), (3, 3, 2)] + ([(2, 2, 4), (4, 2, 2), (2, 4, 2), (3, 2, 4), (2, 2, 5)] if big else [])
    for dimA, dimB, k in triples:
        for kind in ('boson', 'symmetric'):
            if kind == 'symmetric' and dimA * dimB**k > 64:
                continue
            ctx.set_case({'op': 'get_ABk_gellmann_preimage_op/value', 'dimA': dimA, 'dimB': dimB, 'kext': k, 'kind': kind})
            with ctx.guard('get_ABk_gellmann_preimage_op'):
                ops = np.asarray(numqi.maximum_entropy.get_ABk_gellmann_preimage_op(dimA, dimB, k, kind=kind))
                G = np.asarray(numqi.gellmann.all_gellmann_matrix(dimA * dimB, with_I=False))
                nd = rd.number(k, dimB)
                D = dimA * (nd if kind == 'boson' else dimB**k)
                ctx.case('preimage-op', dimA, dimB, k, kind)
                ok_shape = ops.shape == (G.shape[0], D, D)
                ctx.check(ok_shape, f'get_ABk_gellmann_preimage_op/{kind}/shape', 'lifted Gell-Mann operators have the wrong shape', {'shape': ops.shape, 'expected': (G.shape[0], D, D)})
                if not ok_shape:
                    continue
                worst = 0.0
                for _ in range(3):
                    if kind == 'boson':
                        psi = rng.normal(size=(dimA, nd)) + 1j * rng.normal(size=(dimA, nd))
                        psi /= np.linalg.norm(psi)
                        rho_ab = rd.reduce_explicit(psi, k, dimB)
                        vec = psi.reshape(-1)
                    else:
                        vec = rng.normal(size=D) + 1j * rng.normal(size=D)
                        vec /= np.linalg.norm(vec)
                        full = np.outer(vec, vec.conj())
                        rho_ab = sum(rp.partial_trace(full, [dimA] + [dimB] * k, (0, j)) for j in range(1, k + 1)) / k
                    got = np.einsum(vec.conj(), [1], ops, [0, 1, 2], vec, [2], [0])
                    want = np.einsum(G, [0, 1, 2], rho_ab, [2, 1], [0])
                    worst = max(worst, float(np.abs(got - want).max()))
                ctx.check(worst < 1e-10, f'get_ABk_gellmann_preimage_op/{kind}/expectation-differs-from-explicit-reduction',
                          '<psi|lift(G_i)|psi> differs from Tr[G_i rho_AB] with rho_AB from the explicit embedding and trace', {'max_abs_err': worst})
    for k in (1, 2, 3, 5) + ((8,) if big else ()):
        ctx.set_case({'op': 'get_symmetric_extension_irrep_coeff', 'dim': 2, 'kext': k})
        with driver(ctx, 'realistic/get_symmetric_extension_irrep_coeff'):
            coeff, mult = numqi.group.symext.get_symmetric_extension_irrep_coeff(2, k)
            # (consumer of the dense table in another module) for qubits the only irrep used is the symmetric one: coeff[a,b,r,s] = B[r,s,a,b]
            want = rd.B_tensor(k, 2).transpose(2, 3, 0, 1)
            ok = len(coeff) == 1 and tuple(mult) == (1,) and np.shape(coeff[0]) == want.shape
            ctx.check(ok and float(np.abs(np.asarray(coeff[0]) - want).max()) <= 1e-13, 'consumer/get_symmetric_extension_irrep_coeff/qubit-coefficients!=explicit-contraction',
                      'the qubit symmetric-extension coefficients are not B[r,s,a,b] (explicit contraction of the reference Dicke basis) with the index pairs exchanged',
                      {'kext': k}, point='consumer/value-against-explicit-reduction')
    run_model_consumers(ctx, numqi, torch)
    # reduced states of numqi's named multi-qubit states through the general partial trace
    for n in (3, 4, 5):
        for name, v in [('W', numqi.state.W(n)), ('GHZ', numqi.state.GHZ(n))]:
            ctx.set_case({'op': 'named-state-marginals', 'state': name, 'n': n})
            with driver(ctx, 'realistic/named-state-marginals'):
                rho = np.outer(v, v.conj())
                for keep in rp.all_keep_subsets(n, include_empty=True):
                    with ctx.guard('partial_trace/keep-empty' if len(keep) == 0 else 'partial_trace'):
                        numqi.utils.partial_trace(rho, [2] * n, keep)


# ----------------------------------------------------------------------------------------------- histories
def result_arrays(obj):
    """numpy views sharing memory with every array inside a (nested) result"""
    out = []

    def walk(o):
        if isinstance(o, np.ndarray):
            out.append(o)
        elif is_torch(o):
            try:
                out.append(o.detach().numpy())
            except Exception:
                pass
        elif isinstance(o, (list, tuple)):
            for x in o:
                walk(x)
    walk(obj)
    return out


def freeze(obj):
    """deep value snapshot of a (nested) result"""
    if isinstance(obj, np.ndarray) or is_torch(obj):
        return ('arr', np.array(npy(obj), copy=True))
    if isinstance(obj, (list, tuple)):
        return (type(obj).__name__, [freeze(x) for x in obj])
    return ('val', obj)


def frozen_close(a, b, path='result'):
    """(ok, where) : same structure and values (1e-12 relative)"""
    if a[0] != b[0]:
        return False, f'{path}: {a[0]} vs {b[0]}'
    if a[0] == 'arr':
        x, y = a[1], b[1]
        if x.shape != y.shape:
            return False, f'{path}: shape {x.shape} vs {y.shape}'
        if x.size == 0:
            return True, ''
        with np.errstate(all='ignore'):
            err = float(np.abs(x.astype(np.complex128) - y.astype(np.complex128)).max())
        sc = float(np.abs(y.astype(np.complex128)).max())
        return (bool(err <= 1e-12 * (1 + sc)), f'{path}: max abs difference {err:.3e}')
    if a[0] == 'val':
        return (a[1] == b[1], f'{path}: {a[1]!r} vs {b[1]!r}')
    if len(a[1]) != len(b[1]):
        return False, f'{path}: length {len(a[1])} vs {len(b[1])}'
    for i, (x, y) in enumerate(zip(a[1], b[1])):
        ok, where = frozen_close(x, y, f'{path}[{i}]')
        if not ok:
            return False, where
    return True, ''


def edit_in_place(arrs):
    n = 0
    for a in arrs:
        if a.flags.writeable and a.size:
            if a.dtype.kind in 'fc':
                np.multiply(a, 3, out=a)
                a += 1
            elif a.dtype.kind in 'iu':
                a += 1
            elif a.dtype.kind == 'b':
                np.logical_not(a, out=a)
            else:
                continue
            n += 1
    return n


def edit_result_then_call_again(ctx, name, call, between=None):
    """history: r1 = f(x); the caller edits r1 in place (its own result); f(equal x) must still be right.
    `call` builds fresh, equal arguments every time. The first and the last call are monitored by the contracts."""
    ctx.set_case({'op': 'history/edit-result-then-call-again', 'fn': name})
    with ctx.guard(f'history/{name}'):
        r1 = call()
        before = freeze(r1)
        arrs = result_arrays(r1)
        backups = [a.copy() for a in arrs]
        n = edit_in_place(arrs)
        rev = isinstance(r1, list) and len(r1) > 1
        if rev:
            r1.reverse()
        st = ctx.extra.setdefault('edit_result_histories', {})
        st[name] = st.get(name, 0) + 1
        if n == 0 and not rev:
            ro = ctx.extra.setdefault('results_not_editable (read-only or scalar)', {})
            ro[name] = ro.get(name, 0) + 1
        try:
            with ctx.quiet():
                r2 = call()
            ok, where = frozen_close(freeze(r2), before)
            aliased = any(np.shares_memory(x, y) for x in result_arrays(r2) for y in arrs)
            ctx.check(ok, f'{name}/stale-after-inplace-update',
                      f'{name}: after the caller edited, in place, the arrays an earlier call returned, a new call with equal arguments no longer returns the same (correct) values: results are shared mutable state',
                      {'where': where, 'result_aliases_earlier_call': aliased}, point='history/edit-result-then-call-again')
            if ok and between is not None:
                between()  # numqi's own callers of f, monitored, while the earlier result is still edited
        finally:
            if rev:
                r1.reverse()
            for a, b in zip(arrs, backups):
                if a.flags.writeable:
                    a[...] = b
        call()


def work_buffer(ctx, name, call, buf, fills, clone):
    """history: one argument object reused as a work buffer: fill, call, refill in place, call again ... every call must be
    right for the CURRENT contents (contracts judge it; the relational check names the mechanism)."""
    ctx.set_case({'op': 'history/work-buffer', 'fn': name})
    with ctx.guard(f'history/{name}'):
        for fill in fills:
            fill(buf)
            r = call(buf)
            with ctx.quiet():
                rf = call(clone(buf))
            ok, where = frozen_close(freeze(r), freeze(rf))
            ctx.check(ok, f'{name}/stale-after-argument-update', f'{name}: called again with the same argument object after its contents were updated in place, '
                      'the result differs from the result for a fresh copy of the current contents', {'where': where}, point='history/work-buffer')
        st = ctx.extra.setdefault('work_buffer_histories', {})
        st[name] = st.get(name, 0) + len(fills)


def run_history(ctx, numqi, torch):
    Dk, U = numqi.dicke, numqi.utils
    rng = ctx.rng
    ctx.workload('history')
    randc = lambda *sh: rng.normal(size=sh) + 1j * rng.normal(size=sh)

    def pt(op, dims, keep):
        if isinstance(keep, (set, list, tuple)) and len(keep) == 0:
            with ctx.guard('partial_trace/keep-empty'):  # (its own mechanism key)
                return U.partial_trace(op, dims, keep)
            return None
        return U.partial_trace(op, dims, keep)

    def torch_table(k, d, dtype=None):
        dtype = dtype or torch.complex128
        return [[torch.tensor(np.asarray(y0), dtype=y1) for y0, y1 in zip(x, [torch.int64, torch.int64, dtype])] for x in Dk.get_partial_trace_ABk_to_AB_index(k, d)]

    # ---------------- (1a) edit the result, call again
    rho6, rho12 = randc(6, 6), randc(12, 12)
    for nm, th in [('partial_trace', lambda: U.partial_trace(rho6.copy(), (2, 3), {0})), ('partial_trace', lambda: pt(rho6.copy(), (2, 3), set())),
                   ('partial_trace', lambda: U.partial_trace(rho6.copy(), (2, 3), {0, 1})), ('partial_trace', lambda: U.partial_trace(rho12.copy(), [2, 3, 2], [0, 2])),
                   ('partial_trace', lambda: U.partial_trace(np.asfortranarray(rho12), [2, 3, 2], 1))]:
        edit_result_then_call_again(ctx, nm, th)
    pairs = [(2, 2), (3, 2), (2, 3), (3, 3), (1, 2), (4, 2)] + ([(5, 2), (3, 4), (4, 3)] if ctx.tier == 'thorough' else [])
    for n, d in pairs:
        edit_result_then_call_again(ctx, 'get_dicke_klist', lambda: Dk.get_dicke_klist(n, d))
        edit_result_then_call_again(ctx, 'get_dicke_basis', lambda: Dk.get_dicke_basis(n, d))
        occ = rd.occupations(n, d)[len(rd.occupations(n, d)) // 2]
        edit_result_then_call_again(ctx, 'Dicke', lambda: Dk.Dicke(*occ))
        psi = randc(2, rd.number(n, d))

        def indirect(n=n, d=d, psi=psi):
            # numqi's own users of the table while an earlier result is edited: all monitored
            Dk.partial_trace_ABk_to_AB(psi.copy(), Dk.get_partial_trace_ABk_to_AB_index(n, d))
            with driver(ctx, 'history/PureBosonicExt'):
                model = numqi.entangle.PureBosonicExt(2, d, kext=n, distance_kind='gellmann')
                model.set_dm_target(np.eye(2 * d) / (2 * d))
                model()
            if d == 2:
                with driver(ctx, 'history/get_symmetric_extension_irrep_coeff'):
                    numqi.group.symext._get_symmetric_extension_irrep_coeff_internal.cache_clear()
                    numqi.group.symext.get_symmetric_extension_irrep_coeff(2, n)
        edit_result_then_call_again(ctx, 'get_partial_trace_ABk_to_AB_index', lambda: Dk.get_partial_trace_ABk_to_AB_index(n, d), between=indirect)
        edit_result_then_call_again(ctx, 'get_partial_trace_ABk_to_AB_index', lambda: Dk.get_partial_trace_ABk_to_AB_index(n, d, return_tensor=True), between=indirect)
        edit_result_then_call_again(ctx, 'partial_trace_ABk_to_AB', lambda: Dk.partial_trace_ABk_to_AB(psi.copy(), Dk.get_partial_trace_ABk_to_AB_index(n, d)))
        edit_result_then_call_again(ctx, 'partial_trace_ABk_to_AB', lambda: Dk.partial_trace_ABk_to_AB(torch.from_numpy(psi.copy()), torch_table(n, d)))
        if n >= 2:
            edit_result_then_call_again(ctx, 'get_qubit_dicke_partial_trace', lambda: Dk.get_qubit_dicke_partial_trace(n + d))

    # ---------------- (1b) work buffers: the same argument object refilled in place
    for dims, keep in [((2, 3), {1}), ((2, 2, 3), {0, 2}), ((3, 2), 0)]:
        D = int(np.prod(dims))
        for order in ('C', 'F'):
            buf = np.zeros((D, D), dtype=np.complex128, order=order)
            fills = [lambda b: b.__setitem__(Ellipsis, randc(D, D)) for _ in range(3)] + [lambda b: b.__imul__(2)]
            work_buffer(ctx, 'partial_trace', lambda b: U.partial_trace(b, dims, keep), buf, fills, lambda b: np.array(b, order='K', copy=True))
    dl = [2, 3]
    rho = randc(6, 6)
    work_buffer(ctx, 'partial_trace', lambda b: U.partial_trace(rho, b, {0}), dl, [lambda b: None, lambda b: b.__setitem__(slice(None), [3, 2]), lambda b: b.reverse()], list)
    for dimA, dimB, k in [(2, 2, 3), (3, 3, 2), (2, 3, 3)]:
        nd = rd.number(k, dimB)
        tab = Dk.get_partial_trace_ABk_to_AB_index(k, dimB)
        ttab = torch_table(k, dimB)
        fills = [lambda b: b.__setitem__(Ellipsis, randc(dimA, nd)) for _ in range(3)] + [lambda b: b.__imul__(0.5)]
        work_buffer(ctx, 'partial_trace_ABk_to_AB', lambda b: Dk.partial_trace_ABk_to_AB(b, tab), np.zeros((dimA, nd), dtype=np.complex128), fills, lambda b: b.copy())
        tfills = [lambda b: b.copy_(torch.from_numpy(randc(dimA, nd))) for _ in range(3)] + [lambda b: b.mul_(0.5)]
        work_buffer(ctx, 'partial_trace_ABk_to_AB', lambda b: Dk.partial_trace_ABk_to_AB(b, ttab), torch.zeros(dimA, nd, dtype=torch.complex128), tfills, lambda b: b.clone())
        # the index table itself as the reused object: the caller folds a factor into the weights, in place (its own arrays)
        psi = randc(dimA, nd)

        def scale_np(b):
            for _, _, v in b:
                v *= 0.5

        def scale_t(b):
            for x in b:
                x[2].mul_(0.5)
        mytab = [tuple(np.array(y) for y in x) for x in tab]
        work_buffer(ctx, 'partial_trace_ABk_to_AB', lambda b: Dk.partial_trace_ABk_to_AB(psi, b), mytab, [lambda b: None, scale_np, scale_np],
                    lambda b: [tuple(np.array(y) for y in x) for x in b])
        work_buffer(ctx, 'partial_trace_ABk_to_AB', lambda b: Dk.partial_trace_ABk_to_AB(torch.from_numpy(psi), b), ttab, [lambda b: None, scale_t, scale_t],
                    lambda b: [[y.clone() for y in x] for x in b])

    # ---------------- (2) call order: the same configurations in three different orders inside this process, first one repeated at the end
    confs = []
    for n, d in [(2, 2), (3, 2), (2, 3), (3, 3), (4, 2), (2, 4)]:
        def basis_conf(n=n, d=d):
            kl = Dk.get_dicke_klist(n, d)
            Dk.get_dicke_number(n, d)
            Dk.get_dicke_basis(n, d)
            Dk.Dicke(*kl[0])
            Dk.Dicke(*kl[-1])
        confs.append(basis_conf)
        for rt in (False, True):
            confs.append(lambda n=n, d=d, rt=rt: Dk.get_partial_trace_ABk_to_AB_index(n, d, return_tensor=rt))
    for n in (2, 3, 4, 5):
        confs.append(lambda n=n: Dk.get_qubit_dicke_partial_trace(n))
    for dimA, dimB, k in [(2, 3, 2), (3, 2, 2), (2, 2, 3), (3, 3, 3), (2, 4, 2), (4, 2, 4)]:
        psi = randc(dimA, rd.number(k, dimB))
        confs.append(lambda psi=psi, dimB=dimB, k=k: Dk.partial_trace_ABk_to_AB(psi.copy(), Dk.get_partial_trace_ABk_to_AB_index(k, dimB)))
        confs.append(lambda psi=psi, dimB=dimB, k=k: Dk.partial_trace_ABk_to_AB(torch.from_numpy(psi.copy()), torch_table(k, dimB)))

        def model_conf(dimA=dimA, dimB=dimB, k=k):
            with driver(ctx, 'history/PureBosonicExt'):
                model = numqi.entangle.PureBosonicExt(dimA, dimB, kext=k, distance_kind='gellmann')
                model.set_dm_target(np.eye(dimA * dimB) / (dimA * dimB))
                model().backward()
        confs.append(model_conf)
    for dims, keep in [((2, 3), {0}), ((3, 2), {0}), ((2, 3), {1}), ((2, 2, 3), {0, 2}), ((3, 2, 2), {1}), ((2, 3), set()), ((2, 3), {0, 1}), ((2, 2, 2, 2), {3, 0})]:
        op = randc(int(np.prod(dims)), int(np.prod(dims)))
        confs.append(lambda op=op, dims=dims, keep=keep: pt(op.copy(), dims, keep))
        confs.append(lambda op=op, dims=dims, keep=keep: pt(np.asfortranarray(op), list(dims), sorted(keep)))
    for kind in ('symmetric', 'boson'):
        def pre_conf(kind=kind):
            with driver(ctx, 'history/get_ABk_gellmann_preimage_op'):
                numqi.maximum_entropy.get_ABk_gellmann_preimage_op(2, 2, 2, kind=kind)
        confs.append(pre_conf)
    orders = [list(range(len(confs))), list(range(len(confs)))[::-1], [int(t) for t in rng.permutation(len(confs))]]
    if ctx.tier == 'thorough':
        orders += [[int(t) for t in rng.permutation(len(confs))] for _ in range(3)]
    for oi, order in enumerate(orders):
        for ci in order + [order[0]]:
            ctx.set_case({'op': 'history/call-order', 'order': oi, 'configuration': ci})
            with ctx.guard('history/call-order'):
                confs[ci]()
                ctx.hit('history/call-order')
    ctx.extra['call_order'] = {'configurations': len(confs), 'orders': len(orders)}


def run_repo_tests(ctx, numqi, torch):
    ctx.workload('repo-tests')
    path = os.path.join(os.path.dirname(os.path.realpath(os.environ.get('NUMQI_SRC', '/repo/python'))), 'tests', 'test_dicke.py')
    if not os.path.exists(path):
        path = '/repo/tests/test_dicke.py'
    spec = importlib.util.spec_from_file_location('vmon_repo_test_dicke', path)
    mod = importlib.util.module_from_spec(spec)
    with seeded_default_rng(ctx):
        spec.loader.exec_module(mod)
        names = sorted(n for n in dir(mod) if n.startswith('test_') and callable(getattr(mod, n)))
        for n in names:
            ctx.set_case({'op': 'repo-test', 'name': n})
            with ctx.guard(f'repo-test/{n}'):
                try:
                    getattr(mod, n)()
                    ctx.check(True, f'repo-test/{n}', '')
                except AssertionError as e:
                    ctx.check(False, f'repo-test/{n}/assertion', f'the repository test {n} failed under monitoring: {str(e)[:100]}', None)
    ctx.extra['repo_tests_run'] = names


def run(ctx, shard):
    import numqi
    import torch
    install(ctx, numqi)
    name = shard['name']
    if name.startswith('ptrace-exh'):
        run_ptrace(ctx, numqi, shard)
    elif name.startswith('dicke-basis'):
        run_dicke_basis(ctx, numqi, shard)
    elif name.startswith('abk-'):
        run_abk(ctx, numqi, torch, shard['backend'])
    elif name == 'realistic':
        run_realistic(ctx, numqi, torch)
    elif name == 'repo-tests':
        run_repo_tests(ctx, numqi, torch)
    elif name == 'history':
        run_history(ctx, numqi, torch)


# thorough tier: every random shard is run this many times with independent random streams (see vmon/runner.py get_shards)
THOROUGH_REPEAT = 8
