"""vmon: runtime-monitoring framework for husisy/numqi (see /verif/DESIGN.md)."""
