#!/venv/bin/python
"""Re-run the repository tests for seeded changes that tools/seed_verify.py could not confirm because a test of the
pinned suite that is *not* in BASELINE.stable_pass failed (always_fail / flaky there), or a rare baseline flake hit.

  tools/reconfirm_seeds.py [-j 4] [name-filter ...]

For every seeded/<name>/meta.json with confirmed_by_verifier.confirmed == False the listed test files are run again on
a scratch copy with the patch applied, deselecting exactly the tests BASELINE.json lists under always_fail / flaky
(they fail or flake on the unchanged tree as well, so they cannot tell whether a change 'passes the existing tests').
A seed is marked confirmed only when demo.py discriminated (recorded by seed_verify) and this run exits 0.
"""
import concurrent.futures
import glob
import json
import os
import shutil
import subprocess
import sys
import tempfile

VERIF = os.path.dirname(os.path.dirname(os.path.abspath(__file__)))
B = json.load(open('/root/.vp/BASELINE.json'))
UNSTABLE = sorted(set(B.get('always_fail', [])) | set(B.get('flaky', [])))


def nodeid(n):
    mod, fn = n.split('::')
    return mod.replace('.', '/') + '.py::' + fn


def one(d):
    mp = os.path.join(d, 'meta.json')
    meta = json.load(open(mp))
    c = meta.get('confirmed_by_verifier', {})
    if c.get('confirmed'):
        return d, 'already'
    if not (c.get('demo_clean_exit') == 0 and c.get('demo_changed_exit', 0) != 0):
        return d, 'demo-did-not-discriminate'
    tests = meta.get('tests', '').split()
    scratch = tempfile.mkdtemp(prefix='vmon-reconf-')
    try:
        for sub in ('python', 'tests'):
            shutil.copytree(os.path.join('/repo', sub), os.path.join(scratch, sub), ignore=shutil.ignore_patterns('__pycache__', '*.egg-info'))
        p = subprocess.run(['patch', '-p1', '-s', '-d', scratch, '-i', os.path.join(d, 'patch.diff')], capture_output=True, text=True)
        if p.returncode:
            return d, 'patch-failed'
        env = dict(os.environ, PYTHONPATH=os.path.join(scratch, 'python'), OMP_NUM_THREADS='2', PYTHONDONTWRITEBYTECODE='1')
        cmd = ['/venv/bin/python', '-m', 'pytest', '-q', '-p', 'no:cacheprovider', '--timeout=1800'] + tests
        for n in UNSTABLE:
            cmd += ['--deselect', nodeid(n)]
        t = subprocess.run(cmd, cwd=scratch, env=env, capture_output=True, text=True)
        tail = (t.stdout + t.stderr)[-300:]
        if t.returncode == 0:
            c['confirmed'] = True
            c['repo_tests_rerun'] = {'files': tests, 'deselected_because_not_stable_in_BASELINE': [nodeid(n) for n in UNSTABLE], 'exit': 0, 'tail': tail}
            meta['confirmed_by_verifier'] = c
            json.dump(meta, open(mp, 'w'), indent=1)
            return d, 'confirmed'
        # a test that failed once in the (long, loaded) full run is re-run alone three times: only a test that then passes 3/3
        # is treated as a flake of the (optimisation-based, randomly initialised) test itself
        import re
        failed = sorted(set(re.findall(r'^FAILED (\S+)', t.stdout, flags=re.M)))
        if failed:
            oks = []
            for _ in range(3):
                r = subprocess.run(['/venv/bin/python', '-m', 'pytest', '-q', '-p', 'no:cacheprovider', '--timeout=1800'] + failed, cwd=scratch, env=env, capture_output=True, text=True)
                oks.append(r.returncode == 0)
            if all(oks):
                c['confirmed'] = True
                c['repo_tests_rerun'] = {'files': tests, 'deselected_because_not_stable_in_BASELINE': [nodeid(n) for n in UNSTABLE], 'exit': t.returncode,
                                         'failed_once_then_passed_3_of_3_alone': failed, 'tail': tail}
                meta['confirmed_by_verifier'] = c
                json.dump(meta, open(mp, 'w'), indent=1)
                return d, 'confirmed (flaky test passed 3/3 alone: %s)' % failed
        return d, 'STILL-FAILS ' + tail.replace('\n', ' ')
    finally:
        shutil.rmtree(scratch, ignore_errors=True)


def main():
    args = [a for a in sys.argv[1:]]
    j = 4
    if '-j' in args:
        i = args.index('-j')
        j = int(args[i + 1])
        del args[i:i + 2]
    dirs = sorted(glob.glob(os.path.join(VERIF, 'seeded', '*')))
    dirs = [d for d in dirs if os.path.exists(os.path.join(d, 'meta.json')) and (not args or any(a in d for a in args))]
    with concurrent.futures.ThreadPoolExecutor(max_workers=j) as ex:
        for d, st in ex.map(one, dirs):
            if st != 'already':
                print(os.path.basename(d), st, flush=True)


if __name__ == '__main__':
    main()
