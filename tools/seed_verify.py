#!/venv/bin/python
"""Confirm a seeded change produced by an independent sub-agent and try the property's check against it.

  tools/seed_verify.py /tmp/seed-out/C07/a [--keep-as C07-a-name] [--skip-tests] [--tier quick|thorough]

Steps (all in a scratch copy of /repo under $TMPDIR, removed afterwards; /repo itself is never touched):
  1. demo.py on the unchanged copy      -> must exit 0
  2. patch applies; demo.py with change -> must exit non-zero
  3. the repository tests named in meta.json (tests_run) on the changed copy -> must pass
  4. ./check <property> against the changed copy (NUMQI_SRC) -> CAUGHT / MISSED / BROKEN
With --keep-as the directory is copied to /verif/seeded/<name>/ with meta.json extended by what was run here.
"""
import argparse
import json
import os
import re
import shutil
import subprocess
import sys
import tempfile
import time

VERIF = os.path.dirname(os.path.dirname(os.path.abspath(__file__)))
REPO = '/repo'
PY = '/venv/bin/python'


def run(cmd, cwd, env=None, timeout=3600):
    e = dict(os.environ)
    e.update(env or {})
    try:
        p = subprocess.run(cmd, cwd=cwd, env=e, capture_output=True, text=True, timeout=timeout)
        return p.returncode, (p.stdout + p.stderr)[-1500:]
    except subprocess.TimeoutExpired:
        return -9, 'timeout'


def main():
    ap = argparse.ArgumentParser()
    ap.add_argument('src')
    ap.add_argument('--keep-as', default=None)
    ap.add_argument('--skip-tests', action='store_true')
    ap.add_argument('--tier', default='quick')
    ap.add_argument('--also-thorough-if-missed', action='store_true')
    a = ap.parse_args()
    src = os.path.abspath(a.src)
    meta = json.load(open(os.path.join(src, 'meta.json')))
    prop = meta['property']
    res = {'property': prop, 'source': src}
    scratch = tempfile.mkdtemp(prefix='vmon-seed-')
    try:
        for d in ('python', 'tests'):
            shutil.copytree(os.path.join(REPO, d), os.path.join(scratch, d), ignore=shutil.ignore_patterns('__pycache__', '*.egg-info'))
        env = {'PYTHONPATH': os.path.join(scratch, 'python'), 'OMP_NUM_THREADS': '2', 'PYTHONDONTWRITEBYTECODE': '1'}
        shutil.copy(os.path.join(src, 'demo.py'), os.path.join(scratch, 'demo.py'))
        rc, out = run([PY, 'demo.py'], scratch, env, 1800)
        res['demo_clean_exit'] = rc
        if rc != 0:
            res['demo_clean_output'] = out[-600:]
        p = subprocess.run(['patch', '-p1', '-s', '-d', scratch, '-i', os.path.join(src, 'patch.diff')], capture_output=True, text=True)
        res['patch_applies'] = p.returncode == 0
        if p.returncode != 0:
            res['patch_output'] = (p.stdout + p.stderr)[-500:]
            print(json.dumps(res, indent=1))
            return 2
        rc, out = run([PY, 'demo.py'], scratch, env, 1800)
        res['demo_changed_exit'] = rc
        res['demo_changed_output'] = out[-400:]
        tests = [t.split(' ')[0] for t in meta.get('tests_run', []) if t.startswith('tests')]
        tests = [t for t in tests if os.path.exists(os.path.join(scratch, t.split('::')[0]))]
        if tests and not a.skip_tests:
            t0 = time.time()
            # tests that BASELINE.json lists as always_fail / flaky fail on the unchanged tree too: they cannot tell whether a change
            # 'passes the existing tests' and are deselected (the stable 230 are what counts)
            B = json.load(open('/root/.vp/BASELINE.json'))
            unstable = sorted(set(B.get('always_fail', [])) | set(B.get('flaky', [])))
            desel = []
            for n in unstable:
                mod, fn = n.split('::')
                desel += ['--deselect', mod.replace('.', '/') + '.py::' + fn]
            rc, out = run([PY, '-m', 'pytest', '-q', '-x', '-p', 'no:cacheprovider', '--timeout=1800'] + desel + tests, scratch, env, 5400)
            res['repo_tests'] = {'files': tests, 'exit': rc, 'tail': out[-300:], 'wall_s': round(time.time() - t0), 'deselected_not_stable_in_BASELINE': desel[1::2]}
        env2 = {'NUMQI_SRC': os.path.join(scratch, 'python'), 'VERIF_EVIDENCE_DIR': os.path.join(scratch, 'evidence'), 'VERIF_REPLAY_DIR': os.path.join(scratch, 'replay')}
        tiers = [a.tier]
        for tier in tiers:
            t0 = time.time()
            rc, out = run([os.path.join(VERIF, 'check'), prop, '--tier', tier], VERIF, env2, 7200)
            keys = re.findall(r'key=(\S+)', out)
            st = {0: 'MISSED', 1: 'CAUGHT', 2: 'BROKEN'}.get(rc, f'exit{rc}')
            res[f'check_{tier}'] = {'status': st, 'keys': keys[:8], 'wall_s': round(time.time() - t0), 'tail': out[-500:] if st != 'CAUGHT' else ''}
            if st == 'MISSED' and a.also_thorough_if_missed and tier == 'quick':
                tiers.append('thorough')
        ok = res.get('demo_clean_exit') == 0 and res.get('demo_changed_exit', 0) != 0
        res['confirmed'] = bool(ok and (a.skip_tests or not tests or res['repo_tests']['exit'] == 0))
        if a.keep_as:
            dst = os.path.join(VERIF, 'seeded', a.keep_as)
            os.makedirs(dst, exist_ok=True)
            for f in ('patch.diff', 'demo.py'):
                shutil.copy(os.path.join(src, f), os.path.join(dst, f))
            caught = [t for t in ('quick', 'thorough') if res.get(f'check_{t}', {}).get('status') == 'CAUGHT']
            meta2 = dict(meta)
            meta2.update({'tests': ' '.join(tests), 'confirmed_by_verifier': res, 'caught_by_tier': caught[0] if caught else None,
                          'what_was_run': 'tools/seed_verify.py: demo.py on unchanged copy (exit 0 expected), demo.py with patch (non-zero expected), '
                                          'listed repo tests on the patched copy, then ./check <property> with NUMQI_SRC pointing at the patched copy'})
            json.dump(meta2, open(os.path.join(dst, 'meta.json'), 'w'), indent=1)
        print(json.dumps(res, indent=1))
        return 0
    finally:
        shutil.rmtree(scratch, ignore_errors=True)


if __name__ == '__main__':
    sys.exit(main())
