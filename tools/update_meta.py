#!/venv/bin/python
"""Write the outcome of a `tools/selftest.py` run back into seeded/<name>/meta.json (`caught_by_tier`, `caught_by_keys`):
  tools/update_meta.py selftest/run2.log
Only lines of seeded changes that were CAUGHT are used; a seed that an earlier version of the check missed keeps that history in
`confirmed_by_verifier` (what seed_verify.py saw at delivery time) and gets `caught_after_strengthening: true`.
"""
import ast
import json
import os
import re
import sys

VERIF = os.path.dirname(os.path.dirname(os.path.abspath(__file__)))


def main():
    n = 0
    for path in sys.argv[1:]:
        for line in open(path):
            m = re.match(r'CAUGHT\s+(C\d+)\s+(seeded/\S+)\s+tier=(\S+)\s+keys=(\[.*?\])', line)
            if not m:
                continue
            prop, name, tier, keys = m.groups()
            mp = os.path.join(VERIF, name, 'meta.json')
            if not os.path.exists(mp):
                continue
            meta = json.load(open(mp))
            first = (meta.get('confirmed_by_verifier') or {})
            missed_at_delivery = any((first.get(f'check_{t}') or {}).get('status') == 'MISSED' for t in ('quick', 'thorough'))
            meta['caught_by_tier'] = tier
            try:
                meta['caught_by_keys'] = ast.literal_eval(keys)
            except Exception:
                pass
            if missed_at_delivery:
                meta['caught_after_strengthening'] = True
            json.dump(meta, open(mp, 'w'), indent=1)
            n += 1
    print(f'updated {n} meta.json files')


if __name__ == '__main__':
    main()
