#!/venv/bin/python
"""Self-validation: apply each property-breaking patch to a scratch copy of /repo/python and require the
property's check to report a VIOLATION (exit 1). Nothing in /repo or /verif/evidence is touched.

  tools/selftest.py                       all mutants/<ID>/*.diff and seeded/<name>/patch.diff, quick tier
  tools/selftest.py C08                   only that property
  tools/selftest.py --tier thorough seeded/foo
  tools/selftest.py --tests               also run the repo test file named in the patch header ('# tests: ...')

Patch files are unified diffs relative to the repository root (a/python/numqi/...). Optional header lines:
  # property: C08
  # tests: tests/test_gate.py          (must still pass on the mutant for it to be "realistic")
  # tier: thorough                      (the mutant is only expected to be caught by the thorough tier)
"""
import argparse
import concurrent.futures
import glob
import json
import os
import re
import shutil
import subprocess
import sys
import tempfile

VERIF = os.path.dirname(os.path.dirname(os.path.abspath(__file__)))
REPO = os.environ.get('NUMQI_REPO', '/repo')


def header(path):
    h = {}
    with open(path) as f:
        for line in f:
            m = re.match(r'#\s*(\w+):\s*(.*)', line)
            if m:
                h[m.group(1)] = m.group(2).strip()
            elif line.startswith(('diff ', '--- ')):
                break
    return h


def collect(filters):
    items = []
    for p in sorted(glob.glob(os.path.join(VERIF, 'mutants', 'C*', '*.diff'))):
        prop = os.path.basename(os.path.dirname(p))
        items.append({'name': f'mutants/{prop}/{os.path.basename(p)}', 'patch': p, 'prop': prop, **{k: v for k, v in header(p).items() if k != 'property'}})
    for d in sorted(glob.glob(os.path.join(VERIF, 'seeded', '*'))):
        p = os.path.join(d, 'patch.diff')
        mp = os.path.join(d, 'meta.json')
        if os.path.exists(p) and os.path.exists(mp):
            meta = json.load(open(mp))
            items.append({'name': f'seeded/{os.path.basename(d)}', 'patch': p, 'prop': meta['property'], 'tier': meta.get('caught_by_tier', 'quick'),
                          'tests': meta.get('tests', '')})
    if filters:
        items = [it for it in items if any(f == it['prop'] or f in it['name'] for f in filters)]
    return items


def run_one(it, tier, run_tests, keep):
    scratch = tempfile.mkdtemp(prefix='vmon-mut-')
    try:
        shutil.copytree(os.path.join(REPO, 'python'), os.path.join(scratch, 'python'), ignore=shutil.ignore_patterns('__pycache__', '*.egg-info'))
        p = subprocess.run(['patch', '-p1', '-s', '-d', scratch, '-i', it['patch']], capture_output=True, text=True)
        if p.returncode != 0:
            return {**it, 'status': 'PATCH-FAILED', 'detail': (p.stdout + p.stderr)[-500:]}
        env = dict(os.environ)
        env['NUMQI_SRC'] = os.path.join(scratch, 'python')
        env['VERIF_EVIDENCE_DIR'] = os.path.join(scratch, 'evidence')
        env['VERIF_REPLAY_DIR'] = os.path.join(scratch, 'replay')
        use_tier = tier or it.get('tier') or 'quick'
        q = subprocess.run([os.path.join(VERIF, 'check'), it['prop'], '--tier', use_tier], capture_output=True, text=True, env=env, cwd=VERIF)
        keys = re.findall(r'key=(\S+)', q.stdout)
        status = {0: 'MISSED', 1: 'CAUGHT', 2: 'BROKEN'}.get(q.returncode, f'exit{q.returncode}')
        res = {**it, 'status': status, 'tier_run': use_tier, 'keys': keys[:6], 'tail': q.stdout[-400:] if status != 'CAUGHT' else '',
               'stderr': q.stderr[-600:] if status == 'BROKEN' else ''}
        if run_tests and it.get('tests'):
            shutil.copytree(os.path.join(REPO, 'tests'), os.path.join(scratch, 'tests'))
            env2 = dict(os.environ)
            env2['PYTHONPATH'] = os.path.join(scratch, 'python')
            t = subprocess.run(['/venv/bin/python', '-m', 'pytest', '-q', '-x', '-p', 'no:cacheprovider', '--timeout=900'] + it['tests'].split(),
                               capture_output=True, text=True, env=env2, cwd=scratch)
            res['repo_tests'] = 'pass' if t.returncode == 0 else 'FAIL: ' + t.stdout[-300:]
        return res
    finally:
        if not keep:
            shutil.rmtree(scratch, ignore_errors=True)


def main():
    ap = argparse.ArgumentParser()
    ap.add_argument('filters', nargs='*')
    ap.add_argument('--tier', default=None)
    ap.add_argument('--tests', action='store_true')
    ap.add_argument('--keep', action='store_true')
    ap.add_argument('-j', type=int, default=4)
    a = ap.parse_args()
    items = collect(a.filters)
    bad = 0
    with concurrent.futures.ThreadPoolExecutor(max_workers=a.j) as ex:
        for r in ex.map(lambda it: run_one(it, a.tier, a.tests, a.keep), items):
            line = f"{r['status']:12s} {r['prop']} {r['name']} tier={r.get('tier_run')} keys={r.get('keys')}"
            if 'repo_tests' in r:
                line += f" repo_tests={r['repo_tests']}"
            print(line, flush=True)
            if r['status'] != 'CAUGHT':
                bad += 1
                print('   ', r.get('detail') or r.get('tail'), r.get('stderr', ''))
    print(f'{len(items) - bad}/{len(items)} caught')
    return 1 if bad else 0


if __name__ == '__main__':
    sys.exit(main())
