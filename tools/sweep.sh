#!/bin/sh
# seed sweep on the unchanged tree: every check, given tier, seeds from the command line; evidence/replay go to a scratch dir.
# usage: tools/sweep.sh quick 1 2 3 4
cd "$(dirname "$0")/.."
tier=$1; shift
out=${SWEEP_OUT:-/tmp/vmon-sweep}
mkdir -p $out
for seed in "$@"; do
  for i in 01 02 03 04 05 06 07 08 09 10 11 12 13 14 15 16 17 18 19 20; do
    p=C$i
    VERIF_EVIDENCE_DIR=$out/ev VERIF_REPLAY_DIR=$out/replay ./check $p --tier $tier --seed $seed > $out/$p-$tier-$seed.log 2>&1
    echo "$p tier=$tier seed=$seed exit=$? $(grep -c VIOLATION $out/$p-$tier-$seed.log) $(grep -o 'wall=[0-9.]*s' $out/$p-$tier-$seed.log | head -1)"
  done
done
