#!/venv/bin/python
"""Regenerate /verif/MANIFEST.json from the property modules that exist (vmon/props/cXX.py).
Properties without a module are listed under not_applicable with the reason given in NOT_CLAIMED below."""
import importlib
import json
import os
import sys

VERIF = os.path.dirname(os.path.dirname(os.path.abspath(__file__)))
sys.path.insert(0, VERIF)

NOT_CLAIMED = {}  # property id -> reason (filled only when a property is deliberately not claimed)

DEFAULT_LEVEL = ('Runtime monitoring (exploration): contracts attached to the real numqi functions are evaluated on every call '
                 'made by exhaustive, hostile-random, corner-case and realistic workloads and compared with an independent '
                 'reference model; the verdict is "held on the executions observed" with counts of monitor evaluations, '
                 'distinct non-trivial cases and hits per observation point. It is not a proof; a deciding monitor with zero '
                 'evaluations makes the run exit non-zero.')
DEFAULT_NOTE = ('Trusted base: numpy/torch/scipy/cvxpy numerics, the reference models in vmon/ref, the tolerance policy of '
                'DESIGN.md section 3. Says nothing about inputs the workloads did not produce.')


def main():
    checks = []
    na = []
    props = [json.loads(l) for l in open(os.path.join(VERIF, 'properties.jsonl'))]
    import subprocess
    tracked = set(subprocess.run(['git', '-C', VERIF, 'ls-files', 'vmon/props'], capture_output=True, text=True).stdout.split())
    for p in props:
        pid = p['id']
        path = os.path.join(VERIF, 'vmon', 'props', pid.lower() + '.py')
        if pid in NOT_CLAIMED or not os.path.exists(path) or f'vmon/props/{pid.lower()}.py' not in tracked:
            na.append({'property_id': pid, 'reason': NOT_CLAIMED.get(pid, 'check not built yet (work in progress in this session); no claim is made')})
            continue
        mod = importlib.import_module(f'vmon.props.{pid.lower()}')
        checks.append({
            'property_id': pid,
            'quick_cmd': f'./check {pid} --tier quick',
            'thorough_cmd': f'./check {pid} --tier thorough',
            'evidence_file': f'/verif/evidence/{pid}.json',
            'replay_cmd_template': f'./check {pid} --replay {{path}}',
            'engine': 'vmon',
            'level_claimed': {'category': 'exploration', 'text': getattr(mod, 'LEVEL_TEXT', DEFAULT_LEVEL),
                              'design_ref': f'DESIGN.md section 4, {pid}'},
            'level_note': getattr(mod, 'LEVEL_NOTE', DEFAULT_NOTE),
            'technique': getattr(mod, 'TECHNIQUE', 'runtime monitoring: contracts on the real functions + reference-model oracle over driven workloads'),
        })
    manifest = {
        'version': 1,
        'setup_cmd': './setup.sh',
        'hooks': {
            'guard': 'NUMQI_VERIF',
            'enable': 'no source hooks are needed: monitors wrap the real numqi callables from outside at import time '
                      '(vmon.core.Ctx.attach); NUMQI_VERIF=1 is set by the harness for its own sub-processes only',
            'baseline_off_cmd': 'cd /repo && /venv/bin/python -m pytest -ra -q -p no:cacheprovider --timeout=900 --continue-on-collection-errors',
            'source_commits': [],
            'add_only': True,
        },
        'engines': [{'name': 'vmon', 'path': '/verif/vmon', 'serves_properties': [c['property_id'] for c in checks],
                     'kind_free_text': 'python runtime-monitoring framework: attach/rebind contracts, reference models, sharded workloads, '
                                       'three-valued verdict, evidence writer'}],
        'checks': checks,
        'not_applicable': na,
        'notes': 'All checks import numqi from /repo/python (current working tree) in fresh sub-processes. VERIF_SEED and VERIF_TIER are honoured. '
                 'Exit 0 held / 1 violation (VIOLATION line) / 2 broken or inconclusive (deciding monitor never reached, shard crash or watchdog).',
    }
    with open(os.path.join(VERIF, 'MANIFEST.json'), 'w') as f:
        json.dump(manifest, f, indent=1)
    import jsonschema
    jsonschema.validate(manifest, json.load(open('/root/.vp/MANIFEST.schema.json')))
    print('MANIFEST.json:', len(checks), 'checks,', len(na), 'not_applicable; schema-valid')


if __name__ == '__main__':
    main()
